#!/bin/bash
# D5 / [C03.no-input]: a target that declares no input is always executed, also when a stale
# (empty) record of an earlier configuration is still on disk.  Exit 0 = holds, 1 = skipped.
. "$(dirname "$0")/lib.sh"
cat > "$WORK/zinoma.yml" <<'Y'
targets:
  t:
    input:
      - paths: [missing]
    build: 'echo run >> trace'
Y
run_z 20 "$WORK" t >/dev/null 2>&1
cat > "$WORK/zinoma.yml" <<'Y'
targets:
  t:
    build: 'echo run >> trace'
Y
run_z 20 "$WORK" t >"$WORK/out" 2>&1
n=$(wc -l < "$WORK/trace")
if [ "$n" -ne 2 ]; then echo "target without input was executed $n time(s) over 2 invocations:"; cat "$WORK/out"; exit 1; fi
echo "target without input executed on every invocation"
exit 0
