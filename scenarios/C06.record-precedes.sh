#!/bin/bash
# D3 / [C06.record-precedes]: an input edited while its build is running must end up built
# (watch mode).  Exit 0 = final output reflects the last edit, 1 = the change was absorbed by a skip.
. "$(dirname "$0")/lib.sh"
mkdir -p "$WORK/src"; echo 1 > "$WORK/src/in.txt"
cat > "$WORK/zinoma.yml" <<'Y'
targets:
  t:
    input:
      - paths: [src]
    output:
      - paths: [out.txt]
    build: 'v=$(cat src/in.txt); echo start >> trace; sleep 1; echo $v > out.txt'
Y
( cd "$WORK" && exec timeout -s KILL 40 "$ZINOMA" --watch t ) >"$WORK/log" 2>&1 &
zp=$!
for i in $(seq 1 100); do [ -s "$WORK/trace" ] && break; sleep 0.1; done
sleep 0.3
echo 2 > "$WORK/src/in.txt"          # edit while the first build is still sleeping
ok=1
for i in $(seq 1 80); do [ "$(cat "$WORK/out.txt" 2>/dev/null)" = "2" ] && { ok=0; break; }; sleep 0.1; done
kill -KILL $zp 2>/dev/null; wait $zp 2>/dev/null
if [ $ok -ne 0 ]; then echo "in=$(cat "$WORK/src/in.txt") out=$(cat "$WORK/out.txt" 2>/dev/null) after 8 s:"; grep -E "skipped|Building" "$WORK/log" | tail -4; exit 1; fi
echo "edit made during the build was rebuilt (out=2)"
exit 0
