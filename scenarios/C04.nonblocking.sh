#!/bin/bash
# D2 / [C04.nonblocking]: wide fan-out must not dead-lock the relay against a full actor inbox.
# `all`: aggregate over N trivial build targets.  Exit 0 = terminates, 1 = hang (property broken).
. "$(dirname "$0")/lib.sh"
N="${N:-300}"; RUNS="${RUNS:-3}"
{
  echo "targets:"
  for i in $(seq 1 $N); do echo "  t$i:"; echo "    build: 'true'"; done
  echo "  all:"
  echo "    dependencies: [$(seq -s, -f 't%g' 1 $N)]"
} > "$WORK/zinoma.yml"
bad=0
for r in $(seq 1 "$RUNS"); do
  run_z 60 "$WORK" all >"$WORK/out.$r" 2>&1; rc=$?
  if [ $rc -ne 0 ]; then echo "run $r: exit status $rc (137 = killed after 60 s without terminating)"; tail -2 "$WORK/out.$r"; bad=1; fi
done
[ $bad -eq 0 ] && echo "fan-out $N terminated in $RUNS/$RUNS runs"
exit $bad
