#!/bin/bash
# [C15.watch-scope]: a project that lives below a directory named `.zinoma`.  The walk applies the `.zinoma`
# rule at or below the listed path, so the input file is listed and checksummed (a second one-shot run
# notices an edit); the watcher tests every component of the event path, so in watch mode the same edit is
# ignored.  Exit 0 = watch mode rebuilds after the edit, 1 = the edit is ignored although the file is listed.
. "$(dirname "$0")/lib.sh"
P="$WORK/.zinoma/proj"
mkdir -p "$P/src"; echo 1 > "$P/src/in.txt"
cat > "$P/zinoma.yml" <<'Y'
targets:
  t:
    input:
      - paths: [src]
    build: 'echo run >> trace'
Y
# one-shot: the file is part of the denoted set (an edit re-runs the build)
run_z 20 "$P" t >/dev/null 2>&1
sleep 1.1; echo 2 > "$P/src/in.txt"
run_z 20 "$P" t >/dev/null 2>&1
n=$(wc -l < "$P/trace")
if [ "$n" -ne 2 ]; then echo "unexpected: one-shot runs executed the build $n time(s) over 2 invocations with an edit in between"; exit 0; fi
# watch mode: the same kind of edit
( cd "$P" && exec timeout -s KILL 40 "$ZINOMA" --watch t ) >"$WORK/log" 2>&1 &
zp=$!
sleep 2
sleep 1.1; echo 3 > "$P/src/in.txt"
ok=1
for i in $(seq 1 60); do [ "$(wc -l < "$P/trace")" -ge 3 ] && { ok=0; break; }; sleep 0.1; done
kill -KILL $zp 2>/dev/null; wait $zp 2>/dev/null
if [ $ok -ne 0 ]; then echo "src/in.txt is listed (one-shot runs rebuilt after an edit) but its watch events are ignored: builds=$(wc -l < "$P/trace") 6 s after the edit"; tail -3 "$WORK/log"; exit 1; fi
echo "watch mode rebuilt after the edit"
exit 0
