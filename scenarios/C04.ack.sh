#!/bin/bash
# D1 / [C04.ack]: a requester that registers after its dependency completed must still be acknowledged.
# b: build `true`; aggregates a0..a(N-1) chained on b; top depends on [b, a(N-1)].  `top` reaches b long
# before the chain does, so the last aggregate registers late.  Exit 0 = behaves, 1 = hang (property broken).
. "$(dirname "$0")/lib.sh"
N="${N:-60}"; RUNS="${RUNS:-4}"
{
  echo "targets:"
  echo "  b:"
  echo "    build: 'true'"
  echo "  a0:"
  echo "    dependencies: [b]"
  for i in $(seq 1 $((N-1))); do echo "  a$i:"; echo "    dependencies: [a$((i-1))]"; done
  echo "  top:"
  echo "    dependencies: [b, a$((N-1))]"
} > "$WORK/zinoma.yml"
bad=0
for r in $(seq 1 "$RUNS"); do
  run_z 20 "$WORK" top >"$WORK/out.$r" 2>&1; rc=$?
  if [ $rc -ne 0 ]; then echo "run $r: exit status $rc (137 = killed after 20 s without terminating)"; tail -3 "$WORK/out.$r"; bad=1; fi
done
[ $bad -eq 0 ] && echo "late requester acknowledged in $RUNS/$RUNS runs (N=$N)"
exit $bad
