#!/bin/bash
# D6 / [C14.unique]: two different imported projects with the same name must be rejected up front
# (otherwise `x::t` denotes a different target from run to run).  Exit 0 = rejected, 1 = accepted.
. "$(dirname "$0")/lib.sh"
mkdir -p "$WORK/root" "$WORK/d1" "$WORK/d2" "$WORK/d3"
printf 'name: x\ntargets:\n  t:\n    build: "echo from-d1 >> %s/trace"\n' "$WORK" > "$WORK/d1/zinoma.yml"
printf 'name: x\ntargets:\n  t:\n    build: "echo from-d3 >> %s/trace"\n' "$WORK" > "$WORK/d3/zinoma.yml"
printf 'name: mid\nimports:\n  x: ../d3\ntargets:\n  m:\n    build: "true"\n' > "$WORK/d2/zinoma.yml"
printf 'imports:\n  x: ../d1\n  mid: ../d2\ntargets:\n  top:\n    dependencies: [x::t, mid::m]\n' > "$WORK/root/zinoma.yml"
bad=0
for r in 1 2 3 4; do
  run_z 20 "$WORK/root" x::t >"$WORK/out" 2>&1; rc=$?
  if [ $rc -eq 0 ]; then bad=1; fi
done
if [ $bad -ne 0 ]; then echo "duplicate project name accepted; x::t ran:"; sort "$WORK/trace" | uniq -c; exit 1; fi
echo "duplicate project name rejected: $(tail -1 "$WORK/out")"
exit 0
