#!/bin/bash
# D8 / [C05.corrupt-bounded]: a state file holding arbitrary bytes must be dropped and lead to a rebuild.
# 64 bytes of 0xff announce a huge length prefix; the unbounded bincode decoder tried to allocate it, the
# blocking task panicked ("capacity overflow") and zinoma hung.  Exit 0 = rebuilt, 1 = panic / hang / skip.
. "$(dirname "$0")/lib.sh"
mkdir -p "$WORK/src"; echo 1 > "$WORK/src/a"
cat > "$WORK/zinoma.yml" <<'Y'
targets:
  t:
    input:
      - paths: [src]
    build: echo built >> trace
Y
run_z 20 "$WORK" t >"$WORK/out.1" 2>&1 || { echo "first run failed"; cat "$WORK/out.1"; exit 2; }
f=$(ls "$WORK"/.zinoma/* | head -1)
head -c 64 /dev/zero | tr '\0' '\377' > "$f"
run_z 10 "$WORK" t >"$WORK/out.2" 2>&1; rc=$?
n=$(wc -l < "$WORK/trace")
if [ $rc -ne 0 ] || [ "$n" -ne 2 ]; then echo "garbage state file: exit status $rc (137 = killed after 10 s), script ran $n time(s) in total (expected 2):"; tail -4 "$WORK/out.2"; exit 1; fi
echo "garbage state file dropped, target rebuilt, exit 0"
exit 0
