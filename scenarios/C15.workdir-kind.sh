#!/bin/bash
# [C15.workdir-kind]: a regular *file* named `.zinoma` below a listed path is a regular file that is not
# inside a directory named `.zinoma`, so the resource denotes it; the walk prunes every entry of that name,
# whatever its kind.  Exit 0 = the file is part of the input (editing it re-runs the build), 1 = it is ignored.
. "$(dirname "$0")/lib.sh"
mkdir -p "$WORK/in"
echo a > "$WORK/in/.zinoma"
echo a > "$WORK/in/other"
cat > "$WORK/zinoma.yml" <<'Y'
targets:
  t:
    input:
      - paths: [in]
    build: 'echo run >> trace'
Y
run_z 20 "$WORK" t >/dev/null 2>&1
sleep 1.1
echo b > "$WORK/in/.zinoma"
run_z 20 "$WORK" t >"$WORK/out" 2>&1
n=$(wc -l < "$WORK/trace")
if [ "$n" -ne 2 ]; then echo "the regular file in/.zinoma was edited between two invocations, the build ran $n time(s):"; cat "$WORK/out"; exit 1; fi
echo "editing the regular file in/.zinoma re-ran the build"
exit 0
