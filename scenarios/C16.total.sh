#!/bin/bash
# D7 / [C16.total]: a file whose name is not valid UTF-8 must not stop the watcher from reporting later
# changes.  Exit 0 = a later relevant change is still built, 1 = the watcher died.
. "$(dirname "$0")/lib.sh"
mkdir -p "$WORK/src"; echo 0 > "$WORK/src/a.txt"
cat > "$WORK/zinoma.yml" <<'Y'
targets:
  t:
    input:
      - paths: [src]
    build: 'cat src/a.txt >> trace'
Y
( cd "$WORK" && exec timeout -s KILL 30 "$ZINOMA" --watch t ) >"$WORK/out" 2>&1 &
zp=$!
for i in $(seq 1 50); do [ -s "$WORK/trace" ] && break; sleep 0.1; done
python3 - "$WORK/src" <<'P'
import os, sys
open(os.path.join(os.fsencode(sys.argv[1]), b"\xff\xfe.txt"), "w").write("x")
P
sleep 1.5
echo 7 > "$WORK/src/a.txt"
ok=1
for i in $(seq 1 60); do grep -q 7 "$WORK/trace" 2>/dev/null && { ok=0; break; }; sleep 0.1; done
kill -KILL $zp 2>/dev/null; pkill -KILL -P $zp 2>/dev/null; wait $zp 2>/dev/null
if [ $ok -ne 0 ]; then echo "change made after a non-UTF-8 file name appeared was never built:"; grep -v "^INFO" "$WORK/out" | head -5; exit 1; fi
echo "watcher survived a non-UTF-8 file name"
exit 0
