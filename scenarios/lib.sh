# shared by scenario scripts: $ZINOMA = binary under test; every run is under `timeout -s KILL`
set -u
ZINOMA="${ZINOMA:?set ZINOMA to the zinoma binary}"
export RUST_BACKTRACE=0
WORK="$(mktemp -d /var/tmp/zv-scn-XXXXXX)"
trap 'rm -rf "$WORK"' EXIT
run_z() { # run_z <timeout-seconds> <dir> args...
  local t="$1" d="$2"; shift 2
  ( cd "$d" && timeout -s KILL "$t" "$ZINOMA" "$@" ) 
}
