#!/bin/bash
# D9 / [C06.missing-path]: watch mode on a clean tree - the consumer's inherited input path (the producer's output
# directory) does not exist yet when watching begins; zinoma must skip that watch with a warning and build.
# On Linux notify reports the missing path as Io(NotFound), which the pinned code treated as a hard error.
# Exit 0 = consumer built, 1 = zinoma gave up ("Error watching path").
. "$(dirname "$0")/lib.sh"
mkdir -p "$WORK/psrc"; echo p0 > "$WORK/psrc/p.txt"
cat > "$WORK/zinoma.yml" <<'Y'
targets:
  prod:
    input:
      - paths: [psrc]
    output:
      - paths: [gen]
    build: mkdir -p gen && cat psrc/p.txt > gen/g.txt
  cons:
    input: [prod.output]
    output:
      - paths: [final.txt]
    build: cat gen/g.txt > final.txt
Y
( cd "$WORK" && exec timeout -s KILL 30 "$ZINOMA" --watch cons ) >"$WORK/log" 2>&1 &
zp=$!
ok=1
for i in $(seq 1 100); do [ "$(cat "$WORK/final.txt" 2>/dev/null)" = "p0" ] && { ok=0; break; }; kill -0 $zp 2>/dev/null || break; sleep 0.1; done
kill -KILL $zp 2>/dev/null; wait $zp 2>/dev/null
if [ $ok -ne 0 ]; then echo "watch mode on a clean tree did not build cons:"; tail -4 "$WORK/log"; exit 1; fi
echo "missing output directory skipped with a warning, cons built"
exit 0
