#!/bin/bash
# D4 / [C03.reflexive, C13.cmd-key]: the same cmd_stdout text declared in two project directories with
# different outputs; the consumer inherits both through `X.output`.  On an untouched tree the second
# invocation must skip the consumer.  Exit 0 = skipped, 1 = rebuilt every time.
. "$(dirname "$0")/lib.sh"
mkdir -p "$WORK/root" "$WORK/p1" "$WORK/p2"
echo one > "$WORK/p1/v.txt"; echo two > "$WORK/p2/v.txt"
for p in p1 p2; do cat > "$WORK/$p/zinoma.yml" <<Y
name: $p
targets:
  gen:
    input:
      - paths: [v.txt]
    output:
      - cmd_stdout: 'cat v.txt'
    build: 'true'
Y
done
cat > "$WORK/root/zinoma.yml" <<'Y'
imports:
  p1: ../p1
  p2: ../p2
targets:
  consumer:
    input:
      - p1::gen.output
      - p2::gen.output
    build: 'echo run >> trace'
Y
run_z 30 "$WORK/root" consumer >/dev/null 2>&1
run_z 30 "$WORK/root" consumer >"$WORK/out" 2>&1
n=$(wc -l < "$WORK/root/trace")
if [ "$n" -ne 1 ]; then echo "consumer executed $n times over 2 invocations on an untouched tree:"; cat "$WORK/out"; exit 1; fi
echo "consumer skipped on the untouched tree"
exit 0
