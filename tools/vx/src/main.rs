//! vx — mechanical extractor for contract-based verification of fbecart/zinoma.
//!
//! Reads a unit spec (`spec/<unit>.vs`), copies the named items out of /repo's
//! *current* source text by span, applies the logged rewrite rules of DESIGN.md §3
//! and splices in the contracts of the spec.  Writes:
//!   <out>/unit.rs        the single-file Verus input
//!   <out>/rules.json     every rule application (rule id, source file:line, note)
//!   <out>/fidelity.txt   per item: source range, original text, emitted text
//!   <out>/map.json       unit.rs line -> source file:line, and per-item line ranges
//!
//! Exit codes: 0 ok; 2 refusal (lost anchor, unsupported construct, shape mismatch).
mod spec;

use proc_macro2::Span;
use spec::*;
use std::collections::{BTreeMap, BTreeSet, HashMap};
use std::fmt::Write as _;
use syn::spanned::Spanned;
use syn::visit::Visit;

static VACUITY: std::sync::atomic::AtomicBool = std::sync::atomic::AtomicBool::new(false);
static PROBE_NO: std::sync::atomic::AtomicUsize = std::sync::atomic::AtomicUsize::new(0);
thread_local! { static PROBES: std::cell::RefCell<Vec<(usize, String)>> = std::cell::RefCell::new(vec![]); }

fn vacuity() -> bool { VACUITY.load(std::sync::atomic::Ordering::Relaxed) }
/// vacuity mode: `assert(!vac_probe(N))` must FAIL at every probed program point; a probe that verifies
/// marks code that the contracts make unreachable (contradictory requires / invariants / oracle contracts)
fn new_probe(what: String) -> String {
    let n = PROBE_NO.fetch_add(1, std::sync::atomic::Ordering::Relaxed);
    PROBES.with(|p| p.borrow_mut().push((n, what)));
    format!(" assert(!vac_probe({})); ", n)
}

#[derive(Debug)]
pub struct Refuse(pub String);
type R<T> = Result<T, Refuse>;
macro_rules! refuse { ($($a:tt)*) => { return Err(Refuse(format!($($a)*))) } }

#[derive(Clone, Debug)]
struct Edit {
    start: usize,
    end: usize,
    text: String,
    rule: String,
    note: String,
    seq: usize,
}

struct SrcFile {
    rel: String,
    text: String,
    ast: syn::File,
    line_starts: Vec<usize>,
}

impl SrcFile {
    fn load(repo: &str, rel: &str) -> R<SrcFile> {
        let p = format!("{}/{}", repo, rel);
        let text = std::fs::read_to_string(&p).map_err(|e| Refuse(format!("cannot read {}: {}", p, e)))?;
        let ast = syn::parse_file(&text).map_err(|e| Refuse(format!("cannot parse {}: {}", p, e)))?;
        let mut line_starts = vec![0];
        for (i, b) in text.bytes().enumerate() {
            if b == b'\n' {
                line_starts.push(i + 1);
            }
        }
        Ok(SrcFile { rel: rel.to_string(), text, ast, line_starts })
    }
    fn line_of(&self, byte: usize) -> usize {
        match self.line_starts.binary_search(&byte) {
            Ok(i) => i + 1,
            Err(i) => i,
        }
    }
}

fn br(s: Span) -> (usize, usize) {
    let r = s.byte_range();
    (r.start, r.end)
}

fn norm(s: &str) -> String {
    s.split_whitespace().collect::<Vec<_>>().join(" ")
}
fn squash(s: &str) -> String {
    s.chars().filter(|c| !c.is_whitespace()).collect()
}

// ---------------------------------------------------------------------------
// locating items
// ---------------------------------------------------------------------------

enum Found<'a> {
    Fn { sig: &'a syn::Signature, block: &'a syn::Block, vis: Option<&'a syn::Visibility>, whole: Span },
}

fn type_name(t: &syn::Type) -> Option<String> {
    if let syn::Type::Path(p) = t {
        p.path.segments.last().map(|s| s.ident.to_string())
    } else {
        None
    }
}

fn find_fn_in_items<'a>(items: &'a [syn::Item], segs: &[&str]) -> Option<Found<'a>> {
    if segs.is_empty() {
        return None;
    }
    for it in items {
        match it {
            syn::Item::Fn(f) if f.sig.ident == segs[0] => {
                if segs.len() == 1 {
                    return Some(Found::Fn { sig: &f.sig, block: &f.block, vis: Some(&f.vis), whole: f.span() });
                }
                return find_nested(&f.block, &segs[1..]);
            }
            syn::Item::Impl(im) => {
                // `Type::method` or `Trait<..> for Type` written as `Type::method`
                if type_name(&im.self_ty).as_deref() == Some(segs[0]) && segs.len() >= 2 {
                    for ii in &im.items {
                        if let syn::ImplItem::Fn(f) = ii {
                            if f.sig.ident == segs[1] {
                                if segs.len() == 2 {
                                    let vis = if im.trait_.is_some() { None } else { Some(&f.vis) };
                                    return Some(Found::Fn { sig: &f.sig, block: &f.block, vis, whole: f.span() });
                                }
                                return find_nested(&f.block, &segs[2..]);
                            }
                        }
                    }
                }
            }
            syn::Item::Mod(m) => {
                if let Some((_, content)) = &m.content {
                    if m.ident == segs[0] {
                        if let Some(f) = find_fn_in_items(content, &segs[1..]) {
                            return Some(f);
                        }
                    }
                }
            }
            _ => {}
        }
    }
    None
}

fn find_nested<'a>(block: &'a syn::Block, segs: &[&str]) -> Option<Found<'a>> {
    struct V<'a, 'b> {
        name: &'b str,
        found: Option<&'a syn::ItemFn>,
    }
    impl<'a, 'b> Visit<'a> for V<'a, 'b> {
        fn visit_item_fn(&mut self, f: &'a syn::ItemFn) {
            if self.found.is_none() && f.sig.ident == self.name {
                self.found = Some(f);
            }
        }
    }
    let mut v = V { name: segs[0], found: None };
    v.visit_block(block);
    let f = v.found?;
    if segs.len() == 1 {
        Some(Found::Fn { sig: &f.sig, block: &f.block, vis: None, whole: f.span() })
    } else {
        find_nested(&f.block, &segs[1..])
    }
}

/// closures of a block in source (pre-)order, *not* descending into the argument lists that rule
/// R12 drops (`with_context`, `context`, `anyhow!`), and descending into `select!` arms.
/// a closure, or a free-standing `async { .. }` block (e.g. the argument of `task::block_on`)
#[derive(Clone, Copy)]
enum Clo<'a> {
    Closure(&'a syn::ExprClosure),
    Async(&'a syn::ExprAsync),
}
impl<'a> Clo<'a> {
    fn span(&self) -> Span {
        match self {
            Clo::Closure(c) => c.span(),
            Clo::Async(a) => a.span(),
        }
    }
}

fn clo_body<'a>(c: Clo<'a>) -> Body<'a> {
    match c {
        Clo::Async(a) => Body::Block(&a.block),
        Clo::Closure(c) => match &*c.body {
            syn::Expr::Async(a) => Body::Block(&a.block),
            syn::Expr::Block(b) => Body::Block(&b.block),
            e => Body::Expr(e),
        },
    }
}

fn collect_closures<'a>(block: &'a syn::Block) -> Vec<Clo<'a>> {
    struct V<'a> {
        out: Vec<Clo<'a>>,
    }
    impl<'a> Visit<'a> for V<'a> {
        fn visit_expr_closure(&mut self, c: &'a syn::ExprClosure) {
            self.out.push(Clo::Closure(c));
            // an `async move { }` directly as the closure body belongs to the closure
            if let syn::Expr::Async(a) = &*c.body {
                self.visit_block(&a.block);
            } else {
                syn::visit::visit_expr_closure(self, c);
            }
        }
        fn visit_expr_async(&mut self, a: &'a syn::ExprAsync) {
            self.out.push(Clo::Async(a));
            syn::visit::visit_expr_async(self, a);
        }
        fn visit_expr_method_call(&mut self, m: &'a syn::ExprMethodCall) {
            let name = m.method.to_string();
            if name == "with_context" || name == "context" || name == "ok_or_else" || name == "map_err" || name == "unwrap_or_else" {
                self.visit_expr(&m.receiver);
                return;
            }
            syn::visit::visit_expr_method_call(self, m);
        }
        fn visit_item_fn(&mut self, _f: &'a syn::ItemFn) {}
    }
    let mut v = V { out: vec![] };
    v.visit_block(block);
    v.out
}

// ---------------------------------------------------------------------------
// select! parsing
// ---------------------------------------------------------------------------

struct SelArm {
    pat: syn::Pat,
    fut: syn::Expr,
    body: syn::Expr,
    comma: Option<Span>,
    fat_arrow: Span,
}
struct SelBody {
    arms: Vec<SelArm>,
}
impl syn::parse::Parse for SelBody {
    fn parse(input: syn::parse::ParseStream) -> syn::Result<Self> {
        let mut arms = vec![];
        while !input.is_empty() {
            let pat = syn::Pat::parse_single(input)?;
            let _eq: syn::Token![=] = input.parse()?;
            let fut: syn::Expr = input.parse()?;
            let fa: syn::Token![=>] = input.parse()?;
            let body: syn::Expr = input.parse()?;
            let comma = if input.peek(syn::Token![,]) {
                let c: syn::Token![,] = input.parse()?;
                Some(c.span)
            } else {
                None
            };
            arms.push(SelArm { pat, fut, body, comma, fat_arrow: fa.span() });
        }
        Ok(SelBody { arms })
    }
}

// ---------------------------------------------------------------------------
// the rewriter
// ---------------------------------------------------------------------------

struct Rw<'s> {
    src: &'s SrcFile,
    unit: &'s Unit,
    f: &'s FnSpec,
    edits: Vec<Edit>,
    err: Option<String>,
    loop_no: usize,
    select_no: usize,
    closure_no: usize,
    pinned: BTreeSet<String>,
    threaded: &'s BTreeSet<String>,
    calls: BTreeSet<String>,
    used_loops: BTreeSet<usize>,
    used_selects: BTreeSet<usize>,
    used_closures: BTreeSet<usize>,
    swallowed: Vec<(usize, String)>,
    anchor_hits: HashMap<usize, usize>, // index into f.anchors -> matches seen
    anchor_done: BTreeSet<usize>,
    self_as: Option<String>,
    scan_only: bool,
    /// (body start, body end, label) of every match / select arm, in visiting order
    arms: Vec<(usize, usize, String)>,
    /// > 0 while visiting the arms of a `select!` (the root of the R16 case split)
    in_select: usize,
}

impl<'s> Rw<'s> {
    fn edit(&mut self, start: usize, end: usize, text: &str, rule: &str, note: &str) {
        let seq = self.edits.len();
        self.edits.push(Edit { start, end, text: text.to_string(), rule: rule.to_string(), note: note.to_string(), seq });
    }
    fn fail(&mut self, msg: String) {
        if self.err.is_none() {
            self.err = Some(msg);
        }
    }
    fn text(&self, s: Span) -> &str {
        let (a, b) = br(s);
        &self.src.text[a..b]
    }
    fn loc(&self, s: Span) -> String {
        format!("{}:{}", self.src.rel, s.start().line)
    }

    fn lookup(&self, segs: &[String]) -> Option<String> {
        for (k, v) in &self.f.subst {
            if k.as_slice() == segs {
                return Some(v.clone());
            }
        }
        self.unit.subst_lookup(segs).map(|s| s.to_string())
    }

    /// R16 (case split): register a match / select arm; in a copy where it is not the live arm its
    /// body is prefixed with a call to the prelude function `arm_verified_in_another_copy()`.
    fn register_arm(&mut self, body: Span, label: String) {
        // only the arms of a `select!` and of matches nested inside them take part in the split:
        // they are mutually exclusive; a match that runs *before* the select! is sequential to it
        if self.in_select == 0 {
            return;
        }
        let (a, b) = br(body);
        let idx = self.arms.len();
        self.arms.push((a, b, label.clone()));
        if self.f.kill_arms.contains(&idx) {
            self.edit(a, a, "{ arm_verified_in_another_copy(); ", "R16", &format!("arm `{}` is verified in another copy", label));
            self.edit(b, b, " }", "R16", "arm close");
        } else if vacuity() && !self.scan_only {
            let pr = new_probe(format!("{}: {}", self.f.path, label));
            self.edit(a, a, &format!("{{{}", pr), "VAC", "vacuity probe");
            self.edit(b, b, " }", "VAC", "vacuity probe close");
        }
    }

    fn ghost_arg(&self) -> Option<String> {
        self.unit.ghost.as_ref().map(|g| format!("Tracked({})", g.param))
    }

    fn handle_macro(&mut self, mac: &'s syn::Macro, whole: Span, is_stmt: bool) {
        let path = squash(&mac.path.to_token_stream_string());
        let (a, b) = br(whole);
        let last = mac.path.segments.last().map(|s| s.ident.to_string()).unwrap_or_default();
        if path.starts_with("log::") {
            let (ma, mb) = br(mac.span());
            let _ = (a, b);
            self.edit(ma, mb, "()", "R2", &format!("log macro dropped at {}", self.loc(whole)));
        } else if last == "anyhow" {
            let (ma, mb) = br(mac.span());
            self.edit(ma, mb, "anyhow_error()", "R12", &format!("anyhow! text dropped at {}", self.loc(whole)));
        } else if last == "format" {
            // R12: a formatted string is opaque text (no contract speaks about string contents)
            let (ma, mb) = br(mac.span());
            self.edit(ma, mb, "format_string()", "R12", &format!("format! -> opaque String at {}", self.loc(whole)));
        } else if last == "lazy_static" && is_stmt {
            // R19: the `lazy_static! { static ref RE: Regex = .. }` definition is dropped; `RE` is the prelude's
            // regex stub whose contract is an uninterpreted function of the text (A-yaml)
            self.edit(a, b, "", "R19", &format!("lazy_static! regex definition dropped at {}", self.loc(whole)));
        } else if last == "pin_mut" {
            let id = squash(&mac.tokens.to_string());
            self.pinned.insert(id.clone());
            if is_stmt {
                self.edit(a, b, "", "R4", &format!("pin_mut!({}) removed at {}", id, self.loc(whole)));
            } else {
                self.fail(format!("pin_mut! in expression position at {}", self.loc(whole)));
            }
        } else if last == "select" {
            self.handle_select(mac, whole);
        } else if last == "vec" && mac.tokens.is_empty() {
            let (ma, mb) = br(mac.span());
            self.edit(ma, mb, "Vec::new()", "R15", &format!("vec![] at {}", self.loc(whole)));
        } else {
            self.fail(format!("unsupported macro `{}!` at {}", path, self.loc(whole)));
        }
    }

    fn handle_select(&mut self, mac: &'s syn::Macro, whole: Span) {
        let k = self.select_no;
        self.select_no += 1;
        let Some(sel) = self.f.selects.iter().find(|s| s.index == k) else {
            self.fail(format!("select! #{} at {} has no //@select directive", k, self.loc(whole)));
            return;
        };
        self.used_selects.insert(k);
        let body: SelBody = match syn::parse2(mac.tokens.clone()) {
            Ok(b) => b,
            Err(e) => {
                self.fail(format!("cannot parse select! #{} at {}: {}", k, self.loc(whole), e));
                return;
            }
        };
        if body.arms.len() != sel.arms.len() {
            self.fail(format!("select! #{} at {}: {} arms in source, {} in spec", k, self.loc(whole), body.arms.len(), sel.arms.len()));
            return;
        }
        // leak the parsed body so that arm bodies can be visited with lifetime 's
        let body: &'s SelBody = Box::leak(Box::new(body));
        let (ma, _mb) = br(mac.span());
        let open_end = {
            // the opening delimiter: first byte after `select!` that is `{` or `(`
            let (a, b) = br(mac.delimiter_span_open());
            let _ = a;
            b
        };
        let (close_a, close_b) = br(mac.delimiter_span_close());
        let garg = self.ghost_arg().unwrap_or_default();
        let oracle = {
            let o = sel.oracle.trim_end();
            let inner = &o[..o.len() - 1];
            if garg.is_empty() {
                o.to_string()
            } else if inner.trim_end().ends_with('(') {
                format!("{}{})", inner, garg)
            } else {
                format!("{}, {})", inner, garg)
            }
        };
        // text before a `//---` line goes before the oracle call, the rest after it
        let (sel_pre, sel_post) = match sel.post.find("//---") {
            Some(i) => (sel.post[..i].to_string(), sel.post[i + 5..].to_string()),
            None => (String::new(), sel.post.clone()),
        };
        let head = format!("{{\n{}\nlet __ev = {};\n{}\nmatch __ev {{", sel_pre.trim_end(), oracle, sel_post.trim_end());
        self.edit(ma, open_end, &head, "R3", &format!("select! #{} -> match on oracle at {}", k, self.loc(whole)));
        // variants of the event enum that this select! has no arm for must be proved impossible
        // from the oracle's contract (`arm_not_in_select` requires false)
        let close = if sel.fallback { "_ => { arm_not_in_select(); }\n} }" } else { "} }" };
        self.edit(close_a, close_b, close, "R3", "select! close");
        for (i, arm) in body.arms.iter().enumerate() {
            let want = &sel.arms[i];
            let have = squash(self.text(arm.fut.span()));
            if have != squash(&want.fut) {
                self.fail(format!(
                    "select! #{} arm {} at {}: future is `{}`, spec expects `{}`",
                    k,
                    i,
                    self.loc(arm.fut.span()),
                    norm(self.text(arm.fut.span())),
                    want.fut
                ));
                return;
            }
            if let syn::Expr::Path(p) = &arm.fut {
                let _ = p; // bare pinned fuse: fine
            }
            let (pa, _) = br(arm.pat.span());
            let (_, fb) = br(arm.fat_arrow);
            let pat_txt = self.text(arm.pat.span()).to_string();
            let newpat = format!("{}::{}({}) =>", sel.enum_name, want.variant, pat_txt);
            self.edit(pa, fb, &newpat, "R3", &format!("arm {} `{}`", want.variant, want.fut));
            self.in_select += 1;
            self.register_arm(arm.body.span(), format!("select arm {} ({}:{})", want.variant, self.src.rel, arm.body.span().start().line));
            self.visit_expr(&arm.body);
            self.in_select -= 1;
            // an expression arm body without trailing comma is legal in select! only for the last arm
            let needs_comma = !matches!(arm.body, syn::Expr::Block(_)) && arm.comma.is_none();
            if needs_comma {
                let (_, bb) = br(arm.body.span());
                self.edit(bb, bb, ",", "R3", "comma after expression arm");
            }
        }
    }

    fn path_rewrite(&mut self, p: &'s syn::Path) {
        if p.leading_colon.is_some() {
            return;
        }
        let segs: Vec<String> = p.segments.iter().map(|s| s.ident.to_string()).collect();
        if segs.len() == 1 {
            if segs[0] == "self" {
                if let Some(n) = &self.self_as {
                    let (a, b) = br(p.span());
                    let n = n.clone();
                    self.edit(a, b, &n, "R13", "self -> outlined parameter");
                }
            }
            // single-segment substitutions (type renames)
            if let Some(to) = self.lookup(&segs[..1]) {
                let (a, b) = br(p.segments[0].ident.span());
                let to = to.to_string();
                self.edit(a, b, &to, "R11", &format!("{} -> {}", segs[0], to));
            }
            return;
        }
        // explicit substitution: longest matching prefix
        for n in (1..=segs.len()).rev() {
            if let Some(to) = self.lookup(&segs[..n]) {
                let (a, _) = br(p.segments[0].ident.span());
                let (_, b) = br(p.segments[n - 1].ident.span());
                let to = to.to_string();
                self.edit(a, b, &to, "R11", &format!("{} -> {} at {}", segs[..n].join("::"), to, self.loc(p.span())));
                return;
            }
        }
        if segs[0] == "Self" || segs[0] == "std" && self.unit.keep_std {
            return;
        }
        // generic rule: strip leading module segments (lower-case first letter)
        let mut keep_from = 0;
        for (i, s) in segs.iter().enumerate() {
            let upper = s.chars().next().map(|c| c.is_uppercase()).unwrap_or(false);
            if upper || i == segs.len() - 1 {
                keep_from = i;
                break;
            }
        }
        if keep_from > 0 {
            let (a, _) = br(p.segments[0].ident.span());
            let (b, _) = br(p.segments[keep_from].ident.span());
            self.edit(a, b, "", "R11", &format!("module prefix `{}::` stripped at {}", segs[..keep_from].join("::"), self.loc(p.span())));
        }
    }

    fn check_anchor_stmt(&mut self, start: usize, end: usize, text: &str) {
        let t = squash(text);
        for (i, an) in self.f.anchors.iter().enumerate() {
            if self.anchor_done.contains(&i) {
                continue;
            }
            if t.starts_with(&squash(&an.pattern)) {
                let n = self.anchor_hits.entry(i).or_insert(0);
                if *n == an.occurrence {
                    let ins = format!("{}\n", an.text);
                    if an.after {
                        // a tail expression of unit type becomes a statement so that text can follow it
                        let tt = text.trim_end();
                        let sep = if tt.ends_with(';') || tt.ends_with('}') { "" } else { ";" };
                        let txt = format!("{}\n{}", sep, an.text);
                        self.edit(end, end, &txt, "INJ", &format!("after `{}`", an.pattern));
                    } else {
                        self.edit(start, start, &ins, "INJ", &format!("before `{}`", an.pattern));
                    }
                    self.anchor_done.insert(i);
                }
                *self.anchor_hits.get_mut(&i).unwrap() += 1;
            }
        }
    }

    fn inject_loop(&mut self, body: &'s syn::Block, whole: Span) -> Option<&'s LoopSpec> {
        let k = self.loop_no;
        self.loop_no += 1;
        if let Some(ls) = self.f.loops.iter().find(|l| l.index == k) {
            self.used_loops.insert(k);
            let (a, _) = br(body.brace_token.span.open());
            let txt = format!("\n{}\n", ls.text);
            self.edit(a, a, &txt, "INJ", &format!("loop #{} contract at {}", k, self.loc(whole)));
            if !ls.body.trim().is_empty() {
                let (_, b) = br(body.brace_token.span.open());
                let txt = format!("\n{}\n", ls.body.trim_end());
                self.edit(b, b, &txt, "INJ", &format!("loop #{} body prologue", k));
            }
            if vacuity() && !self.scan_only {
                let (_, b) = br(body.brace_token.span.open());
                let pr = new_probe(format!("{}: body of loop #{} ({}:{})", self.f.path, k, self.src.rel, whole.start().line));
                self.edit(b, b, &pr, "VAC", "vacuity probe");
            }
            Some(ls)
        } else {
            None
        }
    }
}

trait TokStr {
    fn to_token_stream_string(&self) -> String;
}
impl TokStr for syn::Path {
    fn to_token_stream_string(&self) -> String {
        use quote::ToTokens;
        self.to_token_stream().to_string()
    }
}
trait MacDelim {
    fn delimiter_span_open(&self) -> Span;
    fn delimiter_span_close(&self) -> Span;
}
impl MacDelim for syn::Macro {
    fn delimiter_span_open(&self) -> Span {
        match &self.delimiter {
            syn::MacroDelimiter::Paren(p) => p.span.open(),
            syn::MacroDelimiter::Brace(p) => p.span.open(),
            syn::MacroDelimiter::Bracket(p) => p.span.open(),
        }
    }
    fn delimiter_span_close(&self) -> Span {
        match &self.delimiter {
            syn::MacroDelimiter::Paren(p) => p.span.close(),
            syn::MacroDelimiter::Brace(p) => p.span.close(),
            syn::MacroDelimiter::Bracket(p) => p.span.close(),
        }
    }
}

impl<'s> Visit<'s> for Rw<'s> {
    fn visit_item_fn(&mut self, f: &'s syn::ItemFn) {
        // R14: nested fn becomes a sibling item (extracted by its own //@fn directive)
        let (a, b) = br(f.span());
        self.edit(a, b, "", "R14", &format!("nested fn {} hoisted at {}", f.sig.ident, self.loc(f.span())));
    }

    fn visit_block(&mut self, b: &'s syn::Block) {
        for st in &b.stmts {
            let sp = st.span();
            let (a, e) = br(sp);
            if !self.f.anchors.is_empty() {
                let t = self.src.text[a..e].to_string();
                self.check_anchor_stmt(a, e, &t);
            }
        }
        syn::visit::visit_block(self, b);
    }

    fn visit_stmt(&mut self, st: &'s syn::Stmt) {
        // closure-site directive: the innermost statement containing closure K is replaced
        if let syn::Stmt::Macro(m) = st {
            self.handle_macro(&m.mac, st.span(), true);
            return;
        }
        if self.try_closure_site(st.span()) {
            return;
        }
        if let syn::Stmt::Local(l) = st {
            // R4: `let x = ...; pin_mut!(x);` -> `let mut x`
            if let syn::Pat::Ident(pi) = &l.pat {
                if pi.mutability.is_none() && self.f.pin_idents.contains(&pi.ident.to_string()) {
                    let (a, _) = br(pi.ident.span());
                    self.edit(a, a, "mut ", "R4", &format!("pinned `{}` becomes `let mut` at {}", pi.ident, self.loc(st.span())));
                }
            }
        }
        syn::visit::visit_stmt(self, st);
    }

    fn visit_expr(&mut self, e: &'s syn::Expr) {
        // closure-site directive at expression level (e.g. an adapter chain inside a struct literal)
        if !matches!(e, syn::Expr::Closure(_) | syn::Expr::Async(_)) && self.try_closure_site(e.span()) {
            return;
        }
        match e {
            syn::Expr::Await(aw) => {
                let (a, _) = br(aw.dot_token.span());
                let (_, b) = br(aw.await_token.span());
                let is_var = matches!(&*aw.base, syn::Expr::Path(p) if p.path.get_ident().is_some());
                if is_var && self.unit.await_vars {
                    // R1b: awaiting a *variable* that holds a future yields its value: `f.await` -> `await_value(f)`
                    let (x, _) = br(aw.base.span());
                    self.edit(x, x, "await_value(", "R1", &format!("await of a future variable at {}", self.loc(aw.await_token.span())));
                    self.edit(a, b, ")", "R1", "await_value close");
                } else {
                    self.edit(a, b, "", "R1", &format!(".await removed at {}", self.loc(aw.await_token.span())));
                }
                self.visit_expr(&aw.base);
            }
            syn::Expr::Macro(m) => {
                self.handle_macro(&m.mac, e.span(), false);
            }
            syn::Expr::Index(ix) => {
                let by_ref = match &*ix.index {
                    syn::Expr::Reference(_) => true,
                    syn::Expr::Path(p) => p.path.get_ident().map(|i| self.f.ref_params.contains(&i.to_string())).unwrap_or(false),
                    _ => false,
                };
                if by_ref {
                    let (a, b) = br(ix.bracket_token.span.open());
                    let (c, d) = br(ix.bracket_token.span.close());
                    let (xa, _) = br(ix.expr.span());
                    self.edit(xa, xa, "(*", "R7", &format!("map index m[&k] -> (*m.get(&k).unwrap()) at {}", self.loc(e.span())));
                    self.edit(a, b, ".get(", "R7", "map index open");
                    self.edit(c, d, ").unwrap())", "R7", "map index close");
                }
                syn::visit::visit_expr_index(self, ix);
            }
            syn::Expr::Closure(c) => {
                let k = self.closure_no;
                self.closure_no += 1;
                let _ = k;
                if !self.scan_only {
                    self.fail(format!("closure at {} is not covered by a //@closure site directive", self.loc(c.span())));
                }
            }
            syn::Expr::Async(a) => {
                self.fail(format!("async block at {} outside a closure site", self.loc(a.span())));
            }
            syn::Expr::ForLoop(fl) => {
                // R17: `for &x in e { .. }` -> `for x__ref in e { let x = *x__ref; .. }` (Verus has no ref patterns)
                if let syn::Pat::Reference(pr) = &*fl.pat {
                    if let syn::Pat::Ident(pi) = &*pr.pat {
                        let (pa, pb) = br(fl.pat.span());
                        let name = pi.ident.to_string();
                        self.edit(pa, pb, &format!("{}__ref", name), "R17", &format!("ref pattern `&{}` in for loop desugared at {}", name, self.loc(e.span())));
                        let (_, bb) = br(fl.body.brace_token.span.open());
                        self.edit(bb, bb, &format!(" let {} = *{}__ref;", name, name), "R17", "ref pattern binding");
                    } else {
                        self.fail(format!("unsupported ref pattern in for loop at {}", self.loc(e.span())));
                    }
                }
                let ls = self.inject_loop(&fl.body, e.span());
                let (ea, eb) = br(fl.expr.span());
                if let Some(ls) = ls {
                    let mut pre = String::new();
                    if let Some(b) = &ls.binder {
                        pre = format!("{}: ", b);
                    }
                    if ls.set {
                        // R8: `&set` -> `set.iter()`
                        if let syn::Expr::Reference(r) = &*fl.expr {
                            let (ra, rb) = br(r.and_token.span());
                            self.edit(ra, rb, &pre, "R8", &format!("for over &HashSet -> .iter() at {}", self.loc(e.span())));
                            self.edit(eb, eb, ".iter()", "R8", "iter()");
                        } else {
                            self.fail(format!("loop marked `set` at {} does not iterate over a reference", self.loc(e.span())));
                        }
                    } else if ls.set_owned {
                        // R8b: by-value iteration over a HashSet (no vstd spec) -> iterate `.iter()` and clone each element
                        if let syn::Pat::Ident(pi) = &*fl.pat {
                            let name = pi.ident.to_string();
                            let (pa, pb) = br(fl.pat.span());
                            self.edit(pa, pb, &format!("{}__ref", name), "R8", &format!("for over an owned HashSet -> .iter() + clone at {}", self.loc(e.span())));
                            self.edit(ea, ea, &pre, "R8", "for binder");
                            self.edit(eb, eb, ".iter()", "R8", "iter()");
                            let (_, bb) = br(fl.body.brace_token.span.open());
                            self.edit(bb, bb, &format!(" let {} = {}__ref.clone();", name, name), "R8", "element clone");
                        } else {
                            self.fail(format!("loop marked `set-owned` at {} needs a plain identifier pattern", self.loc(e.span())));
                        }
                    } else if !pre.is_empty() {
                        self.edit(ea, ea, &pre, "R8", &format!("for binder at {}", self.loc(e.span())));
                    }
                }
                syn::visit::visit_expr_for_loop(self, fl);
            }
            syn::Expr::While(w) => {
                self.inject_loop(&w.body, e.span());
                syn::visit::visit_expr_while(self, w);
            }
            syn::Expr::Loop(l) => {
                self.inject_loop(&l.body, e.span());
                syn::visit::visit_expr_loop(self, l);
            }
            syn::Expr::Match(m) => {
                // R17: a `&pat` directly inside an enum pattern, e.g. `Some(&(a, b)) => body`, is desugared to
                // `Some(x__ref) => { let (a, b) = *x__ref; body }` (Verus has no ref patterns; the payload is Copy)
                for (n, arm) in m.arms.iter().enumerate() {
                    if let syn::Pat::TupleStruct(ts) = &arm.pat {
                        if ts.elems.len() == 1 {
                            if let syn::Pat::Reference(pr) = &ts.elems[0] {
                                let (pa, pb) = br(ts.elems[0].span());
                                let inner = self.text(pr.pat.span()).to_string();
                                let nm = format!("arm{}__ref", n);
                                self.edit(pa, pb, &nm, "R17", &format!("ref pattern `&{}` in match arm desugared at {}", norm(&inner), self.loc(arm.pat.span())));
                                let (ba, bb) = br(arm.body.span());
                                self.edit(ba, ba, &format!("{{ let {} = *{}; ", inner, nm), "R17", "ref pattern binding");
                                self.edit(bb, bb, " }", "R17", "ref pattern binding close");
                            }
                        }
                    }
                }
                // R20: `match v[..] { [a, b] => X, [a] => Y, _ => Z }` (slice patterns of plain binders, no rest pattern)
                // is `match v.len() { 2 => { let a = v[0]; let b = v[1]; X } 1 => { let a = v[0]; Y } _ => Z }`:
                // a slice pattern of n binders matches exactly the slices of length n and binds copies of the elements
                if let syn::Expr::Index(ix) = &*m.expr {
                    let full = matches!(&*ix.index, syn::Expr::Range(r) if r.start.is_none() && r.end.is_none());
                    let simple = m.arms.iter().all(|a| a.guard.is_none() && match &a.pat {
                        syn::Pat::Slice(sl) => sl.elems.iter().all(|e| matches!(e, syn::Pat::Ident(pi) if pi.by_ref.is_none() && pi.subpat.is_none())),
                        syn::Pat::Wild(_) => true,
                        _ => false,
                    });
                    if full && simple && m.arms.iter().any(|a| matches!(a.pat, syn::Pat::Slice(_))) {
                        let base = self.text(ix.expr.span()).to_string();
                        let (sa, sb) = br(m.expr.span());
                        self.edit(sa, sb, &format!("{}.len()", base), "R20", &format!("slice-pattern match on `{}[..]` desugared to a match on its length at {}", norm(&base), self.loc(e.span())));
                        for arm in &m.arms {
                            if let syn::Pat::Slice(sl) = &arm.pat {
                                let (pa, pb) = br(arm.pat.span());
                                self.edit(pa, pb, &format!("{}", sl.elems.len()), "R20", "slice pattern -> its length");
                                let mut lets = String::from("{ ");
                                for (i, el) in sl.elems.iter().enumerate() {
                                    if let syn::Pat::Ident(pi) = el {
                                        lets.push_str(&format!("let {} = {}[{}]; ", pi.ident, base, i));
                                    }
                                }
                                let (ba, bb) = br(arm.body.span());
                                self.edit(ba, ba, &lets, "R20", "slice pattern binders");
                                self.edit(bb, bb, " }", "R20", "slice pattern binders close");
                            }
                        }
                    }
                }
                for arm in &m.arms {
                    let label = format!("match arm `{}` ({}:{})", norm(self.text(arm.pat.span())).chars().take(70).collect::<String>(), self.src.rel, arm.pat.span().start().line);
                    self.register_arm(arm.body.span(), label);
                }
                syn::visit::visit_expr_match(self, m);
            }
            syn::Expr::MethodCall(m) => {
                let name = m.method.to_string();
                self.calls.insert(format!("m:{}", name));
                if name == "with_context" || name == "context" {
                    // R12: X.with_context(..) -> ctx(X)
                    let (ra, _) = br(m.receiver.span());
                    let (da, _) = br(m.dot_token.span());
                    let (_, pb) = br(m.paren_token.span.close());
                    // every `.context(..)` in zinoma is on an anyhow::Error, every `.with_context(..)` on a Result/Option
                    let f = if name == "context" { "ctx_e(" } else { "ctx(" };
                    self.edit(ra, ra, f, "R12", &format!(".{}(..) text dropped at {}", name, self.loc(e.span())));
                    self.edit(da, pb, ")", "R12", "context close");
                    self.visit_expr(&m.receiver);
                    return;
                }
                if name == "ok_or_else" && m.args.len() == 1 {
                    // R12: X.ok_or_else(|| anyhow!(..)) -> ok_or_err(X)
                    let is_anyhow_closure = match &m.args[0] {
                        syn::Expr::Closure(c) => match &*c.body {
                            syn::Expr::Macro(mm) => mm.mac.path.segments.last().map(|s| s.ident == "anyhow").unwrap_or(false),
                            syn::Expr::Block(b) => b.block.stmts.len() == 1 && matches!(&b.block.stmts[0], syn::Stmt::Expr(syn::Expr::Macro(mm), None) if mm.mac.path.segments.last().map(|s| s.ident == "anyhow").unwrap_or(false)),
                            _ => false,
                        },
                        _ => false,
                    };
                    if is_anyhow_closure {
                        let (ra, _) = br(m.receiver.span());
                        let (da, _) = br(m.dot_token.span());
                        let (_, pb) = br(m.paren_token.span.close());
                        self.edit(ra, ra, "ok_or_err(", "R12", &format!(".ok_or_else(|| anyhow!(..)) text dropped at {}", self.loc(e.span())));
                        self.edit(da, pb, ")", "R12", "ok_or_err close");
                        self.visit_expr(&m.receiver);
                        return;
                    }
                }
                if name == "fuse" && m.args.is_empty() {
                    // R4: `.fuse()` wrapper removed (Fuse is modelled by the prelude type)
                    let (da, _) = br(m.dot_token.span());
                    let (_, pb) = br(m.paren_token.span.close());
                    self.edit(da, pb, "", "R4", &format!(".fuse() removed at {}", self.loc(e.span())));
                    self.visit_expr(&m.receiver);
                    return;
                }
                if self.threaded.contains(&name) {
                    if let Some(g) = self.ghost_arg() {
                        let (pa, _) = br(m.paren_token.span.close());
                        let t = if m.args.is_empty() { g } else if m.args.trailing_punct() { format!(" {}", g) } else { format!(", {}", g) };
                        self.edit(pa, pa, &t, "R9", &format!("ghost arg for .{}() at {}", name, self.loc(e.span())));
                    }
                }
                syn::visit::visit_expr_method_call(self, m);
            }
            syn::Expr::Call(c) => {
                if let syn::Expr::Path(p) = &*c.func {
                    let segs: Vec<String> = p.path.segments.iter().map(|s| s.ident.to_string()).collect();
                    let name = match self.lookup(&segs) {
                        Some(to) => to.rsplit("::").next().unwrap().to_string(),
                        None => segs.last().cloned().unwrap_or_default(),
                    };
                    // `Type::name(..)`: an associated function is identified with its type
                    let qual = if segs.len() >= 2 && segs[segs.len() - 2].chars().next().map(|c| c.is_uppercase()).unwrap_or(false) && self.lookup(&segs).is_none() {
                        Some(format!("{}::{}", segs[segs.len() - 2], name))
                    } else {
                        None
                    };
                    self.calls.insert(match &qual { Some(q) => format!("p:{}", q), None => format!("p:{}", name) });
                    let hit = match &qual {
                        Some(q) => self.threaded.contains(&format!("fn:{}", q)) || (q.starts_with("Self::") && self.threaded.iter().any(|t| t.starts_with("fn:") && t.ends_with(&format!("::{}", name)))),
                        None => self.threaded.contains(&name) || self.threaded.contains(&format!("fn:{}", name)),
                    };
                    if hit {
                        if let Some(g) = self.ghost_arg() {
                            let (pa, _) = br(c.paren_token.span.close());
                            let t = if c.args.is_empty() { g } else if c.args.trailing_punct() { format!(" {}", g) } else { format!(", {}", g) };
                            self.edit(pa, pa, &t, "R9", &format!("ghost arg for {}() at {}", name, self.loc(e.span())));
                        }
                    }
                }
                syn::visit::visit_expr_call(self, c);
            }
            _ => syn::visit::visit_expr(self, e),
        }
    }

    fn visit_path(&mut self, p: &'s syn::Path) {
        self.path_rewrite(p);
        // generic arguments may contain further paths
        for s in &p.segments {
            self.visit_path_arguments(&s.arguments);
        }
    }
}

impl<'s> Rw<'s> {
    /// If `sp` is the innermost statement/tail containing a closure with a site directive,
    /// replace it and return true.
    fn try_closure_site(&mut self, sp: Span) -> bool {
        if self.f.closure_sites.is_empty() {
            return false;
        }
        let (a, b) = br(sp);
        let sites: Vec<(usize, (usize, usize))> = self.f.closure_spans.iter().map(|(k, r)| (*k, *r)).collect();
        for (k, (ca, cb)) in sites {
            if ca >= a && cb <= b {
                let Some(site) = self.f.closure_sites.iter().find(|s| s.index == k) else { continue };
                // innermost check: no smaller statement span containing the closure — we rely on
                // statements being visited outer-first and on skeleton matching to pick the right one.
                let mut skel = String::new();
                let mut covered = vec![k];
                if site.skeleton.matches("<CLOSURE>").count() > 1 {
                    // several closures in one adapter chain: every outermost closure of the statement
                    // is a hole of the skeleton (each is outlined by its own //@fn ...#closureN)
                    let inside: Vec<(usize, (usize, usize))> = self.f.closure_spans.iter().map(|(k, r)| (*k, *r)).filter(|(_, (x, y))| *x >= a && *y <= b).collect();
                    let mut outer: Vec<(usize, (usize, usize))> = inside.iter().filter(|(i, (x, y))| !inside.iter().any(|(j, (p, q))| j != i && p <= x && y <= q)).cloned().collect();
                    outer.sort_by_key(|(_, (x, _))| *x);
                    let mut at = a;
                    covered.clear();
                    for (i, (x, y)) in &outer {
                        skel.push_str(&self.src.text[at..*x]);
                        skel.push_str("<CLOSURE>");
                        at = *y;
                        covered.push(*i);
                    }
                    skel.push_str(&self.src.text[at..b]);
                } else {
                    skel.push_str(&self.src.text[a..ca]);
                    skel.push_str("<CLOSURE>");
                    skel.push_str(&self.src.text[cb..b]);
                }
                if squash(&skel) == squash(&site.skeleton) {
                    for ci in &covered {
                        if let Some((_, (x, y))) = self.f.closure_spans.iter().find(|(i, _)| i == ci) {
                            self.swallowed.push((*ci, self.src.text[*x..*y].to_string()));
                        }
                    }
                    self.used_closures.insert(k);
                    let becomes = site.becomes.clone();
                    self.edit(a, b, &becomes, "R13", &format!("closure #{} site `{}` at {}", k, norm(&site.skeleton), self.loc(sp)));
                    return true;
                }
            }
        }
        false
    }
}

/// split at commas that are not inside (), [], <> or {}
fn split_top_commas(s: &str) -> Vec<String> {
    let mut out = vec![];
    let mut depth = 0i32;
    let mut cur = String::new();
    let cs: Vec<char> = s.chars().collect();
    for (i, ch) in cs.iter().enumerate() {
        match ch {
            '(' | '[' | '{' | '<' => depth += 1,
            ')' | ']' | '}' => depth -= 1,
            '>' => { if i > 0 && cs[i - 1] != '-' && cs[i - 1] != '=' { depth -= 1 } }
            ',' if depth == 0 => { out.push(cur.trim().to_string()); cur.clear(); continue; }
            _ => {}
        }
        cur.push(*ch);
    }
    if !cur.trim().is_empty() { out.push(cur.trim().to_string()); }
    out
}

// ---------------------------------------------------------------------------
// applying edits
// ---------------------------------------------------------------------------

struct Applied {
    text: String,
    /// (offset in `text`, offset in source) for each verbatim segment start
    anchors: Vec<(usize, usize, usize)>,
}

fn apply_edits(src: &str, lo: usize, hi: usize, edits: &mut Vec<Edit>) -> R<Applied> {
    edits.retain(|e| e.start >= lo && e.end <= hi);
    edits.sort_by(|x, y| (x.start, x.end.min(x.start + 1) - x.start, x.seq).cmp(&(y.start, y.end.min(y.start + 1) - y.start, y.seq)));
    // drop edits nested inside a replaced range (e.g. inside a hoisted nested fn or a dropped macro)
    let mut out = String::new();
    let mut anchors = vec![];
    let mut pos = lo;
    let mut kept: Vec<Edit> = vec![];
    for e in edits.iter() {
        if e.start < pos {
            if e.end <= pos {
                // nested in a previous replacement: ignore silently only when the outer edit is a deletion/replacement;
                // an ad-hoc //@replace that would be swallowed is a spec error (use `pre`), never silent
                if e.note.starts_with("ad-hoc: ") && !kept.iter().any(|k| k.start == e.start && k.end == e.end && k.text == e.text) && kept.last().map(|k| k.rule != "ASSUMED").unwrap_or(true) {
                    let by = kept.last().map(|k| format!("{} [{}..{}] `{}`", k.rule, k.start, k.end, k.note)).unwrap_or_default();
                    refuse!("//@replace swallowed by an enclosing rewrite {} (rule {}: [{}..{}] {}); mark it `pre`", by, e.rule, e.start, e.end, e.note);
                }
                continue;
            }
            refuse!("overlapping edits at byte {} (rule {}: {})", e.start, e.rule, e.note);
        }
        if e.start > pos {
            anchors.push((out.len(), pos, e.start - pos));
            out.push_str(&src[pos..e.start]);
        }
        out.push_str(&e.text);
        pos = e.end;
        kept.push(e.clone());
    }
    if pos < hi {
        anchors.push((out.len(), pos, hi - pos));
        out.push_str(&src[pos..hi]);
    }
    *edits = kept;
    Ok(Applied { text: out, anchors })
}

// ---------------------------------------------------------------------------
// emitting a function
// ---------------------------------------------------------------------------

struct Emitted {
    text: String,
    /// for each line of `text` (0-based) the source line it came from, if any
    line_src: Vec<Option<usize>>,
    rules: Vec<Edit>,
    src_lo_line: usize,
    src_hi_line: usize,
    original: String,
    arms: Vec<(usize, usize, String)>,
    /// closures consumed as holes of a `//@closure` site: (host-level index, source text)
    swallowed: Vec<(usize, String)>,
    degraded: Option<String>,
}

fn line_map(src: &SrcFile, ap: &Applied) -> Vec<Option<usize>> {
    let nlines = ap.text.matches('\n').count() + 1;
    let mut m = vec![None; nlines];
    // for each verbatim segment, walk its lines
    let mut out_line_starts = vec![0usize];
    for (i, b) in ap.text.bytes().enumerate() {
        if b == b'\n' {
            out_line_starts.push(i + 1);
        }
    }
    let out_line_of = |off: usize| match out_line_starts.binary_search(&off) {
        Ok(i) => i,
        Err(i) => i - 1,
    };
    for (o, s, len) in ap.anchors.iter() {
        let ob = ap.text.as_bytes();
        for i in 0..*len {
            let oo = o + i;
            let ol = out_line_of(oo);
            if m[ol].is_none() && !ob[oo].is_ascii_whitespace() {
                m[ol] = Some(src.line_of(s + i));
            }
        }
    }
    m
}

fn compute_threaded(unit: &Unit, srcs: &HashMap<String, SrcFile>) -> R<BTreeSet<String>> {
    let mut threaded: BTreeSet<String> = BTreeSet::new();
    let Some(g) = &unit.ghost else { return Ok(threaded) };
    for s in &g.seeds {
        threaded.insert(s.clone());
    }
    // a function whose contract speaks about the ghost state takes it, whatever its body calls (needed when the body
    // is not extracted: function-level degradation)
    let mut contract_mentions: BTreeSet<String> = BTreeSet::new();
    for f in unit.fns() {
        let c = squash(&f.contract);
        if c.contains(&format!("old({})", g.param)) || c.contains(&format!("final({})", g.param)) {
            contract_mentions.insert(f.out_name());
        }
    }
    // calls per extracted fn
    let mut calls: Vec<(String, bool, BTreeSet<String>)> = vec![];
    let empty = BTreeSet::new();
    for f in unit.fns() {
        let src = &srcs[&f.file];
        let (_sig, block_stmts_span, block) = locate_body(src, f)?;
        let _ = block_stmts_span;
        let mut rw = Rw {
            src,
            unit,
            f,
            edits: vec![],
            err: None,
            loop_no: 0,
            select_no: 0,
            closure_no: 0,
            pinned: BTreeSet::new(),
            threaded: &empty,
            calls: BTreeSet::new(),
            used_loops: BTreeSet::new(),
            used_selects: BTreeSet::new(),
            used_closures: BTreeSet::new(),
            swallowed: vec![],
            anchor_hits: HashMap::new(),
            anchor_done: BTreeSet::new(),
            self_as: None,
            scan_only: true,
            arms: vec![],
            in_select: 0,
        };
        match block {
            Body::Block(b) => rw.visit_block(b),
            Body::Expr(e) => rw.visit_expr(e),
        }
        // closure-site `becomes` texts may call threaded stubs too
        let mut cs = rw.calls.clone();
        for site in &f.closure_sites {
            for w in site.becomes.split(|c: char| !(c.is_alphanumeric() || c == '_')) {
                if !w.is_empty() {
                    cs.insert(format!("p:{}", w));
                }
            }
        }
        let is_method = _sig.map(|sg| matches!(sg.inputs.first(), Some(syn::FnArg::Receiver(_)))).unwrap_or(false);
        calls.push((f.out_name(), is_method, cs));
    }
    // associated functions (no receiver, declared in `impl Type`) are keyed `fn:Type::name`
    let mut assoc: HashMap<String, String> = HashMap::new();
    for f in unit.fns() {
        if f.path.contains('#') || f.rename.is_some() {
            continue;
        }
        let segs: Vec<&str> = f.path.split("::").collect();
        if segs.len() == 2 && segs[0].chars().next().map(|c| c.is_uppercase()).unwrap_or(false) {
            assoc.insert(segs[1].to_string(), segs[0].to_string());
        }
    }
    // a method call `.f()` reaches a threaded *method* (or seed) named f; a path call `f()` / `T::f()`
    // reaches a threaded free function, associated function or method named f
    let hits = |threaded: &BTreeSet<String>, c: &String| -> bool {
        if let Some(n) = c.strip_prefix("m:") {
            threaded.contains(n)
        } else if let Some(n) = c.strip_prefix("p:") {
            if let Some(m) = n.strip_prefix("Self::") {
                threaded.iter().any(|t| t.starts_with("fn:") && t.ends_with(&format!("::{}", m)))
            } else if n.contains("::") {
                threaded.contains(&format!("fn:{}", n))
            } else {
                threaded.contains(n) || threaded.contains(&format!("fn:{}", n))
            }
        } else {
            false
        }
    };
    loop {
        let mut changed = false;
        for (name, is_method, cs) in &calls {
            let key = if *is_method { name.clone() } else { format!("fn:{}", name) };
            let key = match assoc.get(name) {
                Some(ty) if !*is_method => format!("fn:{}::{}", ty, name),
                _ => key,
            };
            if !threaded.contains(&key) && (cs.iter().any(|c| hits(&threaded, c)) || contract_mentions.contains(name)) && !g.never.contains(name) {
                threaded.insert(key);
                changed = true;
            }
        }
        if !changed {
            break;
        }
    }
    Ok(threaded)
}

enum Body<'a> {
    Block(&'a syn::Block),
    Expr(&'a syn::Expr),
}

fn split_closure_path(path: &str) -> (String, Option<usize>) {
    if let Some(i) = path.find("#closure") {
        let k: usize = path[i + 8..].parse().unwrap_or(0);
        (path[..i].to_string(), Some(k))
    } else {
        (path.to_string(), None)
    }
}

fn locate_body<'a>(src: &'a SrcFile, f: &FnSpec) -> R<(Option<&'a syn::Signature>, Span, Body<'a>)> {
    let (fpath, ck) = split_closure_path(&f.path);
    let segs: Vec<&str> = fpath.split("::").collect();
    let Some(found) = find_fn_in_items(&src.ast.items, &segs) else {
        refuse!("anchor lost: fn `{}` not found in {}", f.path, src.rel);
    };
    match (found, ck) {
        (Found::Fn { sig, block, whole, .. }, None) => Ok((Some(sig), whole, Body::Block(block))),
        (Found::Fn { block, .. }, Some(k)) => {
            let cl = collect_closures(block);
            let Some(c) = cl.get(k) else {
                refuse!("anchor lost: closure #{} of `{}` not found in {} ({} closures)", k, fpath, src.rel, cl.len());
            };
            Ok((None, c.span(), clo_body(*c)))
        }
    }
}

fn emit_fn(unit: &Unit, src: &SrcFile, f: &FnSpec, threaded: &BTreeSet<String>) -> R<Emitted> {
    if !f.replaces.iter().any(|r| r.pre) {
        return emit_fn_inner(unit, src, f, threaded);
    }
    // `pre` replacements: rewrite the source text of the function first, re-parse, then apply the rules
    let (fpath, _ck) = split_closure_path(&f.path);
    let segs: Vec<&str> = fpath.split("::").collect();
    let Some(Found::Fn { whole, .. }) = find_fn_in_items(&src.ast.items, &segs) else {
        refuse!("anchor lost: fn `{}` not found in {}", f.path, src.rel);
    };
    let (lo, hi) = br(whole);
    let mut text = src.text.clone();
    let mut logs = vec![];
    for rp in f.replaces.iter().filter(|r| r.pre) {
        let hits: Vec<usize> = text[lo..].match_indices(rp.old.as_str()).map(|(i, _)| lo + i).filter(|i| *i < hi + 4096).collect();
        let hits: Vec<usize> = hits.into_iter().filter(|i| *i >= lo).collect();
        if hits.is_empty() {
            if f.degrade.is_some() {
                continue;
            }
            refuse!("anchor lost: //@replace text `{}` not found in `{}` ({})", rp.old, f.path, src.rel);
        }
        if rp.old.matches('\n').count() != rp.new.matches('\n').count() {
            refuse!("//@replace pre: old and new text must have the same number of lines (`{}`)", rp.old);
        }
        let h = hits[0];
        text.replace_range(h..h + rp.old.len(), &rp.new);
        logs.push(Edit { start: h, end: h, text: String::new(), rule: rp.rule.clone(), note: format!("ad-hoc (before parsing): `{}` -> `{}` ({})", rp.old, rp.new, rp.why), seq: usize::MAX / 4 });
    }
    let ast = syn::parse_file(&text).map_err(|e| Refuse(format!("cannot parse {} after //@replace pre: {}", src.rel, e)))?;
    let mut line_starts = vec![0];
    for (i, b) in text.bytes().enumerate() {
        if b == b'\n' {
            line_starts.push(i + 1);
        }
    }
    let src2: &SrcFile = Box::leak(Box::new(SrcFile { rel: src.rel.clone(), text, ast, line_starts }));
    let mut f2 = f.clone();
    f2.replaces.retain(|r| !r.pre);
    let mut em = emit_fn_inner(unit, src2, &f2, threaded)?;
    em.original = src.text[lo..hi].to_string();
    em.rules.extend(logs);
    Ok(em)
}

fn emit_fn_inner(unit: &Unit, src: &SrcFile, f: &FnSpec, threaded: &BTreeSet<String>) -> R<Emitted> {
    if f.verbatim {
        let (fpath, _) = split_closure_path(&f.path);
        let segs: Vec<&str> = fpath.split("::").collect();
        let Some(Found::Fn { whole, sig, .. }) = find_fn_in_items(&src.ast.items, &segs) else {
            refuse!("anchor lost: fn `{}` not found in {}", f.path, src.rel);
        };
        let (lo, hi) = br(whole);
        // skip outer attributes / doc comments: start at the first token of the signature proper
        let _ = sig;
        let text = src.text[lo..hi].to_string();
        let n = text.matches('\n').count() + 1;
        let l0 = src.line_of(lo);
        return Ok(Emitted { text: text.clone(), line_src: (0..n).map(|i| Some(l0 + i)).collect(), rules: vec![], src_lo_line: l0, src_hi_line: src.line_of(hi - 1), original: text, arms: vec![], swallowed: vec![], degraded: None });
    }
    let (fpath, ck) = split_closure_path(&f.path);
    let segs: Vec<&str> = fpath.split("::").collect();
    let Some(found) = find_fn_in_items(&src.ast.items, &segs) else {
        refuse!("anchor lost: fn `{}` not found in {}", f.path, src.rel);
    };
    let Found::Fn { sig, block, vis, whole } = found;

    // closure spans of the host function (for site directives)
    let mut fspec = f.clone();
    let closures = collect_closures(block);
    fspec.closure_spans = closures.iter().enumerate().map(|(i, c)| (i, br(c.span()))).collect();
    for s in &f.closure_sites {
        if f.degrade.is_some() {
            break;
        }
        if s.index >= closures.len() {
            refuse!("anchor lost: closure #{} of `{}` does not exist ({} closures)", s.index, f.path, closures.len());
        }
    }
    // pinned identifiers (pre-scan for pin_mut!)
    {
        struct P(BTreeSet<String>);
        impl<'a> Visit<'a> for P {
            fn visit_macro(&mut self, m: &'a syn::Macro) {
                if m.path.segments.last().map(|s| s.ident == "pin_mut").unwrap_or(false) {
                    self.0.insert(squash(&m.tokens.to_string()));
                }
            }
        }
        let mut p = P(BTreeSet::new());
        p.visit_block(block);
        fspec.pin_idents = p.0;
    }
    for inp in &sig.inputs {
        if let syn::FnArg::Typed(t) = inp {
            if let (syn::Pat::Ident(pi), syn::Type::Reference(_)) = (&*t.pat, &*t.ty) {
                fspec.ref_params.insert(pi.ident.to_string());
            }
        }
    }
    let fspec: &FnSpec = Box::leak(Box::new(fspec));

    let mut rw = Rw {
        src,
        unit,
        f: fspec,
        edits: vec![],
        err: None,
        loop_no: 0,
        select_no: 0,
        closure_no: 0,
        pinned: BTreeSet::new(),
        threaded,
        calls: BTreeSet::new(),
        used_loops: BTreeSet::new(),
        used_selects: BTreeSet::new(),
        used_closures: BTreeSet::new(),
            swallowed: vec![],
        anchor_hits: HashMap::new(),
        anchor_done: BTreeSet::new(),
        self_as: f.self_as.clone(),
        scan_only: false,
        arms: vec![],
        in_select: 0,
    };

    let name = f.out_name();
    let assoc_key = {
        let segs: Vec<&str> = fpath.split("::").collect();
        if ck.is_none() && f.rename.is_none() && segs.len() == 2 { format!("fn:{}::{}", segs[0], segs[1]) } else { String::new() }
    };
    let is_threaded = threaded.contains(&name) || threaded.contains(&format!("fn:{}", name)) || (!assoc_key.is_empty() && threaded.contains(&assoc_key));
    let ghost_param = unit.ghost.as_ref().map(|g| format!("Tracked({}): Tracked<&mut {}>", g.param, g.ty));

    let (lo, hi, header, body_lo);
    let mut sig_end: usize = 0;
    match ck {
        None => {
            // ---- signature ----
            let (wa, wb) = br(whole);
            // start at visibility / fn keyword, skipping outer attributes and doc comments
            let start = match vis {
                Some(v) if !matches!(v, syn::Visibility::Inherited) => br(v.span()).0,
                _ => {
                    if let Some(a) = &sig.asyncness {
                        br(a.span()).0
                    } else if let Some(c) = &sig.constness {
                        br(c.span()).0
                    } else {
                        br(sig.fn_token.span()).0
                    }
                }
            };
            let _ = wa;
            if let Some(a) = &sig.asyncness {
                let (x, y) = br(a.span());
                // also eat one following space
                let y2 = if src.text.as_bytes().get(y) == Some(&b' ') { y + 1 } else { y };
                rw.edit(x, y2, "", "R1", &format!("async fn -> fn at {}", rw.loc(a.span())));
            }
            if vis.is_none() || matches!(vis, Some(syn::Visibility::Inherited)) {
                // keep private
            }
            if let Some(syn::FnArg::Receiver(r)) = sig.inputs.first() {
                if r.reference.is_none() {
                    if let Some(m) = &r.mutability {
                        let (x, _) = br(m.span());
                        rw.edit(x, x, "&", "R6", &format!("`mut self` -> `&mut self` at {}", rw.loc(r.span())));
                    }
                }
            }
            for inp in &sig.inputs {
                if let syn::FnArg::Typed(t) = inp {
                    rw.visit_type(&t.ty);
                }
            }
            if is_threaded {
                if let Some(gp) = &ghost_param {
                    let (pa, _) = br(sig.paren_token.span.close());
                    let t = if sig.inputs.is_empty() {
                        gp.clone()
                    } else if sig.inputs.trailing_punct() {
                        format!(" {}", gp)
                    } else {
                        format!(", {}", gp)
                    };
                    rw.edit(pa, pa, &t, "R9", &format!("ghost parameter on {}", name));
                }
            }
            if let syn::ReturnType::Type(_, ty) = &sig.output {
                rw.visit_type(ty);
                if let Some(r) = &f.ret {
                    let (ta, tb) = br(ty.span());
                    rw.edit(ta, ta, &format!("({}: ", r), "SIG", "named return value");
                    rw.edit(tb, tb, ")", "SIG", "named return value close");
                }
            }
            if let Some(n) = &f.rename {
                let (x, y) = br(sig.ident.span());
                rw.edit(x, y, n, "SIG", &format!("fn renamed to {} (flat namespace)", n));
            }
            let (ba, bb) = br(block.brace_token.span.open());
            let contract = if f.contract.trim().is_empty() { String::new() } else { format!("\n{}\n", f.contract.trim_end()) };
            let contract = if f.degrade.is_some() { contract.replace("/*[", "/*degraded-[") } else { contract };
            rw.edit(ba, ba, &contract, "INJ", "contract");
            sig_end = ba;
            if f.stub {
                let (_, be) = br(block.span());
                let (rule, note) = if let Some(why) = &f.degrade { ("DEGRADED", format!("body of {} not extracted: {}", name, why)) } else { ("ASSUMED", format!("body of {} not verified here: signature + contract only", name)) };
                rw.edit(ba, be, "{ unimplemented!() }", rule, &note);
            } else {
                let mut pre = if f.pre.trim().is_empty() { String::new() } else { format!("\n{}\n", f.pre.trim_end()) };
                if vacuity() {
                    pre.push_str(&new_probe(format!("{}: function entry ({}:{})", f.path, src.rel, sig.fn_token.span.start().line)));
                }
                rw.edit(bb, bb, &pre, "INJ", "body prologue");
                rw.visit_block(block);
            }
            lo = start;
            hi = wb;
            header = String::new();
            body_lo = 0;
            let _ = body_lo;
        }
        Some(k) => {
            // ---- outlined closure (R13) ----
            if closures.get(k).is_none() && f.degrade.is_some() {
                // the closure no longer exists: the degraded stub comes from the spec alone
                let (wa, _) = br(whole);
                let mut params = f.params.clone().unwrap_or_default();
                if is_threaded {
                    if let Some(gp) = &ghost_param {
                        params = if params.trim().is_empty() { gp.clone() } else { format!("{}, {}", params, gp) };
                    }
                }
                let ret = match (&f.ret_ty, &f.ret) {
                    (Some(t), Some(r)) => format!(" -> ({}: {})", r, t),
                    (Some(t), None) => format!(" -> {}", t),
                    _ => String::new(),
                };
                let contract = if f.contract.trim().is_empty() { String::new() } else { format!("\n{}\n", f.contract.trim_end()) }.replace("/*[", "/*degraded-[");
                let text = format!("fn {}({}){}{}{{ unimplemented!() }}", name, params, ret, contract);
                let n = text.matches('\n').count() + 1;
                return Ok(Emitted { text, line_src: vec![None; n], rules: vec![Edit { start: wa, end: wa, text: String::new(), rule: "DEGRADED".into(), note: format!("closure #{} of {} no longer exists", k, fpath), seq: 0 }], src_lo_line: src.line_of(wa), src_hi_line: src.line_of(wa), original: String::new(), arms: vec![], swallowed: vec![], degraded: f.degrade.clone() });
            }
            let Some(c) = closures.get(k) else {
                refuse!("anchor lost: closure #{} of `{}` not found ({} closures)", k, fpath, closures.len());
            };
            let c: Clo = *c;
            // R13: the outlined function's parameters are named by the spec (the contract refers to them);
            // when the closure names a parameter differently, the body starts with `let <closure name> = <spec name>;`
            let mut rebind = String::new();
            if let (Clo::Closure(cc), Some(ps), true) = (c, f.params.as_ref(), f.bind) {
                let spec_names: Vec<String> = split_top_commas(ps).iter().map(|p| p.split(':').next().unwrap_or("").trim().trim_start_matches("mut ").trim().to_string()).collect();
                for (i, inp) in cc.inputs.iter().enumerate() {
                    let pat = match inp { syn::Pat::Type(t) => &*t.pat, other => other };
                    if let (syn::Pat::Ident(pi), Some(sn)) = (pat, spec_names.get(i)) {
                        let cn = pi.ident.to_string();
                        if !sn.is_empty() && &cn != sn {
                            rebind.push_str(&format!("let {}{} = {};\n", if pi.mutability.is_some() { "mut " } else { "" }, cn, sn));
                        }
                    }
                }
            }
            let is_block;
            match clo_body(c) {
                Body::Block(b) => {
                    let (x, y) = br(b.span());
                    lo = x;
                    hi = y;
                    let (_, bb) = br(b.brace_token.span.open());
                    if f.degrade.is_some() {
                        rw.edit(x, y, "{ unimplemented!() }", "DEGRADED", "body not extracted");
                    }
                    let mut pre = if f.pre.trim().is_empty() { String::new() } else { format!("\n{}\n", f.pre.trim_end()) };
                    if vacuity() {
                        pre.push_str(&new_probe(format!("{}: entry of the outlined closure ({})", f.path, src.rel)));
                    }
                    if !rebind.is_empty() {
                        pre.push_str(&format!("\n{}", rebind));
                    }
                    if f.degrade.is_none() {
                        rw.edit(bb, bb, &pre, "INJ", "body prologue");
                        rw.visit_block(b);
                    }
                    is_block = true;
                }
                Body::Expr(e) => {
                    let (x, y) = br(e.span());
                    lo = x;
                    hi = y;
                    if f.degrade.is_some() {
                        rw.edit(x, y, "unimplemented!()", "DEGRADED", "body not extracted");
                    } else {
                        rw.visit_expr(e);
                    }
                    is_block = false;
                }
            }
            let mut params = f.params.clone().unwrap_or_default();
            if is_threaded {
                if let Some(gp) = &ghost_param {
                    if params.trim().is_empty() {
                        params = gp.clone();
                    } else {
                        params = format!("{}, {}", params, gp);
                    }
                }
            }
            let ret = match (&f.ret_ty, &f.ret) {
                (Some(t), Some(r)) => format!(" -> ({}: {})", r, t),
                (Some(t), None) => format!(" -> {}", t),
                _ => String::new(),
            };
            let contract = if f.contract.trim().is_empty() { String::new() } else { format!("\n{}\n", f.contract.trim_end()) };
            let contract = if f.degrade.is_some() { contract.replace("/*[", "/*degraded-[") } else { contract };
            let mut h = format!("fn {}({}){}{}", name, params, ret, contract);
            if !is_block {
                let mut pre = if f.pre.trim().is_empty() { String::new() } else { format!("{}\n", f.pre.trim_end()) };
                if vacuity() {
                    pre.push_str(&new_probe(format!("{}: entry of the outlined closure ({})", f.path, src.rel)));
                    pre.push('\n');
                }
                pre.push_str(&rebind);
                if f.degrade.is_some() {
                    pre.clear();
                }
                h.push_str(&format!("{{\n{}", pre));
            }
            header = h;
            let cl_loc = format!("{}:{}", src.rel, c.span().start().line);
            rw.edits.push(Edit { start: lo, end: lo, text: String::new(), rule: "R13".into(), note: format!("closure #{} of {} outlined as fn {} ({})", k, fpath, name, cl_loc), seq: usize::MAX / 2 });
            body_lo = if is_block { 0 } else { 1 };
        }
    }

    // ad-hoc replacements (logged, counted)
    for rp in &f.replaces {
        let hay = &src.text[lo..hi];
        let hits: Vec<usize> = hay.match_indices(rp.old.as_str()).map(|(i, _)| i).collect();
        if hits.is_empty() {
            if f.degrade.is_some() {
                continue;
            }
            refuse!("anchor lost: //@replace text `{}` not found in `{}` ({})", rp.old, f.path, src.rel);
        }
        // degraded: only the signature is kept, so only replacements inside it apply
        let hits: Vec<usize> = if f.degrade.is_some() { hits.into_iter().filter(|h| lo + h < sig_end).collect() } else { hits };
        if hits.is_empty() {
            continue;
        }
        if hits.len() > 1 && !rp.all {
            refuse!("//@replace text `{}` is ambiguous in `{}` ({} hits)", rp.old, f.path, hits.len());
        }
        for h in hits {
            rw.edit(lo + h, lo + h + rp.old.len(), &rp.new, &rp.rule, &format!("ad-hoc: `{}` -> `{}` ({})", rp.old, rp.new, rp.why));
        }
    }

    if let Some(e) = rw.err.take() {
        refuse!("{} [fn {}]", e, f.path);
    }
    let check_anchors = !f.stub && f.degrade.is_none();
    for l in &f.loops {
        if check_anchors && !rw.used_loops.contains(&l.index) {
            refuse!("anchor lost: loop #{} of `{}` not found ({} loops)", l.index, f.path, rw.loop_no);
        }
    }
    for s in &f.selects {
        if check_anchors && !rw.used_selects.contains(&s.index) {
            refuse!("anchor lost: select! #{} of `{}` not found", s.index, f.path);
        }
    }
    for s in &f.closure_sites {
        if check_anchors && !rw.used_closures.contains(&s.index) {
            refuse!("shape mismatch: closure #{} site of `{}`: no statement matches skeleton `{}`", s.index, f.path, s.skeleton);
        }
    }
    for (i, a) in f.anchors.iter().enumerate() {
        if check_anchors && !rw.anchor_done.contains(&i) {
            refuse!("anchor lost: statement `{}` (occurrence {}) not found in `{}`", a.pattern, a.occurrence, f.path);
        }
    }
    let arms = rw.arms.clone();
    let swallowed = rw.swallowed.clone();
    let mut edits = rw.edits;
    let ap = apply_edits(&src.text, lo, hi, &mut edits)?;
    let mut lm = line_map(src, &ap);
    let mut text = ap.text;
    if !header.is_empty() {
        let hl = header.matches('\n').count();
        let is_block = body_lo == 0;
        text = format!("{}{}{}", header, text, if is_block { "" } else { "\n}" });
        // header shares its last line with the first body line
        let mut nl = vec![None; hl];
        nl.append(&mut lm);
        if !is_block {
            nl.push(None);
        }
        lm = nl;
    }
    Ok(Emitted {
        text,
        line_src: lm,
        rules: edits,
        src_lo_line: src.line_of(lo),
        src_hi_line: src.line_of(hi.saturating_sub(1)),
        original: src.text[lo..hi].to_string(),
        arms,
        swallowed,
        degraded: f.degrade.clone(),
    })
}

/// function-level degradation: signature + contract (tags neutralised) + external body
fn emit_degraded(unit: &Unit, src: &SrcFile, f: &FnSpec, threaded: &BTreeSet<String>, why: &str) -> R<Emitted> {
    let mut fd = f.clone();
    fd.degrade = Some(why.to_string());
    fd.stub = true;
    fd.split_arms = false;
    fd.kill_arms.clear();
    let vac = vacuity();
    VACUITY.store(false, std::sync::atomic::Ordering::Relaxed);
    let em = emit_fn(unit, src, &fd, threaded);
    VACUITY.store(vac, std::sync::atomic::Ordering::Relaxed);
    em.map_err(|Refuse(e)| Refuse(format!("{} (and the function cannot be degraded to its contract: {})", why, e)))
}

/// would the case-split extraction of `f` be refused?  (dry run without vacuity probes)
fn split_fails(unit: &Unit, src: &SrcFile, f: &FnSpec, threaded: &BTreeSet<String>) -> Option<String> {
    if f.selects.len() != 1 {
        return None;
    }
    let vac = vacuity();
    VACUITY.store(false, std::sync::atomic::Ordering::Relaxed);
    let r = emit_fn(unit, src, f, threaded);
    VACUITY.store(vac, std::sync::atomic::Ordering::Relaxed);
    match r {
        Ok(_) => None,
        Err(Refuse(e)) => Some(e),
    }
}

fn emit_item(unit: &Unit, src: &SrcFile, it: &ItemSpec) -> R<Emitted> {
    fn find<'a>(items: &'a [syn::Item], name: &str) -> Option<&'a syn::Item> {
        for i in items {
            let id = match i {
                syn::Item::Struct(s) => Some(&s.ident),
                syn::Item::Enum(s) => Some(&s.ident),
                syn::Item::Type(s) => Some(&s.ident),
                syn::Item::Const(s) => Some(&s.ident),
                syn::Item::Static(s) => Some(&s.ident),
                _ => None,
            };
            if id.map(|x| x == name).unwrap_or(false) {
                return Some(i);
            }
        }
        None
    }
    let Some(item) = find(&src.ast.items, &it.name) else {
        refuse!("anchor lost: item `{}` not found in {}", it.name, src.rel);
    };
    let mut fd = FnSpec::default();
    fd.subst = it.subst.clone();
    let fdummy: &FnSpec = Box::leak(Box::new(fd));
    let empty: &BTreeSet<String> = Box::leak(Box::new(BTreeSet::new()));
    let mut rw = Rw {
        src,
        unit,
        f: fdummy,
        edits: vec![],
        err: None,
        loop_no: 0,
        select_no: 0,
        closure_no: 0,
        pinned: BTreeSet::new(),
        threaded: empty,
        calls: BTreeSet::new(),
        used_loops: BTreeSet::new(),
        used_selects: BTreeSet::new(),
        used_closures: BTreeSet::new(),
            swallowed: vec![],
        anchor_hits: HashMap::new(),
        anchor_done: BTreeSet::new(),
        self_as: None,
        scan_only: false,
        arms: vec![],
        in_select: 0,
    };
    let (attrs, ident): (&Vec<syn::Attribute>, &syn::Ident) = match item {
        syn::Item::Struct(s) => (&s.attrs, &s.ident),
        syn::Item::Enum(s) => (&s.attrs, &s.ident),
        syn::Item::Type(s) => (&s.attrs, &s.ident),
        syn::Item::Const(s) => (&s.attrs, &s.ident),
        syn::Item::Static(s) => (&s.attrs, &s.ident),
        _ => unreachable!(),
    };
    let (mut lo, hi) = br(item.span());
    // attributes: drop doc comments, filter derives (R10)
    let mut first_non_attr = None;
    for a in attrs {
        let (x, y) = br(a.span());
        if a.path().is_ident("derive") {
            let mut keep = vec![];
            let _ = a.parse_nested_meta(|m| {
                let n = m.path.segments.last().unwrap().ident.to_string();
                if !unit.drop_derives.contains(&n) && !it.drop_derives.contains(&n) {
                    keep.push(n);
                }
                Ok(())
            });
            let new = if keep.is_empty() { String::new() } else { format!("#[derive({})]", keep.join(", ")) };
            if squash(&new) != squash(&src.text[x..y]) {
                rw.edit(x, y, &new, "R10", &format!("derive list of {} reduced to [{}]", it.name, keep.join(", ")));
            }
        } else {
            rw.edit(x, y, "", "R10", &format!("attribute `{}` of {} dropped", norm(&src.text[x..y]).chars().take(40).collect::<String>(), it.name));
        }
        if first_non_attr.is_none() {
            first_non_attr = Some(x);
        }
    }
    if let Some(x) = first_non_attr {
        lo = lo.min(x);
    }
    if let Some(n) = &it.rename {
        let (x, y) = br(ident.span());
        rw.edit(x, y, n, "R11", &format!("item {} renamed to {} (flat namespace)", it.name, n));
    }
    // field / variant types
    match item {
        syn::Item::Struct(s) => {
            for f in &s.fields {
                for a in &f.attrs {
                    let (x, y) = br(a.span());
                    rw.edit(x, y, "", "R10", "field attribute dropped");
                }
                rw.visit_type(&f.ty);
                if it.pub_fields && matches!(f.vis, syn::Visibility::Inherited) {
                    let (x, _) = br(f.span());
                    let x2 = f.ident.as_ref().map(|i| br(i.span()).0).unwrap_or_else(|| br(f.ty.span()).0);
                    let _ = x;
                    rw.edit(x2, x2, "pub ", "R10", "field made pub (flat namespace)");
                }
            }
        }
        syn::Item::Enum(s) => {
            for v in &s.variants {
                for a in &v.attrs {
                    let (x, y) = br(a.span());
                    rw.edit(x, y, "", "R10", "variant attribute dropped");
                }
                for f in &v.fields {
                    for a in &f.attrs {
                        let (x, y) = br(a.span());
                        rw.edit(x, y, "", "R10", "field attribute dropped");
                    }
                    rw.visit_type(&f.ty);
                }
            }
        }
        syn::Item::Type(t) => rw.visit_type(&t.ty),
        syn::Item::Const(c) => {
            // R18: the elided lifetime of a reference-typed `const` is `'static` by the language rule;
            // inside verus! it has to be written
            if let syn::Type::Reference(r) = &*c.ty {
                if r.lifetime.is_none() {
                    let (_, y) = br(r.and_token.span());
                    rw.edit(y, y, "'static ", "R18", &format!("const {}: elided lifetime written as 'static", it.name));
                }
            }
            rw.visit_type(&c.ty);
            rw.visit_expr(&c.expr);
        }
        syn::Item::Static(c) => {
            // R18: an immutable `static` of a scalar type is read like a `const` (Verus wants `exec static` syntax)
            if !matches!(c.mutability, syn::StaticMutability::None) {
                refuse!("static mut {} is not supported", it.name);
            }
            let (x, y) = br(c.static_token.span());
            rw.edit(x, y, "const", "R18", &format!("static {} read as const", it.name));
            rw.visit_type(&c.ty);
            rw.visit_expr(&c.expr);
        }
        _ => {}
    }
    if let Some(e) = rw.err.take() {
        refuse!("{} [item {}]", e, it.name);
    }
    let mut edits = rw.edits;
    let ap = apply_edits(&src.text, lo, hi, &mut edits)?;
    let lm = line_map(src, &ap);
    Ok(Emitted { text: ap.text, line_src: lm, rules: edits, src_lo_line: src.line_of(lo), src_hi_line: src.line_of(hi - 1), original: src.text[lo..hi].to_string(), arms: vec![], swallowed: vec![], degraded: None })
}

// ---------------------------------------------------------------------------
// main
// ---------------------------------------------------------------------------

fn sha(s: &str) -> String {
    // FNV-1a 64 — a fingerprint for the fidelity record, not a security hash
    let mut h: u64 = 0xcbf29ce484222325;
    for b in s.bytes() {
        h ^= b as u64;
        h = h.wrapping_mul(0x100000001b3);
    }
    format!("{:016x}", h)
}

fn run() -> R<()> {
    let args: Vec<String> = std::env::args().collect();
    let mut repo = "/repo".to_string();
    let mut specp = String::new();
    let mut out = String::new();
    let mut prelude = "/verif/prelude".to_string();
    let mut no_degrade = false;
    let mut force_degrade: Vec<(String, String)> = vec![];
    let mut i = 1;
    while i < args.len() {
        match args[i].as_str() {
            "--repo" => {
                repo = args[i + 1].clone();
                i += 1
            }
            "--spec" => {
                specp = args[i + 1].clone();
                i += 1
            }
            "--out" => {
                out = args[i + 1].clone();
                i += 1
            }
            "--prelude" => {
                prelude = args[i + 1].clone();
                i += 1
            }
            "--vacuity" => VACUITY.store(true, std::sync::atomic::Ordering::Relaxed),
            "--no-degrade" => no_degrade = true,
            "--degrade" => {
                // NAME=reason;NAME=reason
                if i + 1 < args.len() {
                    for part in args[i + 1].split(";;") {
                        if let Some((n, w)) = part.split_once("=") {
                            force_degrade.push((n.to_string(), w.to_string()));
                        }
                    }
                    i += 1;
                }
            }
            x => refuse!("unknown arg {}", x),
        }
        i += 1;
    }
    if specp.is_empty() || out.is_empty() {
        refuse!("usage: vx --repo DIR --spec FILE --out DIR [--prelude DIR]");
    }
    let spec_text = std::fs::read_to_string(&specp).map_err(|e| Refuse(format!("cannot read spec {}: {}", specp, e)))?;
    let unit = parse_spec(&spec_text, &prelude).map_err(|e| Refuse(format!("spec error in {}: {}", specp, e)))?;

    let mut srcs: HashMap<String, SrcFile> = HashMap::new();
    for p in &unit.parts {
        let file = match p {
            Part::Fn(f) => Some(&f.file),
            Part::Item(i) => Some(&i.file),
            _ => None,
        };
        if let Some(f) = file {
            if !srcs.contains_key(f) {
                srcs.insert(f.clone(), SrcFile::load(&repo, f)?);
            }
        }
    }
    let threaded = compute_threaded(&unit, &srcs)?;

    let mut text = String::new();
    let mut line_src: Vec<Option<(String, usize)>> = vec![];
    let mut rules = vec![];
    let mut fidelity = String::new();
    let mut items_json = vec![];
    let mut rule_counts: BTreeMap<String, usize> = BTreeMap::new();

    let push_raw = |text: &mut String, line_src: &mut Vec<Option<(String, usize)>>, s: &str| {
        for l in s.lines() {
            // a hand-placed vacuity probe in spec text (e.g. at the end of a lemma that uses assumed axioms):
            // `/*VAC-PROBE: label*/` becomes `assert(!vac_probe(N));` in vacuity mode and stays a comment otherwise
            if vacuity() {
                if let (Some(i), Some(j)) = (l.find("/*VAC-PROBE:"), l.find("*/")) {
                    if j > i {
                        let label = l[i + 12..j].trim().to_string();
                        let pr = new_probe(format!("spec text: {}", label));
                        text.push_str(&l[..i]);
                        text.push_str(&pr);
                        text.push_str(&l[j + 2..]);
                        text.push('\n');
                        line_src.push(None);
                        continue;
                    }
                }
            }
            text.push_str(l);
            text.push('\n');
            line_src.push(None);
        }
    };

    for p in &unit.parts {
        match p {
            Part::Raw(s) => push_raw(&mut text, &mut line_src, s),
            Part::Fn(_) | Part::Item(_) => {
                // (emitted text, file, source name, kind, output name, case-split label)
                let mut outs: Vec<(Emitted, String, String, &str, String, Option<String>)> = vec![];
                match p {
                    Part::Fn(f) if f.split_arms && (force_degrade.iter().any(|(n, _)| *n == f.path) || (!no_degrade && split_fails(&unit, &srcs[&f.file], f, &threaded).is_some())) => {
                        let why = force_degrade.iter().find(|(n, _)| *n == f.path).map(|(_, w)| w.clone()).or_else(|| split_fails(&unit, &srcs[&f.file], f, &threaded)).unwrap_or_default();
                        let em = emit_degraded(&unit, &srcs[&f.file], f, &threaded, &why)?;
                        outs.push((em, f.file.clone(), f.path.clone(), "fn", f.out_name(), None));
                    }
                    Part::Fn(f) if f.split_arms => {
                        if f.selects.len() != 1 {
                            refuse!("//@split-arms on `{}` needs exactly one select! (the split is only sound over mutually exclusive arms)", f.path);
                        }
                        // the first pass only collects the arms; it must not allocate vacuity probes
                        let vac = vacuity();
                        VACUITY.store(false, std::sync::atomic::Ordering::Relaxed);
                        let probe = emit_fn(&unit, &srcs[&f.file], f, &threaded);
                        VACUITY.store(vac, std::sync::atomic::Ordering::Relaxed);
                        let probe = probe?;
                        let arms = probe.arms.clone();
                        let leaves: Vec<usize> = (0..arms.len())
                            .filter(|&i| !(0..arms.len()).any(|j| j != i && arms[j].0 >= arms[i].0 && arms[j].1 <= arms[i].1))
                            .collect();
                        if leaves.len() < 2 {
                            outs.push((probe, f.file.clone(), f.path.clone(), "fn", f.out_name(), None));
                        } else {
                            for (n, &live) in leaves.iter().enumerate() {
                                let mut fc = f.clone();
                                fc.kill_arms = leaves.iter().cloned().filter(|&x| x != live).collect();
                                let nm = format!("{}__arm{}", f.out_name(), n);
                                fc.rename = Some(nm.clone());
                                // the ghost-threading set is keyed by the original name
                                let mut th = threaded.clone();
                                if threaded.contains(&f.out_name()) || threaded.contains(&format!("fn:{}", f.out_name())) {
                                    th.insert(nm.clone());
                                }
                                let em = emit_fn(&unit, &srcs[&f.file], &fc, &th)?;
                                outs.push((em, f.file.clone(), f.path.clone(), "fn", nm, Some(arms[live].2.clone())));
                            }
                            // the callers' view: same signature and contract, body external
                            let mut fs = f.clone();
                            fs.stub = true;
                            fs.attrs = vec!["#[verifier::external_body]".to_string()];
                            VACUITY.store(false, std::sync::atomic::Ordering::Relaxed);
                            let em = emit_fn(&unit, &srcs[&f.file], &fs, &threaded);
                            VACUITY.store(vac, std::sync::atomic::Ordering::Relaxed);
                            let em = em?;
                            outs.push((em, f.file.clone(), f.path.clone(), "fn", f.out_name(), Some("callers' view (contract only; proved by the copies above)".to_string())));
                        }
                    }
                    Part::Fn(f) => {
                        let forced = force_degrade.iter().find(|(n, _)| *n == f.path).map(|(_, w)| w.clone());
                        let probes_before = PROBES.with(|p| p.borrow().len());
                        let first = if forced.is_some() && !f.stub && !f.verbatim { Err(Refuse(forced.clone().unwrap())) } else { emit_fn(&unit, &srcs[&f.file], f, &threaded) };
                        match first {
                            Ok(em) => outs.push((em, f.file.clone(), f.path.clone(), "fn", f.out_name(), None)),
                            Err(Refuse(why)) if !f.stub && !f.verbatim && !no_degrade => {
                                // probes allocated by the abandoned attempt are not in the text
                                PROBES.with(|p| p.borrow_mut().truncate(probes_before));
                                let em = emit_degraded(&unit, &srcs[&f.file], f, &threaded, &why)?;
                                outs.push((em, f.file.clone(), f.path.clone(), "fn", f.out_name(), None));
                            }
                            Err(e) => return Err(e),
                        }
                    }
                    Part::Item(it) => outs.push((emit_item(&unit, &srcs[&it.file], it)?, it.file.clone(), it.name.clone(), "item", it.rename.clone().unwrap_or(it.name.clone()), None)),
                    _ => unreachable!(),
                };
                for (em, file, name, kind, out_name, split) in outs {
                    let start_line = line_src.len() + 1;
                    let mut n = 0;
                    if let Some(lbl) = &split {
                        text.push_str(&format!("// ---- case-split copy (R16): live arm = {}\n", lbl));
                        line_src.push(None);
                    }
                    let mut extra = if split.is_some() { 1 } else { 0 };
                    if let Part::Fn(f) = p {
                        let stub_attr = vec!["#[verifier::external_body]".to_string()];
                        let attrs = if em.degraded.is_some() || split.as_deref().map(|l| l.starts_with("callers' view")).unwrap_or(false) { &stub_attr } else { &f.attrs };
                        if let Some(why) = &em.degraded {
                            text.push_str(&format!("// DEGRADED (not extracted, contract only, tags neutralised): {}\n", why.replace('\n', " ")));
                            line_src.push(None);
                            extra += 1;
                        }
                        for a in attrs {
                            text.push_str(a);
                            text.push('\n');
                            line_src.push(None);
                            extra += 1;
                        }
                    }
                    for (i, l) in em.text.lines().enumerate() {
                        text.push_str(l);
                        text.push('\n');
                        line_src.push(em.line_src.get(i).cloned().flatten().map(|ln| (file.clone(), ln)));
                        n += 1;
                    }
                    let start_line = start_line + extra;
                    let end_line = start_line + n - 1;
                    let mut rids = vec![];
                    for e in &em.rules {
                        if e.rule == "INJ" || e.rule == "SIG" {
                            continue;
                        }
                        *rule_counts.entry(e.rule.clone()).or_insert(0) += 1;
                        rids.push(e.rule.clone());
                        rules.push(serde_json::json!({"rule": e.rule, "item": name, "file": file, "line": srcs[&file].line_of(e.start), "note": e.note}));
                    }
                    items_json.push(serde_json::json!({
                        "kind": kind, "name": name, "out_name": out_name, "file": file,
                        "src_lines": [em.src_lo_line, em.src_hi_line], "unit_lines": [start_line, end_line],
                        "src_fingerprint": sha(&em.original), "rules": rids, "degraded": em.degraded,
                        "threaded": threaded.contains(&out_name) || split.is_some() && threaded.contains(name.rsplit("::").next().unwrap()),
                        "split_arm": split,
                    }));
                    // closures consumed as holes of a site directive and not outlined by any //@fn of this unit: their
                    // text is outside every contract, so it is fingerprinted like an assumed function's body
                    if split.is_none() || split.as_deref().map(|l| l.starts_with("callers' view")).unwrap_or(false) {
                        let host = name.split('#').next().unwrap_or(&name).to_string();
                        for (ci, ctext) in &em.swallowed {
                            let cname = format!("{}#closure{}", host, ci);
                            let outlined = unit.parts.iter().any(|q| matches!(q, Part::Fn(g) if g.path == cname && g.file == file));
                            if !outlined && !items_json.iter().any(|j| j["name"] == cname.as_str()) {
                                items_json.push(serde_json::json!({
                                    "kind": "fn", "name": cname, "out_name": "", "file": file,
                                    "src_lines": [em.src_lo_line, em.src_hi_line], "unit_lines": [0, 0],
                                    "src_fingerprint": sha(ctext), "rules": ["ASSUMED", "R13"], "threaded": false, "split_arm": serde_json::Value::Null,
                                }));
                                let _ = writeln!(fidelity, "=== closure {} ({}) fingerprint {}: consumed by a site directive, not outlined: its text is assumed (fingerprint guard)\n--- original\n{}\n", cname, file, sha(ctext), ctext);
                            }
                        }
                    }
                    let _ = writeln!(fidelity, "=== {} {} ({}:{}-{}) fingerprint {} -> unit.rs:{}-{}{}", kind, name, file, em.src_lo_line, em.src_hi_line, sha(&em.original), start_line, end_line, split.as_ref().map(|l| format!(" [case-split copy, live arm: {}]", l)).unwrap_or_default());
                    for e in &em.rules {
                        let _ = writeln!(fidelity, "  [{}] {}:{} {}", e.rule, file, srcs[&file].line_of(e.start), e.note);
                    }
                    let _ = writeln!(fidelity, "--- original\n{}\n--- emitted\n{}\n", em.original, em.text);
                }
            }
        }
    }

    std::fs::create_dir_all(&out).map_err(|e| Refuse(format!("mkdir {}: {}", out, e)))?;
    std::fs::write(format!("{}/unit.rs", out), &text).map_err(|e| Refuse(e.to_string()))?;
    std::fs::write(format!("{}/fidelity.txt", out), &fidelity).map_err(|e| Refuse(e.to_string()))?;
    let lm: Vec<serde_json::Value> = line_src
        .iter()
        .map(|x| match x {
            Some((f, l)) => serde_json::json!([f, l]),
            None => serde_json::Value::Null,
        })
        .collect();
    let map = serde_json::json!({"unit": unit.name, "lines": lm, "items": items_json, "threaded": threaded.iter().collect::<Vec<_>>()});
    std::fs::write(format!("{}/map.json", out), serde_json::to_string(&map).unwrap()).map_err(|e| Refuse(e.to_string()))?;
    if vacuity() {
        let pj: Vec<serde_json::Value> = PROBES.with(|p| p.borrow().iter().map(|(n, w)| serde_json::json!({"n": n, "where": w})).collect());
        std::fs::write(format!("{}/probes.json", out), serde_json::to_string_pretty(&pj).unwrap()).map_err(|e| Refuse(e.to_string()))?;
    }
    let rj = serde_json::json!({"unit": unit.name, "counts": rule_counts, "applications": rules});
    std::fs::write(format!("{}/rules.json", out), serde_json::to_string_pretty(&rj).unwrap()).map_err(|e| Refuse(e.to_string()))?;
    Ok(())
}

fn main() {
    match run() {
        Ok(()) => {}
        Err(Refuse(m)) => {
            eprintln!("vx: REFUSED: {}", m);
            std::process::exit(2);
        }
    }
}
