//! Unit spec files (`spec/<unit>.vs`): Verus text passed through verbatim, interleaved with
//! `//@` directives that name the items to copy out of /repo and the contracts to splice in.
//!
//!   //@unit NAME
//!   //@ghost PARAM TYPE seeds=a,b,c [never=x,y]
//!   //@subst a::b::C => D
//!   //@dropderive Serialize,Deserialize
//!   //@include FILE                       (relative to the prelude directory)
//!   //@item FILE NAME [as=NEW] [pubfields] [dropderive=A,B]
//!   //@fn FILE PATH [as=NEW] [ret=r] [params=`..`] [rty=`..`] [selfas=this]
//!     //@contract        raw text (requires/ensures/decreases ...) until the next //@ line
//!     //@pre             raw text inserted at the start of the body
//!     //@loop K [set] [binder=it]     raw text = loop contract
//!     //@before K `pattern`           raw text inserted before the K-th statement starting with pattern
//!     //@after K `pattern`
//!     //@select K enum=E oracle=`f(args)`    followed by //@arm lines; raw text = proof after the oracle call
//!     //@arm VARIANT `future expression`
//!     //@closure K skeleton=`..<CLOSURE>..` becomes=`..`
//!     //@replace `old` => `new` rule=RX why=`..` [all]
//!     //@ctxe `receiver text`          (receiver of .context() that is an Error, not a Result)
//!     //@lsubst a::B => C              (substitution local to this fn)
//!     //@split-arms                    (emit one copy of the fn per leaf match/select arm; see DESIGN §3 R16)
//!   //@end
use std::collections::BTreeSet;

#[derive(Clone, Default, Debug)]
pub struct LoopSpec {
    pub index: usize,
    pub set: bool,
    /// `for x in SET` over an owned HashSet -> `for x__ref in SET.iter() { let x = x__ref.clone(); ..` (R8b)
    pub set_owned: bool,
    pub binder: Option<String>,
    pub text: String,
    pub body: String,
}
#[derive(Clone, Default, Debug)]
pub struct Anchor {
    pub occurrence: usize,
    pub pattern: String,
    pub text: String,
    pub after: bool,
}
#[derive(Clone, Default, Debug)]
pub struct ArmSpec {
    pub variant: String,
    pub fut: String,
}
#[derive(Clone, Default, Debug)]
pub struct SelectSpec {
    pub index: usize,
    pub enum_name: String,
    pub oracle: String,
    pub arms: Vec<ArmSpec>,
    pub post: String,
    pub fallback: bool,
}
#[derive(Clone, Default, Debug)]
pub struct ClosureSite {
    pub index: usize,
    pub skeleton: String,
    pub becomes: String,
}
#[derive(Clone, Default, Debug)]
pub struct Replace {
    pub old: String,
    pub new: String,
    pub rule: String,
    pub why: String,
    pub all: bool,
    /// applied to the source text before parsing (so that other rules still apply inside the new text)
    pub pre: bool,
}
#[derive(Clone, Default, Debug)]
pub struct FnSpec {
    pub file: String,
    pub path: String,
    pub rename: Option<String>,
    pub ret: Option<String>,
    pub ret_ty: Option<String>,
    pub params: Option<String>,
    pub self_as: Option<String>,
    pub contract: String,
    pub pre: String,
    pub loops: Vec<LoopSpec>,
    pub anchors: Vec<Anchor>,
    pub selects: Vec<SelectSpec>,
    pub closure_sites: Vec<ClosureSite>,
    pub replaces: Vec<Replace>,
    pub error_context_receivers: Vec<String>,
    pub subst: Vec<(Vec<String>, String)>,
    pub split_arms: bool,
    pub attrs: Vec<String>,
    // filled in by the extractor
    pub kill_arms: BTreeSet<usize>,
    /// emit signature + contract only, with an `external_body` (the callers' view of a case-split fn)
    pub stub: bool,
    /// copy the source text of the function exactly (no rewrite rule): used for the Kani harness crate
    pub verbatim: bool,
    /// outlined closure: the first params of `params=` are the closure's own parameters, in order (a closure
    /// parameter named differently is re-bound at the start of the body)
    pub bind: bool,
    /// function-level degradation: the function could not be extracted (reason); it is emitted as its signature +
    /// contract with an external body and its contract's tags are neutralised, so that exactly the properties with
    /// an obligation in this function become undecided while the rest of the unit is still verified
    pub degrade: Option<String>,
    pub closure_spans: Vec<(usize, (usize, usize))>,
    pub pin_idents: BTreeSet<String>,
    pub ref_params: BTreeSet<String>,
}
impl FnSpec {
    pub fn out_name(&self) -> String {
        if let Some(n) = &self.rename {
            return n.clone();
        }
        let p = self.path.split('#').next().unwrap();
        p.rsplit("::").next().unwrap().to_string()
    }
}
#[derive(Clone, Default, Debug)]
pub struct ItemSpec {
    pub file: String,
    pub name: String,
    pub rename: Option<String>,
    pub pub_fields: bool,
    pub drop_derives: BTreeSet<String>,
    /// single-segment type renames local to this item: tsubst=A:B,C:D
    pub subst: Vec<(Vec<String>, String)>,
}
#[derive(Clone, Debug)]
pub struct Ghost {
    pub param: String,
    pub ty: String,
    pub seeds: Vec<String>,
    pub never: BTreeSet<String>,
}
pub enum Part {
    Raw(String),
    Fn(FnSpec),
    Item(ItemSpec),
}
pub struct Unit {
    pub name: String,
    pub ghost: Option<Ghost>,
    pub subst: Vec<(Vec<String>, String)>,
    pub keep_std: bool,
    /// `var.await` -> `await_value(var)` (units whose functions receive futures as values)
    pub await_vars: bool,
    pub drop_derives: BTreeSet<String>,
    pub parts: Vec<Part>,
}
impl Unit {
    pub fn fns(&self) -> impl Iterator<Item = &FnSpec> {
        self.parts.iter().filter_map(|p| if let Part::Fn(f) = p { Some(f) } else { None })
    }
    pub fn subst_lookup(&self, segs: &[String]) -> Option<&str> {
        for (k, v) in &self.subst {
            if k.as_slice() == segs {
                return Some(v);
            }
        }
        None
    }
}

/// split a directive line into words; `...` groups are kept as one word (without the backticks)
fn words(s: &str) -> Vec<String> {
    let mut out = vec![];
    let mut cur = String::new();
    let mut in_bt = false;
    for c in s.chars() {
        if in_bt {
            if c == '`' {
                in_bt = false;
                // `\n` inside a backtick group stands for a line break
                cur = cur.replace("\\n", "\n");
            } else {
                cur.push(c);
            }
        } else if c == '`' {
            in_bt = true;
        } else if c.is_whitespace() {
            if !cur.is_empty() {
                out.push(std::mem::take(&mut cur));
            }
        } else {
            cur.push(c);
        }
    }
    if !cur.is_empty() {
        out.push(cur);
    }
    out
}

fn kv<'a>(ws: &'a [String], key: &str) -> Option<&'a str> {
    let pre = format!("{}=", key);
    ws.iter().find(|w| w.starts_with(&pre)).map(|w| &w[pre.len()..])
}
fn flag(ws: &[String], key: &str) -> bool {
    ws.iter().any(|w| w == key)
}
fn parse_subst(rest: &str) -> Result<(Vec<String>, String), String> {
    let mut it = rest.split("=>");
    let a = it.next().ok_or("bad subst")?.trim();
    let b = it.next().ok_or("bad subst (missing =>)")?.trim();
    Ok((a.split("::").map(|s| s.trim().to_string()).collect(), b.to_string()))
}

enum Sect {
    None,
    Contract,
    Pre,
    Loop(usize),
    LoopBody(usize),
    Anchor(usize),
    Select(usize),
}

pub fn parse_spec(text: &str, prelude_dir: &str) -> Result<Unit, String> {
    let mut unit = Unit { name: String::new(), ghost: None, subst: vec![], keep_std: false, await_vars: false, drop_derives: BTreeSet::new(), parts: vec![] };
    let mut raw = String::new();
    let mut cur: Option<FnSpec> = None;
    let mut sect = Sect::None;
    let mut lines: Vec<String> = vec![];
    // expand includes first (one level)
    for l in text.lines() {
        if let Some(rest) = l.trim_start().strip_prefix("//@include ") {
            let p = format!("{}/{}", prelude_dir, rest.trim());
            let t = std::fs::read_to_string(&p).map_err(|e| format!("include {}: {}", p, e))?;
            lines.push(format!("// ---- begin include {} ----", rest.trim()));
            for il in t.lines() {
                lines.push(il.to_string());
            }
            lines.push(format!("// ---- end include {} ----", rest.trim()));
        } else {
            lines.push(l.to_string());
        }
    }
    for (ln, l) in lines.iter().enumerate() {
        let t = l.trim_start();
        let Some(d) = t.strip_prefix("//@") else {
            // raw text
            match (&mut cur, &sect) {
                (None, _) => {
                    raw.push_str(l);
                    raw.push('\n');
                }
                (Some(f), Sect::Contract) => {
                    f.contract.push_str(l);
                    f.contract.push('\n');
                }
                (Some(f), Sect::Pre) => {
                    f.pre.push_str(l);
                    f.pre.push('\n');
                }
                (Some(f), Sect::Loop(i)) => {
                    f.loops[*i].text.push_str(l);
                    f.loops[*i].text.push('\n');
                }
                (Some(f), Sect::LoopBody(i)) => {
                    f.loops[*i].body.push_str(l);
                    f.loops[*i].body.push('\n');
                }
                (Some(f), Sect::Anchor(i)) => {
                    f.anchors[*i].text.push_str(l);
                    f.anchors[*i].text.push('\n');
                }
                (Some(f), Sect::Select(i)) => {
                    f.selects[*i].post.push_str(l);
                    f.selects[*i].post.push('\n');
                }
                (Some(_), Sect::None) => {
                    if !l.trim().is_empty() {
                        return Err(format!("line {}: text outside a section inside //@fn", ln + 1));
                    }
                }
            }
            continue;
        };
        let ws = words(d);
        if ws.is_empty() {
            continue;
        }
        let err = |m: &str| format!("line {}: {} (`{}`)", ln + 1, m, l.trim());
        match ws[0].as_str() {
            "unit" => unit.name = ws.get(1).cloned().ok_or_else(|| err("missing name"))?,
            "ghost" => {
                let param = ws.get(1).cloned().ok_or_else(|| err("missing param"))?;
                let ty = ws.get(2).cloned().ok_or_else(|| err("missing type"))?;
                let seeds = kv(&ws, "seeds").unwrap_or("").split(',').filter(|s| !s.is_empty()).map(|s| s.to_string()).collect();
                let never = kv(&ws, "never").unwrap_or("").split(',').filter(|s| !s.is_empty()).map(|s| s.to_string()).collect();
                unit.ghost = Some(Ghost { param, ty, seeds, never });
            }
            "subst" => {
                let rest = d.trim_start()["subst".len()..].trim();
                unit.subst.push(parse_subst(rest).map_err(|e| err(&e))?);
            }
            "keepstd" => unit.keep_std = true,
            "awaitvars" => unit.await_vars = true,
            "dropderive" => {
                for n in ws[1..].iter().flat_map(|w| w.split(',')) {
                    if !n.is_empty() {
                        unit.drop_derives.insert(n.to_string());
                    }
                }
            }
            "item" => {
                if cur.is_some() {
                    return Err(err("//@item inside //@fn"));
                }
                if !raw.is_empty() {
                    unit.parts.push(Part::Raw(std::mem::take(&mut raw)));
                }
                let file = ws.get(1).cloned().ok_or_else(|| err("missing file"))?;
                let name = ws.get(2).cloned().ok_or_else(|| err("missing name"))?;
                let dd = kv(&ws, "dropderive").unwrap_or("").split(',').filter(|s| !s.is_empty()).map(|s| s.to_string()).collect();
                let ts: Vec<(Vec<String>, String)> = kv(&ws, "tsubst").unwrap_or("").split(',').filter(|s| !s.is_empty()).filter_map(|p| p.split_once(':')).map(|(a, b)| (a.split("::").map(|x| x.to_string()).collect(), b.to_string())).collect();
                unit.parts.push(Part::Item(ItemSpec { file, name, rename: kv(&ws, "as").map(|s| s.to_string()), pub_fields: flag(&ws, "pubfields"), drop_derives: dd, subst: ts }));
            }
            "fn" => {
                if cur.is_some() {
                    return Err(err("nested //@fn (missing //@end)"));
                }
                if !raw.is_empty() {
                    unit.parts.push(Part::Raw(std::mem::take(&mut raw)));
                }
                let mut f = FnSpec::default();
                f.file = ws.get(1).cloned().ok_or_else(|| err("missing file"))?;
                f.path = ws.get(2).cloned().ok_or_else(|| err("missing path"))?;
                f.rename = kv(&ws, "as").map(|s| s.to_string());
                f.ret = kv(&ws, "ret").map(|s| s.to_string());
                f.ret_ty = kv(&ws, "rty").map(|s| s.to_string());
                f.params = kv(&ws, "params").map(|s| s.to_string());
                f.self_as = kv(&ws, "selfas").map(|s| s.to_string());
                f.verbatim = flag(&ws, "verbatim");
                f.bind = flag(&ws, "bind");
                if flag(&ws, "assumed") {
                    // an assumed function: its real signature (rewritten by the rules) with the contract of the
                    // spec, body external.  A changed signature no longer matches the contract -> refusal, not silence.
                    f.stub = true;
                    f.attrs.push("#[verifier::external_body]".to_string());
                }
                if f.path.contains("#closure") && f.rename.is_none() {
                    return Err(err("outlined closure needs as=NAME"));
                }
                cur = Some(f);
                sect = Sect::None;
            }
            "end" => {
                let f = cur.take().ok_or_else(|| err("//@end without //@fn"))?;
                unit.parts.push(Part::Fn(f));
                sect = Sect::None;
            }
            other => {
                let Some(f) = cur.as_mut() else { return Err(err("directive outside //@fn")) };
                match other {
                    "contract" => sect = Sect::Contract,
                    "pre" => sect = Sect::Pre,
                    "loop" => {
                        let index: usize = ws.get(1).and_then(|s| s.parse().ok()).ok_or_else(|| err("loop index"))?;
                        f.loops.push(LoopSpec { index, set: flag(&ws, "set"), set_owned: flag(&ws, "set-owned"), binder: kv(&ws, "binder").map(|s| s.to_string()), text: String::new(), body: String::new() });
                        sect = Sect::Loop(f.loops.len() - 1);
                    }
                    "loopbody" => {
                        if f.loops.is_empty() {
                            return Err(err("//@loopbody without //@loop"));
                        }
                        sect = Sect::LoopBody(f.loops.len() - 1);
                    }
                    "before" | "after" => {
                        let occurrence: usize = ws.get(1).and_then(|s| s.parse().ok()).ok_or_else(|| err("occurrence index"))?;
                        let pattern = ws.get(2).cloned().ok_or_else(|| err("pattern"))?;
                        f.anchors.push(Anchor { occurrence, pattern, text: String::new(), after: other == "after" });
                        sect = Sect::Anchor(f.anchors.len() - 1);
                    }
                    "select" => {
                        let index: usize = ws.get(1).and_then(|s| s.parse().ok()).ok_or_else(|| err("select index"))?;
                        let enum_name = kv(&ws, "enum").ok_or_else(|| err("enum="))?.to_string();
                        let oracle = kv(&ws, "oracle").ok_or_else(|| err("oracle="))?.to_string();
                        f.selects.push(SelectSpec { index, enum_name, oracle, arms: vec![], post: String::new(), fallback: flag(&ws, "fallback") });
                        sect = Sect::Select(f.selects.len() - 1);
                    }
                    "arm" => {
                        let Sect::Select(i) = sect else { return Err(err("//@arm outside //@select")) };
                        let variant = ws.get(1).cloned().ok_or_else(|| err("variant"))?;
                        let fut = ws.get(2).cloned().ok_or_else(|| err("future text"))?;
                        f.selects[i].arms.push(ArmSpec { variant, fut });
                    }
                    "closure" => {
                        let index: usize = ws.get(1).and_then(|s| s.parse().ok()).ok_or_else(|| err("closure index"))?;
                        let skeleton = kv(&ws, "skeleton").ok_or_else(|| err("skeleton="))?.to_string();
                        let becomes = kv(&ws, "becomes").ok_or_else(|| err("becomes="))?.to_string();
                        f.closure_sites.push(ClosureSite { index, skeleton, becomes });
                    }
                    "replace" => {
                        // //@replace `old` => `new` rule=RX why=`..`
                        let old = ws.get(1).cloned().ok_or_else(|| err("old"))?;
                        if ws.get(2).map(|s| s.as_str()) != Some("=>") {
                            return Err(err("expected =>"));
                        }
                        let new = ws.get(3).cloned().ok_or_else(|| err("new"))?;
                        let rule = kv(&ws, "rule").unwrap_or("ADHOC").to_string();
                        let why = kv(&ws, "why").unwrap_or("").to_string();
                        f.replaces.push(Replace { old, new: if new == "<empty>" { String::new() } else { new }, rule, why, all: flag(&ws, "all"), pre: flag(&ws, "pre") });
                    }
                    "split-arms" => f.split_arms = true,
                    "refvar" => {
                        for w in &ws[1..] {
                            f.ref_params.insert(w.clone());
                        }
                    }
                    "attr" => f.attrs.push(d.trim_start()["attr".len()..].trim().to_string()),
                    "ctxe" => f.error_context_receivers.push(ws.get(1).cloned().ok_or_else(|| err("receiver"))?),
                    "lsubst" => {
                        let rest = d.trim_start()["lsubst".len()..].trim();
                        f.subst.push(parse_subst(rest).map_err(|e| err(&e))?);
                    }
                    _ => return Err(err("unknown directive")),
                }
            }
        }
    }
    if cur.is_some() {
        return Err("unterminated //@fn (missing //@end)".to_string());
    }
    if !raw.is_empty() {
        unit.parts.push(Part::Raw(raw));
    }
    if unit.name.is_empty() {
        return Err("missing //@unit".to_string());
    }
    Ok(unit)
}
