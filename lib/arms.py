#!/usr/bin/env python3
"""arms.py — split-arm localisation (DESIGN §2 step 5).

Given an assembled unit and a function, verifies one copy of the function per leaf `match` arm with
`assume(false)` injected into every *other* leaf arm, so that each failing obligation is attributed
to the handler (arm) in which it fails.  The assumes exist only in these throw-away copies; they are
never part of the deciding run.

usage: arms.py UNIT FUNCTION [--from-line N]
"""
import json
import os
import re
import subprocess
import sys

sys.path.insert(0, os.path.dirname(os.path.abspath(__file__)))
import zv

ARM_RE = re.compile(r"^\s*((?:Ev\w*|ActorInputMessage|TargetActorOutputMessage|ActorId|Ok|Err|Some|None|IncrementalRunResult|BuildTerminationReport)\b[^=]*?)=>\s*(\{?)\s*(.*)$")


def fn_range(lines, fn):
    start = None
    ty = None
    if "::" in fn:
        ty, fn = fn.split("::")
    in_ty = ty is None
    for i, l in enumerate(lines):
        if ty is not None and re.match(r"\s*impl\b.*\b%s\b" % re.escape(ty), l):
            in_ty = True
        elif ty is not None and re.match(r"\s*impl\b", l):
            in_ty = False
        if in_ty and re.search(r"\bfn\s+%s\s*\(" % re.escape(fn), l) and start is None:
            start = i
    if start is None:
        raise SystemExit("fn %s not found" % fn)
    depth = 0
    seen = False
    for j in range(start, len(lines)):
        for c in lines[j]:
            if c == "{":
                depth += 1
                seen = True
            elif c == "}":
                depth -= 1
        if seen and depth == 0:
            return start, j
    raise SystemExit("unbalanced")


def find_arms(lines, lo, hi):
    """(line index, label, is_block) for each arm; then keep leaves only"""
    arms = []
    for i in range(lo, hi + 1):
        m = ARM_RE.match(lines[i])
        if m and "match" not in lines[i].split("=>")[0]:
            arms.append((i, m.group(1).strip(), m.group(2) == "{"))
    # extent of each arm: until matching brace (block) or same line
    out = []
    for (i, label, blk) in arms:
        if blk:
            depth = 0
            end = i
            started = False
            for j in range(i, hi + 1):
                seg = lines[j] if j > i else lines[j][lines[j].index("=>"):]
                for c in seg:
                    if c == "{":
                        depth += 1
                        started = True
                    elif c == "}":
                        depth -= 1
                        if started and depth == 0:
                            end = j
                            break
                if started and depth == 0:
                    break
            out.append((i, end, label, True))
        else:
            out.append((i, i, label, False))
    leaves = []
    for a in out:
        if not any(b is not a and a[0] <= b[0] and b[1] <= a[1] and (b[0] != a[0]) for b in out):
            leaves.append(a)
    return leaves


def kill(line, blk):
    k = line.index("=>")
    if blk:
        b = line.index("{", k)
        return line[: b + 1] + " assume(false); " + line[b + 1 :]
    rest = line[k + 2 :].rstrip()
    comma = rest.endswith(",")
    body = rest[:-1] if comma else rest
    return line[: k + 2] + " { assume(false); " + body + " }" + ("," if comma else "")


def localise(unit, fn, extra_kill_lines=()):
    d = os.path.join(zv.BUILD, unit)
    lines = open(os.path.join(d, "unit.rs")).read().split("\n")
    lo, hi = fn_range(lines, fn)
    leaves = find_arms(lines, lo, hi)
    results = {}
    for idx, (a, b, label, blk) in enumerate(leaves):
        cp = list(lines)
        for jdx, (a2, b2, l2, blk2) in enumerate(leaves):
            if jdx != idx:
                cp[a2] = kill(cp[a2], blk2)
        p = os.path.join(d, "arm_%s_%d.rs" % (fn.replace("::", "_"), idx))
        open(p, "w").write("\n".join(cp))
        r = subprocess.run(["verus", p, "--triggers-mode", "silent", "--multiple-errors", "20", "--verify-root", "--verify-function", fn, "--", "--error-format=json"], stdout=subprocess.PIPE, stderr=subprocess.PIPE, text=True, cwd=d)
        errs = []
        for l in r.stderr.split("\n"):
            if l.startswith("{"):
                try:
                    j = json.loads(l)
                except Exception:
                    continue
                if j.get("level") == "error" and not j["message"].startswith("aborting"):
                    sp = [(s["line_start"], (s["text"][0]["text"].strip()[:110] if s.get("text") else "")) for s in j["spans"]]
                    errs.append((j["message"], sp))
        results[(idx, label, a + 1)] = errs
        os.remove(p)
    return results


if __name__ == "__main__":
    unit, fn = sys.argv[1], sys.argv[2]
    res = localise(unit, fn)
    for (idx, label, line), errs in res.items():
        print("== arm %d line %d: %s -> %d errors" % (idx, line, label, len(errs)))
        for m, sp in errs:
            print("     %s" % m)
            for (ln, t) in sp:
                print("        %d | %s" % (ln, t))
