#!/usr/bin/env python3
"""zv — shared machinery of /verif/check: extract (vx) -> verify (verus) -> classify.

Exit-code discipline (DESIGN.md §2): 0 = every tagged obligation discharged, 1 = a tagged
obligation failed with a verifier counter-proof, 2 = undecided (extractor refusal, Verus did not
compile the unit, rlimit, untagged failure, vacuity guard).
"""
import hashlib
import json
import os
import re
import subprocess
import sys
import time

VERIF = os.path.dirname(os.path.dirname(os.path.abspath(__file__)))
REPO = os.environ.get("ZV_REPO", "/repo")
BUILD = os.environ.get("ZV_BUILD", os.path.join(VERIF, "build"))
VX = os.path.join(VERIF, "tools/vx/target/release/vx")
TAG_RE = re.compile(r"/\*\[([A-Za-z0-9_.,\- ]+)\]\*/")
TRUST_RE = re.compile(r"external_body|assume_specification|\baxiom\b|\bassume\s*\(|\badmit\s*\(")


class Undecided(Exception):
    pass


def sh(cmd, **kw):
    return subprocess.run(cmd, stdout=subprocess.PIPE, stderr=subprocess.PIPE, text=True, **kw)


def ensure_vx():
    src = os.path.join(VERIF, "tools/vx")
    newest = max(os.path.getmtime(os.path.join(src, "src", f)) for f in os.listdir(os.path.join(src, "src")))
    if not os.path.exists(VX) or os.path.getmtime(VX) < newest:
        env = dict(os.environ, CARGO_NET_OFFLINE="true")
        r = sh(["cargo", "build", "--release", "--offline"], cwd=src, env=env)
        if r.returncode != 0:
            raise Undecided("cannot build tools/vx:\n" + r.stderr[-3000:])


def file_sha(path):
    h = hashlib.sha256()
    with open(path, "rb") as f:
        h.update(f.read())
    return h.hexdigest()


def verus_version():
    r = sh(["verus", "--version"])
    m = re.search(r"Version: (\S+)", r.stdout)
    return m.group(1) if m else "unknown"


class UnitResult:
    def __init__(self, unit):
        self.unit = unit
        self.dir = os.path.join(BUILD, unit)
        self.refused = None  # message when vx refused
        self.compile_error = None  # message when verus did not get to verification
        self.diags = []  # list of dict(message, lines[(line,label,text)], tags, fn, src)
        self.fn_success = {}  # verus function name -> bool
        self.fn_time_us = {}
        self.tags = {}  # tag -> list of unit.rs lines carrying it
        self.degraded = {}  # repository function -> why it was emitted as its contract only
        self.forced_degrade = {}  # functions degraded because the unit did not compile with their text
        self.line_fn = {}  # unit line -> enclosing extracted item / function name
        self.items = []
        self.rules = {}
        self.trusted = []
        self.verus_ms = 0
        self.smt_ms = 0
        self.verified = 0
        self.errors = 0
        self.cached = False
        self.cmd = ""
        self.lines = []
        self.map_lines = []
        self.rlimit_fns = []
        self.portfolio = None
        self.unstable = 0

    # ---- helpers -------------------------------------------------------
    def src_of(self, line):
        if 1 <= line <= len(self.map_lines):
            v = self.map_lines[line - 1]
            if v:
                return "%s:%d" % (v[0], v[1])
        return None

    def fn_of_line(self, line):
        """name of the verus-level function enclosing a unit.rs line (best effort: nearest preceding `fn`)"""
        for i in range(line - 1, -1, -1):
            m = re.match(r"\s*(?:pub(?:\([a-z]+\))?\s+)?(?:open |closed |broadcast |uninterp )*(?:proof |spec |exec )?(?:axiom )?fn\s+([A-Za-z0-9_]+)", self.lines[i]) if i < len(self.lines) else None
            if m:
                return m.group(1)
        return None

    def tags_of_property(self, pid):
        return sorted(t for t in self.tags if t.split(".")[0] == pid)


def run_unit(unit, seed=None, rlimit=None, extra_args=None, use_cache=True, repo=None, assembled=False):
    """extract + verify one unit; returns UnitResult.

    Function-level degradation: a function vx cannot extract (lost anchor, uncovered closure, changed shape) is
    emitted as signature + contract with its tags neutralised (vx does that by itself); a function in whose text
    the assembled unit does not *compile* is degraded the same way here and the unit re-extracted (at most 4
    rounds).  Only the properties with an obligation in a degraded function become undecided (their baseline
    homes are missing); the other functions of the unit are still verified against the degraded one's contract."""
    if assembled or os.environ.get("ZV_NO_DEGRADE"):
        return _run_unit_once(unit, seed, rlimit, extra_args, use_cache, repo, assembled, None)
    degrade = {}
    res = None
    for _round in range(5):
        res = _run_unit_once(unit, seed, rlimit, extra_args, use_cache, repo, False, degrade)
        if not res.compile_error or res.refused:
            break
        culprit = None
        for d in res.diags:
            if d.get("kind", "other") not in ("other",) and "kind" in d:
                continue
            for (ln, label, txt, fname, prim) in d["spans"]:
                if not fname.endswith("unit.rs"):
                    continue
                it = next((i for i in res.items if i["kind"] == "fn" and i["unit_lines"][0] <= ln <= i["unit_lines"][1]), None)
                if it is not None and "ASSUMED" not in it.get("rules", []) and not it.get("degraded") and it["name"] not in degrade:
                    culprit = (it["name"], "the unit does not compile with the current text of this function: " + d["message"][:160].replace(";;", ";").replace("=", ":"))
                    break
            if culprit:
                break
        if not culprit:
            break
        degrade[culprit[0]] = culprit[1]
    if res is not None:
        res.forced_degrade = dict(degrade)
    return res


def _run_unit_once(unit, seed=None, rlimit=None, extra_args=None, use_cache=True, repo=None, assembled=False, degrade=None):
    ensure_vx()
    repo = repo or REPO
    res = UnitResult(unit)
    os.makedirs(res.dir, exist_ok=True)
    spec = os.path.join(VERIF, "spec", unit + ".vs")
    t0 = time.time()
    if not assembled:
        r = sh([VX, "--repo", repo, "--spec", spec, "--out", res.dir, "--prelude", os.path.join(VERIF, "prelude")] + (["--degrade", ";;".join("%s=%s" % kv for kv in degrade.items())] if degrade else []) + (["--no-degrade"] if os.environ.get("ZV_NO_DEGRADE") else []))
        if r.returncode != 0:
            res.refused = (r.stderr.strip() or r.stdout.strip() or "vx failed")[-2000:]
            return res
    unit_rs = os.path.join(res.dir, "unit.rs")
    text = open(unit_rs).read()
    res.lines = text.split("\n")
    mp = json.load(open(os.path.join(res.dir, "map.json")))
    res.map_lines = mp["lines"]
    res.items = mp["items"]
    res.degraded = {i["name"]: i["degraded"] for i in res.items if i.get("degraded")}
    res.rules = json.load(open(os.path.join(res.dir, "rules.json")))
    for i, l in enumerate(res.lines):
        for m in TAG_RE.finditer(l):
            for t in m.group(1).split(","):
                t = t.strip()
                if t:
                    res.tags.setdefault(t, []).append(i + 1)
        if TRUST_RE.search(l) and not l.strip().startswith("//"):
            res.trusted.append((i + 1, l.strip()[:160]))

    args = ["verus", unit_rs, "--output-json", "--time", "--triggers-mode", "silent", "--multiple-errors", "20"]
    if rlimit:
        args += ["--rlimit", str(rlimit)]
    if seed is not None:
        args += ["--smt-option", "smt.random_seed=%d" % seed]
    if extra_args:
        args += extra_args
    args += ["--", "--error-format=json"]
    res.cmd = " ".join(args).replace(VERIF + "/", "")
    key = hashlib.sha256((text + "\0" + " ".join(args[2:]) + "\0" + verus_version()).encode()).hexdigest()
    cache_dir = os.path.join(BUILD, "cache")
    os.makedirs(cache_dir, exist_ok=True)
    cpath = os.path.join(cache_dir, "%s-%s.json" % (unit, key[:24]))
    if use_cache and os.path.exists(cpath):
        c = json.load(open(cpath))
        out, err, rc = c["out"], c["err"], c["rc"]
        res.cached = True
    else:
        rr = sh(args, cwd=res.dir)
        out, err, rc = rr.stdout, rr.stderr, rr.returncode
        json.dump({"out": out, "err": err, "rc": rc, "key": key}, open(cpath, "w"))
    sfx = "" if seed is None else ".seed%d" % seed
    open(os.path.join(res.dir, "verus.out%s.json" % sfx), "w").write(out)
    open(os.path.join(res.dir, "verus.err%s.jsonl" % sfx), "w").write(err)
    res.wall = time.time() - t0

    # ---- parse stdout json ----
    try:
        oj = json.loads(out)
    except Exception:
        oj = None
    hard_errors = []
    for l in err.split("\n"):
        l = l.strip()
        if not l.startswith("{"):
            if l and "error" in l.lower():
                hard_errors.append(l)
            continue
        try:
            d = json.loads(l)
        except Exception:
            continue
        if d.get("level") != "error":
            continue
        msg = d.get("message", "")
        if msg.startswith("aborting due to"):
            continue
        spans = [(s["line_start"], s.get("label"), (s["text"][0]["text"] if s.get("text") else ""), s["file_name"], s.get("is_primary")) for s in d.get("spans", [])]
        res.diags.append({"message": msg, "spans": spans, "rendered": d.get("rendered", "")})
    if oj is None or "verification-results" not in oj:
        res.compile_error = "verus produced no verification results (rc=%s)\n%s" % (rc, "\n".join(x["rendered"] for x in res.diags[:10]) or err[-3000:])
        return res
    vr = oj["verification-results"]
    res.verified, res.errors = vr.get("verified", 0), vr.get("errors", 0)
    if vr.get("encountered-vir-error"):
        res.compile_error = "verus VIR error:\n" + "\n".join(x["rendered"] for x in res.diags[:10])
        return res
    tm = oj.get("times-ms", {})
    res.verus_ms = tm.get("total", 0)
    smt = tm.get("smt", {})
    res.smt_ms = smt.get("smt-run", 0)
    for m in smt.get("smt-run-module-times", []):
        for fb in m.get("function-breakdown", []):
            name = fb["function"].split("::")[-1]
            full = fb["function"]
            res.fn_success[full] = res.fn_success.get(full, True) and fb.get("success", False)
            res.fn_time_us[full] = res.fn_time_us.get(full, 0) + fb.get("time-micros", 0)
    if res.errors == 0 and rc != 0 and not res.diags:
        res.compile_error = "verus exited %s without diagnostics:\n%s" % (rc, err[-2000:])
        return res
    # a diagnostic that is not a verification failure (type error etc.) = did not compile
    VERIF_MSG = ("postcondition not satisfied", "precondition not satisfied", "assertion failed", "invariant not satisfied", "possible arithmetic", "possible division", "decreases not satisfied", "could not prove termination", "loop invariant", "Resource limit", "resource limit", "unreachable", "assertion failed", "recommendation not met", "possible bit shift", "index out of bounds", "cannot show")
    for d in res.diags:
        d["kind"] = "verification" if any(k in d["message"] for k in VERIF_MSG) else "other"
        if "esource limit" in d["message"]:
            d["kind"] = "rlimit"
    others = [d for d in res.diags if d["kind"] == "other"]
    if others and res.verified == 0 and res.errors == 0:
        res.compile_error = "unit did not compile:\n" + "\n".join(x["rendered"] for x in others[:10])
        return res
    # classify each verification diagnostic
    for d in res.diags:
        tags = set()
        unit_lines = []
        for (ln, label, txt, fname, prim) in d["spans"]:
            if fname.endswith("unit.rs"):
                unit_lines.append(ln)
                if 1 <= ln <= len(res.lines):
                    for m in TAG_RE.finditer(res.lines[ln - 1]):
                        tags.update(t.strip() for t in m.group(1).split(",") if t.strip())
        if not tags and ("could not prove termination" in d["message"] or "decreases not satisfied" in d["message"]):
            # Verus reports a termination failure at the recursive call only: the obligation is the one
            # stated by the `decreases` clause of the enclosing function, so it carries that clause's tags
            tags.update(decreases_tags(res.lines, min(unit_lines) if unit_lines else 0))
        d["tags"] = sorted(tags)
        d["unit_lines"] = unit_lines
        prim = [s for s in d["spans"] if s[4] and s[3].endswith("unit.rs")]
        pl = prim[0][0] if prim else (unit_lines[0] if unit_lines else 0)
        d["primary_line"] = pl
        d["fn"] = res.fn_of_line(pl) if pl else None
        d["src"] = None
        for ln in ([pl] + unit_lines):
            s = res.src_of(ln)
            if s:
                d["src"] = s
                break
        # where the failing *site* is (return point, call site, loop): any mapped source line
        d["src_sites"] = sorted(set(filter(None, (res.src_of(ln) for ln in unit_lines))))
        d["callee_external"] = [s[3] for s in d["spans"] if not s[3].endswith("unit.rs")]
    return res


FN_HDR_RE = re.compile(r"^\s*(pub(\([a-z]+\))?\s+)?((open|closed|proof|spec|exec|broadcast|async|const|unsafe)\s+)*fn\s+\w+")


def decreases_tags(lines, ln):
    """tags on the `decreases` clause of the function enclosing unit line `ln` (1-based)"""
    i = ln - 1
    while i >= 0 and not FN_HDR_RE.match(lines[i]):
        i -= 1
    if i < 0:
        return set()
    out, inside = set(), False
    for j in range(i, min(ln, len(lines))):
        t = lines[j].strip()
        if t == "{":
            break
        if t.startswith("decreases"):
            inside = True
        elif re.match(r"^(requires|ensures|recommends|returns|opens_invariants|no_unwind)\b", t):
            inside = False
        if inside:
            for m in TAG_RE.finditer(lines[j]):
                out.update(x.strip() for x in m.group(1).split(",") if x.strip())
    return out


def run_unit_portfolio(unit, seeds=(11, 23, 37), **kw):
    """run_unit, and when some obligation fails, re-verify the same assembled unit under other solver
    seeds: an obligation discharged under *any* seed is proved (a proof is a proof), so only the
    failures common to all runs are kept.  Guards the deciding run against Z3 instability."""
    res = run_unit(unit, **kw)
    if res.refused or res.compile_error or not res.diags:
        return res
    res.portfolio = []
    from concurrent.futures import ThreadPoolExecutor
    with ThreadPoolExecutor(max_workers=len(seeds)) as ex:
        others = list(ex.map(lambda sd: run_unit(unit, seed=sd, assembled=True, **kw), seeds))
    def key(d):
        return (d["kind"] == "rlimit", tuple(sorted(d.get("unit_lines") or [])), d["message"] if not d.get("unit_lines") else "")
    keep = res.diags
    for o in others:
        if o.refused or o.compile_error:
            continue
        ok = set(key(d) for d in o.diags)
        # an rlimit in one run does not refute a proof found in another
        keep = [d for d in keep if key(d) in ok or (d["kind"] != "rlimit" and any(x["kind"] == "rlimit" and x.get("fn") == d.get("fn") for x in o.diags))]
        res.portfolio.append({"seed": o.cmd.split("random_seed=")[-1].split()[0] if "random_seed=" in o.cmd else "?", "errors": o.errors, "smt_ms": o.smt_ms})
    dropped = len(res.diags) - len(keep)
    res.unstable = dropped
    res.diags = keep
    return res


def run_vacuity(unit, repo=None, degrade=None):
    """vacuity guard (DESIGN §9): re-extract with a probe `assert(!vac_probe(N))` at every function entry, loop
    body and live select/match arm; every probe must FAIL.  Returns (number of probes, [probes that verified])."""
    ensure_vx()
    d = os.path.join(BUILD, "vac", unit)
    os.makedirs(d, exist_ok=True)
    r = sh([VX, "--repo", repo or REPO, "--spec", os.path.join(VERIF, "spec", unit + ".vs"), "--out", d, "--prelude", os.path.join(VERIF, "prelude"), "--vacuity"] + (["--degrade", ";;".join("%s=%s" % kv for kv in degrade.items())] if degrade else []))
    if r.returncode != 0:
        raise Undecided("vacuity extraction of %s refused: %s" % (unit, r.stderr.strip()[-500:]))
    probes = json.load(open(os.path.join(d, "probes.json")))
    text = open(os.path.join(d, "unit.rs")).read()
    key = hashlib.sha256((text + "\0vac\0" + verus_version()).encode()).hexdigest()
    cpath = os.path.join(BUILD, "cache", "vac-%s-%s.json" % (unit, key[:24]))
    os.makedirs(os.path.dirname(cpath), exist_ok=True)
    if os.path.exists(cpath):
        err = json.load(open(cpath))["err"]
    else:
        rr = sh(["verus", os.path.join(d, "unit.rs"), "--triggers-mode", "silent", "--multiple-errors", "400", "--", "--error-format=json"], cwd=d)
        err = rr.stderr
        json.dump({"err": err}, open(cpath, "w"))
    failed = set()
    other_errors = []
    for l in err.split("\n"):
        if not l.startswith("{"):
            continue
        try:
            dj = json.loads(l)
        except Exception:
            continue
        if dj.get("level") == "error" and not any(k in dj.get("message", "") for k in ("assertion failed", "aborting due to", "postcondition not satisfied", "precondition not satisfied", "invariant not satisfied", "could not prove termination", "esource limit", "possible arithmetic", "decreases not satisfied")):
            other_errors.append(dj.get("message", ""))
        if dj.get("level") == "error" and "assertion failed" in dj.get("message", ""):
            for sp in dj.get("spans", []):
                for t in sp.get("text", []):
                    for m in re.finditer(r"vac_probe\((\d+)\)", t.get("text", "")):
                        failed.add(int(m.group(1)))
    if other_errors and not failed:
        raise Undecided("the vacuity extraction of %s did not compile: %s" % (unit, other_errors[0][:200]))
    unreached = [p for p in probes if p["n"] not in failed]
    return len(probes), unreached


def print_dev(res):
    if res.refused:
        print("REFUSED:", res.refused)
        return
    if res.compile_error:
        print("COMPILE ERROR:\n" + res.compile_error)
        return
    if getattr(res, "degraded", None):
        print("!! DEGRADED functions (contract only, not verified): %s" % {k: v[:160] for k, v in res.degraded.items()})
    print("unit %s: verified=%d errors=%d verus=%dms smt=%dms cached=%s" % (res.unit, res.verified, res.errors, res.verus_ms, res.smt_ms, res.cached))
    for d in res.diags:
        print("-- [%s] %s tags=%s fn=%s src=%s" % (d["kind"], d["message"], d.get("tags"), d.get("fn"), d.get("src")))
        for (ln, label, txt, fname, prim) in d["spans"]:
            print("     %s:%d %s | %s" % (os.path.basename(fname), ln, label or "", txt.strip()[:140]))
    slow = sorted(res.fn_time_us.items(), key=lambda kv: -kv[1])[:5]
    print("slowest:", ", ".join("%s=%.1fs" % (k.split("::")[-1], v / 1e6) for k, v in slow))
    print("tags:", len(res.tags), "obligation lines:", sum(len(v) for v in res.tags.values()))


if __name__ == "__main__":
    if len(sys.argv) >= 3 and sys.argv[1] == "unit":
        r = run_unit(sys.argv[2], use_cache="--no-cache" not in sys.argv)
        print_dev(r)
