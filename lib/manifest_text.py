"""texts of MANIFEST.json entries (kept apart from the machinery)"""
CATEGORY = {"C15": "model_checking", "C19": "model_checking"}
NOTES = "Contract-based deductive verification of the real code: tools/vx copies the functions each property depends on out of /repo/src by span on every run, applies the logged rewrite rules of DESIGN.md section 3, splices in the contracts of spec/*.vs and Verus discharges one obligation set per function. Exit 2 = undecided (never an alarm). Fix commits in /repo: see known_findings.json."
NA = {
    "C17": "no contract can express that two tasks overlap in time or that one task's progress does not wait on another's: it is a statement about the executor and wall-clock, which rule R1 (.await removed) drops by construction and for which neither Verus nor Kani has a model (DESIGN.md section 7, C17)",
}
TEXT = {
    "C01": {
        "level": "Proof, for every dependency set and every sequence of delivered events: loop invariants of the three actor loops (pending set == function of the delivery log; a start only when the latest word of every dependency, both kinds, is Ok; Ok is only told in a state reached by a successful, not-invalidated run / spawn / empty pending set; every message carries the sender's id). An inductive invariant over an arbitrary event sequence covers every interleaving and graph, which tests cannot.",
        "note": "Assumed: channel FIFO/lossless (A-chan), derived Hash/Eq/Clone (A-hash, A-clone), vstd std specs + HashMap::get_mut (A-std), process stubs (A-proc), R1 (await dropped), R16 (case split per select arm). From per-actor invariants to the whole-run statement: composition argument DESIGN section 8 (A-bridge), mechanised only as far as the COMP lemmas go.",
    },
}
