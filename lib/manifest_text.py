"""texts of MANIFEST.json entries (kept apart from the machinery)"""
CATEGORY = {}
NOTES = "Contract-based deductive verification of the real code: tools/vx copies the functions each property depends on out of /repo/src by span on every run, applies the logged rewrite rules of DESIGN.md section 3, splices in the contracts of spec/*.vs and Verus discharges one obligation set per function. Exit 2 = undecided (never an alarm). Fix commits in /repo: see known_findings.json."
NA = {
    "C17": "no contract can express that two tasks overlap in time or that one task's progress does not wait on another's: it is a statement about the executor and wall-clock, which rule R1 (.await removed) drops by construction and for which neither Verus nor Kani has a model (DESIGN.md section 7, C17)",
}
INC_NOTE = "Assumed: the ghost world (A-fs: directory listing, metadata, file contents are functions of an instant; walkdir, is_file and the .zinoma pruning are not verified), A-codec (bincode decodes exactly what was fully written; SeaHasher is a function of the bytes), A-cmd (commands used as resources do not modify declared files), A-all (async_utils::all/both, join, try_join_all, Result::map, collect; the closures themselves are outlined and verified), vstd std specs + Borrow<Path> for PathBuf (A-std), R1."
ACT_NOTE = "Assumed: channel FIFO/lossless and oracle contracts of the select! arms (A-chan), derived Hash/Eq/Clone (A-hash, A-clone), vstd std specs + HashMap::get_mut/remove_entry/HashSet::clone (A-std), process stubs (A-proc), R1 (await dropped), R16 (case split per select arm). From per-actor invariants to the whole-run statement: composition argument DESIGN section 8 (A-bridge)."
TEXT = {
    "C01": {
        "level": "Proof, for every dependency set and every sequence of delivered events: loop invariants of the three actor loops (pending set == function of the delivery log; a start only when the latest word of every dependency, both kinds, is Ok; Ok is only told in a state reached by a successful, not-invalidated run / spawn / empty pending set; every message carries the sender's id), and the relay forwards every message unchanged to the actor launched for its addressee. An inductive invariant over an arbitrary event sequence covers every interleaving and graph, which tests cannot.",
        "note": ACT_NOTE,
    },
    "C02": {
        "level": "Proof, for every resource declaration and every world: incremental::run returns Skipped only if a decodable record existed and, against it, the listed file set has the same cardinality and every listed file is recorded (hence the sets are equal - lemma), each file still has the recorded mtime or the recorded hash of its whole content (the hash loop is proved to consume the file to the end), every command still prints the recorded text, for inputs and for outputs; the script is not awaited. The world is a ghost snapshot with no assumption relating it before and after a script, so 'every sequence of file-system operations between two runs' is the universally quantified default.",
        "note": INC_NOTE,
    },
    "C03": {
        "level": "Proof of the safety half: after a Completed run whose state could be computed and stored, the record is exactly the state of the inputs as they were before the script started and of the outputs after it; a record that is the state of the current world compares as unchanged (reflexivity, per file and per command, with the command key distinguishing directory and text); a target without input is never skipped.",
        "note": INC_NOTE + " The cross-process statement is a lemma over these two contracts under A-codec.",
    },
    "C04": {
        "level": "Proof of the safety skeleton of termination, for every graph and interleaving: AckInv (every registered requester has been told the current truth, also one registering after completion), the start guard is exactly the stated condition, the first requester makes the actor request every dependency, the relay forwards every message, root sets shrink exactly on the matching Ok, the loop exits exactly on termination or both sets empty, relay-side inbox sends never block (wait-for discipline), no unwrap/index can panic. A lost wake-up or queue dead-lock is a reachable state violating one of these. Liveness itself (fairness, script termination) is not claimed.",
        "note": ACT_NOTE + " Not covered: executor fairness, that scripts terminate, any time bound.",
    },
    "C05": {
        "level": "Proof with crash points as preconditions: awaiting the build future requires that no record exists for the target (so at every instant between deciding to run and finishing the write there is no decodable record: File::create truncates first, a failed or partial serialisation leaves Garbage); on Err or Cancelled either no record exists or the build was not started and the record is the old one or was dropped as corrupt; an undecodable record yields None and is deleted, with no unwrap; build_target returns Completed only for a successful exit status, Cancelled only after a cancellation message; a failed run is never acknowledged.",
        "note": INC_NOTE + " " + ACT_NOTE + " Assumed for crash points: A-codec prefix-freeness (a partial write does not decode), the kernel does not reorder the unlink after the script's start.",
    },
    "C06": {
        "level": "Proof of the safety obligations behind convergence: an invalidation sets to_execute and tells every requester; a pending invalidation is never cleared except by a start (also not by a failure); a run invalidated in flight is not acknowledged; dependency invalidation is recorded before anything else; the watch relay forwards every message and does not return on a failure. Convergence as liveness is not claimed.",
        "note": ACT_NOTE + " Not covered: that the re-run eventually happens; notify's delivery guarantees; record-precedes (INC) and the event filter (WCH) are added by those units.",
    },
    "C07": {
        "level": "Proof: a non-zero exit status or spawn failure is an Err; the Err branch reports TargetExecutionError with the actor's own id, sends no Ok and leaves the target not executed and not re-armed; execute_once returns Err on it, watch does not return on it; with C01 a dependent of a failed target never has all words Ok.",
        "note": ACT_NOTE + " Not covered: the text of the error message.",
    },
    "C08": {
        "level": "Proof of 'at most once' and 'only launched from the resolved map': a start requires to_execute and clears it, starts <= 1 + invalidation stimuli received, a single build in flight (Fuse::set requires the fuse idle), no Invalidated is ever sent without a stimulus and no watcher exists in one-shot mode, an actor is launched at most once and only for an id of the resolved map, duplicate requests change nothing.",
        "note": ACT_NOTE + " 'At least once' is C04's liveness. 'Only the closure is loaded' is C09 (CFG unit).",
    },
    "C09": {
        "level": "Proof, for every configuration and request: try_into_domain_targets returns Ok(m) only if every root is a key of m, every dependency (declared or implied by X.output) of every key is a key (closedness), m is keyed by each target's own id, every X.output producer is a build target; a missing project or target gives Err; a target that is its own ancestor gives Err; cleaning and the engine receive only the resolved map (the main block is outlined with the resolved map as its only view of the configuration). The resolver terminates on every graph, cyclic or not (decreases measure: yaml targets not yet taken out of the configuration; Verus proves every recursive call strictly decreases it). Conversely the map holds nothing else: every key is reachable from a requested root through dependencies of resolved targets (declared or X.output), and a recursive call never adds a target of its own ancestor chain.",
        "note": "Assumed: transform_target's contract (id, parsed dependency lists, producers of X.output inputs; A-yaml), derived Hash/Eq/Clone, vstd std specs + get_mut/remove_entry, slice contains/concat stubs (A-std, A-all).",
    },
    "C10": {
        "level": "Proof of the resource half: build_target waits for (and on cancellation kills) the child on every return path; stop_service leaves no child un-killed/un-waited and the service actor ends with it; a build actor leaves its loop only with no build in flight and after a cancellation was sent; terminate() sends a termination message to every launched actor and joins every task; both relay loops leave after the termination arm; relay sends cannot block. Promptness is not claimed.",
        "note": ACT_NOTE + " Not covered: any latency bound; grandchildren of the shell; the signal-handler task.",
    },
    "C11": {
        "level": "Proof: execute_once returns Ok without awaiting termination exactly when termination was received or no root reported an actual service; a root counts as service root iff its Ok{Service} had actual; build actors answer service requests with actual=false, service actors with true, aggregates with 'some dependency reported actual'; at most one child of a service actor is live and restart stops before it spawns; the service actor ends with its child killed and waited.",
        "note": ACT_NOTE,
    },
    "C12": {
        "level": "Proof of a frame condition over a ghost deletion log, for every target map and flag combination: every deletion made by the clean part of main is (a) a file of the listing of an output resource with extensions, (b) a declared output path of a resource without extensions, (c) the state file of a target of the resolved map (only with --clean T...), or (d) <project_dir>/.zinoma of a loaded project (only with --clean alone); without --clean nothing is deleted; with --clean alone the engine is not started; delete_saved_env_state removes exactly the target's own record (INC), so by C02.needs-record a cleaned target cannot be skipped.",
        "note": "Assumed: the listing function and remove_file/remove_dir_all as ghost-world operations, in particular that neither follows symbolic links (A-fs); clap flags (A-clap); derived Hash/Eq (A-hash); vstd specs incl. HashMap::values iteration (A-std).",
    },
    "C13": {
        "level": "Proof for the resolver half: every X.output producer is appended to the consumer's dependencies (so it is built first: C01), is a build target, and the consumer's input files and commands become exactly its own followed by each producer's output resources in order, taken from the resolved producer (whose paths and command directories are already bound to its own project); Resources::extend keeps order and drops nothing. Decision half: C02/C03 obligations quantify over arbitrary resource lists, so they cover inherited ones; the command key distinguishes directory and text; get_cmd_stdout runs in the resource's own directory.",
        "note": "transform_target / transform_input / transform_output and their closures are under contract (every declared path is joined to the declaring project's directory, every command resource carries that directory). Assumed: Path::join as an uninterpreted function, the fold/try_fold/map-collect adapters (A-all), A-fs, A-cmd, A-codec.",
    },
    "C14": {
        "level": "Proof of the uniqueness/determinism half only: yaml::Config::load returns Ok only if no two loaded projects carry the same name; an import is accepted only if the imported project has a name equal to the import key; the name-keyed project map built from the loaded projects maps every project's name to a loaded project of that name. Totality and strictness of parsing are not applicable (third-party parser, no contract in reach).",
        "note": "Assumed: load_project / canonicalize_dir (A-yaml), collect into a HashMap (A-all), String extensionality, vstd specs.",
    },
    "C15": {
        "level": "Proof, for every tree, path list and extension list, over strings as character sequences: list_files_in_path returns exactly the regular files at or below the path that are not inside a directory named .zinoma (at or below that path) and whose file name ends with one of the extensions (no extension set = no filter; a path without file name never matches a filter); items the walk reports as errors (a missing path) contribute nothing; list_files_in_paths / list_files_in_resources return the union; transform_extensions drops empty entries, adds a missing leading dot, and turns an empty result into 'no filter'; the checksum state (current / eq_current_state) and cleaning range over exactly the listing; the watcher's filter is the same extension function and, for a file found by the walk, the same .zinoma test - except in the two recorded findings (a regular file itself named .zinoma; a listed path that itself lies below a directory named .zinoma), which are printed as KNOWN-FINDING on every run.",
        "note": "Assumed: walkdir (every entry at or below the root, parents first, links not followed, filter_entry prunes an entry with everything below it, an entry's path is the root path followed by the names down to it), Path::is_file as 'regular file' (follows links), the tree does not change during one walk (A-fs, A-walkdir); str ends_with/starts_with/==, format!(\".{}\"), OsStr::to_str/to_string_lossy, Path::file_name/components with the contracts written in spec/FS.vs (A-str); the iterator chains any / filter-map-collect / filter_entry-filter_map-collect / join_all-flatten-collect as stubs restating the chain over the verified closures, the Option adapters replaced by their definition (A-adapters). The closures themselves (13) are outlined mechanically and verified. Not covered: byte-level UTF-8 decoding, symlink loops, the order of the listing.",
    },
    "C16": {
        "level": "Proof, for every path and event: is_tmp_editor_file is total (no unwrap: a path without file name is not a temporary; non-UTF-8 names are decoded lossily) and equals `*~` or (`.*` and (`*.swp` or `*.swx`)); the event filter is exactly not-temporary and not-under-.zinoma and extension-match; a notify error or an event without relevant path sends nothing, an event with a relevant path does exactly one try_send whose full-slot result is not an error; a missing watched path is skipped, every declared path is handed to notify.",
        "note": "Assumed: str/Path predicates as uninterpreted functions in this unit (A-str; the FS unit of C15 proves which functions is_in_work_dir and matches_extensions are), notify delivers events for paths existing at watch() time (A-notify), iterator adapters filter/collect (A-all), capacity-1 channel try_send (A-chan).",
    },
    "C18": {
        "level": "Proof (frame conditions): incremental::run, delete_saved_env_state and save_env_state change the state store at the target's own path only, and that path is a function of (project_dir, target id) only; the skip decision is a function of the record at that path and of the world restricted to the target's own resources (nothing else is read by the contracted functions).",
        "note": INC_NOTE + " Not covered: injectivity of the file-name formatting; that project_dir is canonical (load path).",
    },
    "C19": {
        "level": "Proof for the resolution half: both reference kinds of a target (`dependencies:` and `X.output` inputs) are parsed with the referencing target's own project as the default project (so a bare reference always means a target of that same project and equal names in different projects do not interfere); the root project name used for command-line names is the name of the project at the root directory; the resolved map is keyed by each target's own id, so asking for a target twice inserts it once. TargetId::try_parse itself is under contract over character sequences: the text is split at `::`; one piece -> that target of the current project, two -> (project, target), anything else -> rejected; a text without `::` always means the current project (lemma from the defining facts of split); try_parse_many is the element-wise result.",
        "note": "Assumed: str::split with its three defining facts and to_owned (A-str); in the CFG unit try_parse is the function parse_ref, re-validated by the DOM unit whenever its text changes; the regex of X.output entries (A-yaml), A-hash/A-clone/A-std/A-all as for C09.",
    },
    "C20": {
        "level": "Proof: an aggregate asks every dependency on the first requester of a kind, acknowledges upward exactly when nothing of that kind is pending (also at once for an empty aggregate or a late requester), reports actual = some dependency reported actual, forwards invalidation only after a stimulus, never executes anything itself.",
        "note": ACT_NOTE + " Not covered: the metamorphic comparison of two real invocations (composition lemma in COMP).",
    },
}
