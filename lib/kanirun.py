"""kanirun.py — the bounded stand-in (DESIGN §7 C15/C19, §15.6): verbatim copies of the byte/str predicates of
/repo, Kani harnesses with stated bounds.  Never counted as proved; level `model_checking`.

A harness result is reused from the committed `spec/kani_results.json` only when the SHA-256 of the generated
harness crate source (verbatim function texts + harnesses) and the Kani version are the ones it was produced
with; otherwise the harness is run.  Out of memory / time-out = undecided, never an alarm."""
import hashlib
import json
import os
import re
import subprocess
import time

import zv

VERIF = zv.VERIF
RESULTS = os.path.join(VERIF, "spec", "kani_results.json")
CRATE = os.path.join(VERIF, "kani")

# harness -> (property tags it decides, bound as stated in the evidence)
HARNESSES = {
    "matches_extensions_total": (["C15.ext-match"], "file names of <= 3 arbitrary bytes (incl. invalid UTF-8), extension set {.a}; unwind 12"),
    "matches_extensions_spec_ascii": (["C15.ext-match"], "file names of 1..4 characters over {'.','a','b'}, extension set {.a,.ab}; unwind 12"),
    "transform_extensions_spec": (["C15.ext-normalise"], "<= 2 entries of <= 2 characters over {'.','a'}; unwind 8"),
    "is_in_work_dir_spec": (["C15.workdir"], "paths of 1..3 components drawn from {.zinoma,.zinomb,x,..}, absolute or relative; unwind 8"),
    "tmp_file_total_3_bytes": (["C16.total"], "file names of <= 3 arbitrary bytes (incl. invalid UTF-8); unwind 12"),
    "tmp_file_spec_ascii": (["C16.tmp"], "file names of 4..5 characters over {'.','~','s','w','p','x'}; unwind 12"),
    "try_parse_spec": (["C19.parse"], "target names of <= 5 characters over {'a',':'}; unwind 10"),
}


def kani_version():
    r = subprocess.run(["cargo", "kani", "--version"], stdout=subprocess.PIPE, stderr=subprocess.STDOUT, text=True)
    return r.stdout.strip().split("\n")[0]


def generate(repo=None):
    """vx copies the functions verbatim; returns (source text, key) or raises zv.Undecided"""
    zv.ensure_vx()
    out = os.path.join(zv.BUILD, "KANI")
    os.makedirs(out, exist_ok=True)
    r = zv.sh([zv.VX, "--repo", repo or zv.REPO, "--spec", os.path.join(VERIF, "spec", "KANI.vs"), "--out", out, "--prelude", os.path.join(VERIF, "prelude")])
    if r.returncode != 0:
        raise zv.Undecided("KANI: extractor refused: " + (r.stderr.strip() or r.stdout.strip())[-800:])
    text = open(os.path.join(out, "unit.rs")).read() + "\nfn main() {}\n"
    key = hashlib.sha256((text + "\0" + kani_version()).encode()).hexdigest()
    return text, key


def run_harness(name, text, timeout=1800):
    """runs one harness in a scratch copy of the crate; returns dict(result, secs, detail)"""
    import shutil
    import tempfile
    tmp = tempfile.mkdtemp(prefix="zv-kani-", dir="/var/tmp")
    try:
        shutil.copy(os.path.join(CRATE, "Cargo.toml"), tmp)
        os.makedirs(os.path.join(tmp, "src"))
        open(os.path.join(tmp, "src", "main.rs"), "w").write(text)
        env = dict(os.environ, CARGO_NET_OFFLINE="true")
        t0 = time.time()
        try:
            r = subprocess.run(["cargo", "kani", "--harness", name], cwd=tmp, stdout=subprocess.PIPE, stderr=subprocess.STDOUT, text=True, env=env, timeout=timeout)
            out = r.stdout
        except subprocess.TimeoutExpired as e:
            return {"result": "TIMEOUT", "secs": round(time.time() - t0), "detail": "no answer within %d s" % timeout}
        secs = round(time.time() - t0)
        if "out of memory" in out:
            return {"result": "OOM", "secs": secs, "detail": "CBMC ran out of memory"}
        m = re.search(r"VERIFICATION:- (\w+)", out)
        res = m.group(1) if m else "UNKNOWN"
        checks = re.search(r"\*\* (\d+) of (\d+) failed", out)
        failed = [l.strip() for l in out.split("\n") if l.startswith("Failed Checks:")][:5]
        return {"result": res, "secs": secs, "checks": int(checks.group(2)) if checks else None, "failed_checks": failed, "detail": "\n".join(out.split("\n")[-25:]) if res != "SUCCESSFUL" else ""}
    finally:
        shutil.rmtree(tmp, ignore_errors=True)


def decide(tags_wanted, force=False, allow_run=True, required=False):
    """returns (results per harness, failing [(tag, harness, info)], undecided [str], key)"""
    text, key = generate()
    cache = zv_load(RESULTS)
    res = {}
    failing, undecided = [], []
    for h, (tags, bound) in HARNESSES.items():
        if not any(t in tags_wanted for t in tags):
            continue
        if h not in text:
            undecided.append("KANI: harness %s not generated" % h)
            continue
        c = cache.get(h)
        if c and c.get("key") == key and not force:
            info = dict(c, reused=True)
        elif allow_run:
            info = run_harness(h, text)
            info["key"] = key
            info["reused"] = False
        else:
            if required:
                undecided.append("KANI: %s has no result for the current function texts (run the thorough tier)" % h)
            else:
                res[h] = {"result": "NOT-RUN", "reused": False, "bound": bound, "tags": tags, "detail": "no recorded result for the current function texts; the quick tier does not run Kani"}
            continue
        info["bound"] = bound
        info["tags"] = tags
        res[h] = info
        if info["result"] in ("SUCCESSFUL", "NOT-RUN"):
            pass
        elif info["result"] == "FAILED":
            for t in tags:
                if t in tags_wanted:
                    failing.append((t, h, info))
        else:
            undecided.append("KANI: harness %s: %s (%s)" % (h, info["result"], info.get("detail", "")[:200]))
    return res, failing, undecided, key


def zv_load(p):
    try:
        return json.load(open(p))
    except Exception:
        return {}


def record(results):
    """dev command: store results in the committed cache (python3 lib/kanirun.py record h1 h2 ...)"""
    cache = zv_load(RESULTS)
    for h, info in results.items():
        cache[h] = {k: info[k] for k in ("key", "result", "secs", "checks") if k in info}
        cache[h]["kani"] = kani_version()
    json.dump(cache, open(RESULTS, "w"), indent=1, sort_keys=True)


if __name__ == "__main__":
    import sys
    if len(sys.argv) >= 2 and sys.argv[1] == "record":
        names = sys.argv[2:] or list(HARNESSES)
        text, key = generate()
        out = {}
        for h in names:
            info = run_harness(h, text)
            info["key"] = key
            print(h, info["result"], info["secs"], "s")
            if info["result"] in ("SUCCESSFUL", "FAILED"):
                out[h] = info
        record(out)
