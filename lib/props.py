"""Static description of the claimed properties: which units decide them, the claimed level, and the
assumptions that stay unchecked (DESIGN.md §4, §7).  Tags are discovered from the assembled units; the
committed baseline (spec/baseline.json) pins the tags that must exist."""

# unit -> default tag for an untagged precondition failure whose callee is outside the unit
# (vstd's `unwrap`, indexing, ...): a panic in that code is what the tag's property forbids.
NOPANIC_TAG = {
    "UTIL": ["C05.corrupt", "C04.nopanic"],
    "ACT": "C04.nopanic",
    "RELAY": "C04.nopanic",
    "BLD": "C04.nopanic",
    "WCH": "C16.total",
    "FS": "C15.total",
    "DOM": "C19.total",
    "INC": ["C05.corrupt", "C04.nopanic"],  # incremental::run runs inside the build actor's task: a panic there is a lost wake-up
    "CFG": "C14.nopanic",
    "CLN": "C12.nopanic",
}

ASSUME = {
    "A-hash": "A-hash: derived Hash/Eq of TargetId, ActorId, ExecutionKind, PathBuf obey the hash-key model (broadcast axioms)",
    "A-clone": "A-clone: derived Clone returns an equal value (external_body impls replacing the derive, R10)",
    "A-std": "A-std: vstd's specifications of HashMap/HashSet/Vec/Option/Result, plus ours for HashMap::get_mut, HashSet::clone (prelude/std_ext.rs)",
    "A-chan": "A-chan: async-std channels are FIFO per sender/receiver pair, lossless, no duplication or fabrication; an inbox yields Some while the relay holds its sender; the invalidation arm fires only when a watcher holds the sender",
    "A-exec": "A-exec: async-std runs every spawned task and select! polls every arm (liveness only; never used to discharge an obligation)",
    "A-proc": "A-proc: Command::spawn fails or adds exactly one live child; kill requests termination; status().await waits for the child",
    "A-fs": "A-fs: directory listing, metadata, file contents, remove/create are the ghost world's functions (walkdir, is_file, .zinoma pruning are not verified)",
    "A-codec": "A-codec: bincode decoding under a byte limit no larger than the file is total and returns Ok(s) iff the bytes are encode(s) (without such a limit it may panic on a corrupted length prefix - reproduced - which is why the decoder stub carries the precondition C05.corrupt-bounded); encode is injective and prefix-free; SeaHasher is a function of the bytes written",
    "A-cmd": "A-cmd: running build_command(script, dir) yields the world's cmd(dir, script)",
    "A-all": "A-all: iterator adapters and future combinators at the call sites — map/filter/collect, future::join / try_join_all, Result::map, and_then — behave as their names say (one result per element in order; fold of insert); the per-element closures are outlined and verified (R13); async_utils::both and ::all themselves are verified in the UTIL unit against futures-as-values (select yields either side first; buffer_unordered yields in any order)",
    "A-clap": "A-clap: clap's ArgMatches::is_present is an uninterpreted predicate of the flag name",
    "A-str": "A-str: strings are their character sequences (vstd view); str ends_with / starts_with / == / split / to_owned, format!(\".{}\"), OsStr::to_str / to_string_lossy (total), Path::file_name / components carry the contracts written in spec/FS.vs and spec/DOM.vs; in the WCH unit the same predicates are uninterpreted functions (FS proves which functions is_in_work_dir and matches_extensions are)",
    "A-walkdir": "A-walkdir: walkdir yields every entry at or below the root (root included), parents before children, links not followed; filter_entry(p) skips an entry for which p is false together with everything below it; an entry's path is the root path followed by the names down to it; the root entry is named by the last normal component of the root path; items reported as errors carry no entry",
    "A-adapters": "A-adapters (FS unit): Option::map/filter/is_some_and/is_none_or/unwrap_or and spawn_blocking(f).await are replaced at their site by their definition over the outlined closures; Iterator::any, filter().map().collect(), filter_entry().filter_map().collect() and join_all(..).flatten().collect() by stubs restating the chain's documented meaning in terms of the outlined closure's contract; every site text is pinned by its skeleton",
    "A-kani": "A-kani (bounded stand-in): async_std::path::Path is std::path::Path; anyhow!'s text is dropped; results hold within the stated bounds only",
    "A-notify": "A-notify: notify calls the handler for every event under a watched path that existed at watch() time; watch() on a path that does not exist fails with PathNotFound or with Io(NotFound), depending on the back end (inotify: the latter - reproduced), and any other failure is a hard error",
    "A-yaml": "A-yaml: serde_yaml / clap parsing are not modelled; load_project is an arbitrary function returning Result<Project>",
    "A-arith": "A-arith: machine integers; Verus checks overflow on the usize/u64 arithmetic in scope",
    "A-bridge": "A-bridge: the projection of a real execution onto one actor is a run of that actor's verified loop with the oracle's choices (DESIGN §8); not mechanised",
    "R1": "R1: `.await` removed — asynchrony inside a handler is dropped; blocking is covered only by the wait-for obligation C04.nonblocking",
    "R16": "R16: handler loops are verified as one copy per select!/match arm (sound case split; arm_verified_in_another_copy is `ensures false` by construction)",
}

INCA = ["A-hash", "A-clone", "A-std", "A-fs", "A-codec", "A-cmd", "A-arith", "A-all", "R1"]
CFGA = ["A-hash", "A-clone", "A-std", "A-yaml", "A-all"]
FSA = ["A-walkdir", "A-str", "A-adapters"]
ACTORS = ["A-hash", "A-clone", "A-std", "A-chan", "A-proc", "A-bridge", "R1", "R16"]
PROPS = {
    "C01": {"units": ["ACT", "RELAY", "CFG", "BLD"], "level": "proof", "assume": ACTORS},
    "C04": {"units": ["ACT", "RELAY", "CLN", "INC"], "level": "proof", "assume": ACTORS + ["A-exec"],
            "not_covered": ["not covered: liveness itself (executor fairness, that scripts terminate, any time bound) - only the safety skeleton of termination is proved"]},
    "C02": {"units": ["INC", "UTIL", "FS", "CFG"], "level": "proof", "assume": INCA + FSA,
            "not_covered": ["not covered: hash collisions (the record holds a hash of the content), the directory walk itself (A-fs), timestamp granularity"]},
    "C03": {"units": ["INC", "UTIL", "FS", "CFG"], "level": "proof", "assume": INCA + FSA,
            "not_covered": ["not covered: 're-running executes no script' across two processes is the conjunction of C03.record at the end of run 1 and C03.reflexive at the start of run 2 under A-codec, not a two-process experiment; a read error on the state file forces a rebuild"]},
    "C05": {"units": ["INC", "BLD", "ACT"], "level": "proof", "assume": INCA + ["A-chan", "A-proc", "R16"]},
    "C06": {"units": ["ACT", "RELAY", "INC", "WCH", "CLN"], "level": "proof", "assume": ACTORS + ["A-notify", "A-fs", "A-codec"],
            "not_covered": ["not covered: convergence as a liveness statement; notify's delivery guarantees"]},
    "C07": {"units": ["BLD", "ACT", "RELAY", "CLN", "CFG"], "level": "proof", "assume": ACTORS,
            "not_covered": ["not covered: the text of the error message"]},
    "C08": {"units": ["ACT", "BLD", "RELAY", "CLN", "CFG", "INC"], "level": "proof", "assume": ACTORS,
            "not_covered": ["not covered: 'at least once' is C04's liveness"]},
    "C09": {"units": ["CFG", "CLN", "DOM"], "level": "proof", "assume": CFGA,
            "not_covered": ["not covered: YAML -> yaml::Project (A-yaml); str::split behind reference parsing (DOM unit, three assumed facts); termination of the import loader add_project (depends on the file system being finite; A-yaml)"]},
    "C10": {"units": ["BLD", "ACT", "RELAY", "CLN"], "level": "proof", "assume": ACTORS,
            "not_covered": ["not covered: any latency bound; grandchildren of the shell; the hand-off from the signal handler task"]},
    "C11": {"units": ["ACT", "RELAY", "CLN"], "level": "proof", "assume": ACTORS},
    "C12": {"units": ["CLN", "INC", "FS", "CFG"], "level": "proof", "assume": ["A-hash", "A-std", "A-fs", "A-clap", "R1"] + FSA,
            "not_covered": ["not covered: what remove_dir_all and the directory walk do with symbolic links (A-fs); clap argument parsing"]},
    "C13": {"units": ["CFG", "INC", "WCH", "FS"], "level": "proof", "assume": CFGA + ["A-fs", "A-codec", "A-cmd"] + FSA,
            "not_covered": ["not covered: Path::join itself (an uninterpreted function of directory and relative text); the regex that recognises X.output entries (A-yaml)"]},
    "C14": {"units": ["CFG", "CLN"], "level": "proof", "assume": CFGA,
            "not_covered": ["not applicable within C14: totality and strictness of parsing (serde_yaml, derive attributes, regexes) - third-party parser code with no contract within reach; only the uniqueness / import-name / injectivity half is proved"]},
    "C15": {"units": ["FS", "INC", "CLN", "WCH", "CFG"], "level": "proof", "assume": ["A-std", "A-hash", "A-fs", "A-walkdir", "A-str", "A-adapters", "R1"],
            "not_covered": ["not covered: byte-level UTF-8 decoding of names (to_string_lossy / to_str are assumed total functions), symlink loops, the order of the listing, notify itself (C16)"]},
    "C16": {"units": ["WCH", "RELAY", "FS"], "level": "proof", "assume": ["A-std", "A-chan", "A-notify", "A-str", "A-all", "A-walkdir", "A-adapters"],
            "not_covered": ["not covered: notify itself, recursion into directories created later; the byte-level UTF-8 decoding behind to_string_lossy (assumed total)"]},
    "C18": {"units": ["INC", "CFG", "DOM"], "level": "proof", "assume": INCA + ["A-yaml"],
            "not_covered": ["not covered: injectivity of the state-file name formatting (string reasoning); that dunce::canonicalize returns one name per directory (assumed contract of canonicalize_dir, whose text is fingerprinted)"]},
    "C19": {"units": ["CFG", "DOM", "CLN"], "level": "proof", "assume": CFGA + ["A-str"],
            "not_covered": ["not covered: list_all_available_target_names (iterator chains over string maps); str::split itself (assumed with its three defining facts: at least one piece, joining gives the text back, no piece contains the separator)"]},
    "C20": {"units": ["ACT", "RELAY", "CFG", "CLN"], "level": "proof", "assume": ACTORS + ["A-clap", "A-fs"],
            "not_covered": ["not covered: the metamorphic comparison of two real invocations"]},
}

# assumed function of some unit -> the unit that verifies its body (and its closures) against a contract from which
# every assumed contract of that function follows (INC/CLN/WCH/CFG only assume "is the function <uninterpreted>" of
# its arguments and the tree; FS proves which function).  A changed text of such a function is then re-validated by
# that unit's obligations instead of making the assuming unit undecided.
VALIDATED_BY = {
    "list_files_in_path": "FS", "list_files_in_paths": "FS", "list_files_in_resources": "FS",
    "is_in_work_dir": "FS", "matches_extensions": "FS", "transform_extensions": "FS",
    "TargetId::try_parse": "DOM", "TargetId::try_parse_many": "DOM",
}

PLANNED = ["C%02d" % i for i in range(1, 21)]
