"""lib/residual.py - fingerprint of the repository text that is under NO contract (DESIGN 16.5).

For every file of /repo/src, the lines not covered by an item that some unit extracts (function under contract, outlined
closure, assumed function - those have their own fingerprints -, copied type) are normalised (blank and comment-only
lines dropped, trailing blanks stripped) and hashed.  The committed spec/residual.json holds the hashes of the tree the
contracts were written for.  A file whose residual hash differs holds changed code that no obligation speaks about: the
deductive verdict is unaffected by it (it never depended on that text), but the properties anchored in that file get
their bounded stand-in run, so that a change to, say, the serde attributes of the schema or to the signal handler is
at least executed against the property's concrete cases."""
import hashlib
import json
import os
import subprocess
import tempfile
import shutil

import zv

UNITS = ["ACT", "BLD", "RELAY", "INC", "WCH", "CLN", "CFG", "UTIL", "FS", "DOM"]
RESIDUAL = os.path.join(zv.VERIF, "spec", "residual.json")
# files every property is taken to depend on (entry point, command line, how scripts are started)
COMMON = ["src/main.rs", "src/cli.rs", "src/run_script.rs"]


def covered_spans(repo):
    zv.ensure_vx()
    cov = {}
    refused = []
    tmp = tempfile.mkdtemp(prefix="zv-res-", dir="/var/tmp")
    try:
        for u in UNITS:
            out = os.path.join(tmp, u)
            os.makedirs(out)
            r = subprocess.run([zv.VX, "--repo", repo, "--spec", os.path.join(zv.VERIF, "spec", u + ".vs"), "--out", out, "--prelude", os.path.join(zv.VERIF, "prelude")], stdout=subprocess.PIPE, stderr=subprocess.PIPE, text=True)
            mp = os.path.join(out, "map.json")
            if r.returncode != 0 or not os.path.exists(mp):
                refused.append(u)
                continue
            for it in json.load(open(mp))["items"]:
                if it.get("file") and it.get("src_lines") and not it.get("degraded"):
                    cov.setdefault(it["file"], []).append((it["src_lines"][0], it["src_lines"][1], it.get("kind")))
    finally:
        shutil.rmtree(tmp, ignore_errors=True)
    return cov, refused


def fingerprints(repo):
    cov, refused = covered_spans(repo)
    out = {}
    src = os.path.join(repo, "src")
    for d, _, files in os.walk(src):
        for f in sorted(files):
            if not f.endswith(".rs"):
                continue
            p = os.path.join(d, f)
            rel = os.path.relpath(p, repo)
            spans = cov.get(rel, [])
            keep = []
            whole = []
            in_tests = False
            for i, l in enumerate(open(p, encoding="utf-8", errors="replace").read().split("\n"), 1):
                if l.startswith("#[cfg(test)]"):
                    in_tests = True       # unit-test modules at the end of a file are not part of the program
                if in_tests:
                    continue
                t = l.strip()
                if t and not t.startswith("//"):
                    whole.append(t)
                # attributes of copied types (serde / derive: dropped by the extractor) stay in the residual
                if any(a <= i <= b and not (k == "item" and t.startswith("#[")) for (a, b, k) in spans):
                    continue
                if not t or t.startswith("//"):
                    continue
                keep.append(t)
            out[rel] = hashlib.sha256("\n".join(keep).encode()).hexdigest()[:20]
            out["full:" + rel] = hashlib.sha256("\n".join(whole).encode()).hexdigest()[:20]
    return out, refused


def changed_files(repo):
    base = json.load(open(RESIDUAL)) if os.path.exists(RESIDUAL) else {}
    cur, refused = fingerprints(repo)
    ch = sorted(f for f in set(base) | set(cur) if base.get(f) != cur.get(f))
    return ch, refused


def split(changed):
    """(files whose text under no contract changed, files whose program text changed at all)"""
    return [f for f in changed if not f.startswith("full:")], [f[5:] for f in changed if f.startswith("full:")]


def update(repo):
    cur, refused = fingerprints(repo)
    if refused:
        raise SystemExit("residual baseline not updated: units refused: %s" % refused)
    json.dump(cur, open(RESIDUAL, "w"), indent=1, sort_keys=True)
    return cur


def files_of(pid):
    for l in open(os.path.join(zv.VERIF, "properties.jsonl")):
        p = json.loads(l)
        if p["id"] == pid:
            return sorted(set(p["anchors"].get("files", [])) | set(COMMON))
    return COMMON


if __name__ == "__main__":
    import sys
    if "--update" in sys.argv:
        print(json.dumps(update(zv.REPO), indent=1))
    else:
        print(changed_files(zv.REPO))
