#!/usr/bin/env python3
"""stab.py UNIT [n]: verify the assembled unit under n solver seeds; report which functions fail under which seed"""
import sys, os
sys.path.insert(0, os.path.dirname(os.path.abspath(__file__)))
import zv
from concurrent.futures import ThreadPoolExecutor
unit = sys.argv[1]; n = int(sys.argv[2]) if len(sys.argv) > 2 else 8
r0 = zv.run_unit(unit)
print("default:", r0.errors, [(d["fn"], d.get("tags")) for d in r0.diags])
with ThreadPoolExecutor(4) as ex:
    for sd, r in zip(range(1, n + 1), ex.map(lambda sd: zv.run_unit(unit, seed=sd * 101, assembled=True), range(1, n + 1))):
        print("seed", sd * 101, r.errors, [(d["fn"], d.get("tags"), d.get("primary_line")) for d in r.diags], "smt_ms", r.smt_ms)
