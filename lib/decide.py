"""decide.py — per-property decision, replay files, evidence (see /verif/check)."""
import json
import os
import re
import subprocess
import sys
import time
from concurrent.futures import ThreadPoolExecutor

import kanirun
import residual
import props
import zv

VERIF = zv.VERIF
BASELINE = os.path.join(VERIF, "spec", "baseline.json")
KNOWN = os.path.join(VERIF, "known_findings.json")
ASSUMED = os.path.join(VERIF, "spec", "assumed.json")


def assumed_fns(unit_results):
    """{unit: {fn path: fingerprint of its source text}} for the functions emitted as signature + contract only"""
    out = {}
    for unit, res in unit_results.items():
        for it in res.items:
            if it["kind"] == "fn" and "ASSUMED" in it.get("rules", []) and not it.get("split_arm"):
                out.setdefault(unit, {})[it["name"]] = it["src_fingerprint"]
    return out


_VALIDATION_CACHE = {}


def validated_elsewhere(name, unit_results):
    """True when the function `name` (and every closure of it) is under contract in props.VALIDATED_BY[name] and all
    of its obligations are discharged there on the current text"""
    v = props.VALIDATED_BY.get(name)
    if not v:
        return False
    res = unit_results.get(v) or _VALIDATION_CACHE.get(v)
    if res is None:
        try:
            res = zv.run_unit_portfolio(v)
        except zv.Undecided:
            return False
        _VALIDATION_CACHE[v] = res
    if res.refused or res.compile_error:
        return False
    if any(d == name or d.startswith(name + "#") for d in getattr(res, "degraded", {})):
        return False
    mine = [it for it in res.items if it["kind"] == "fn" and "ASSUMED" not in it.get("rules", []) and not it.get("degraded") and (it["name"] == name or it["name"].startswith(name + "#"))]
    if not any(it["name"] == name for it in mine):
        return False
    for d in res.diags:
        if d.get("kind") not in ("verification", "rlimit"):
            continue
        it = item_of_line(res, d.get("primary_line") or 0)
        if it is not None and it in mine:
            return False
    return True


def check_assumed(unit_results):
    """the body of an assumed function is outside every contract: when its text differs from the committed
    fingerprint its assumed contract has not been re-validated -> undecided (never an alarm) - unless another
    unit verifies that body (props.VALIDATED_BY) and does so successfully on the current text"""
    base = load_json(ASSUMED, {})
    bad = []
    for unit, fns in assumed_fns(unit_results).items():
        for name, fp in fns.items():
            want = base.get(unit, {}).get(name)
            if want is not None and want != fp:
                if validated_elsewhere(name, unit_results):
                    continue
                bad.append("%s: the text of assumed function %s changed; its assumed contract is not re-validated by any obligation" % (unit, name))
    return bad


def load_json(p, default):
    try:
        return json.load(open(p))
    except Exception:
        return default


def fn_key_of_line(res, line):
    """(start line of the enclosing `fn`, its name)"""
    for i in range(min(line, len(res.lines)) - 1, -1, -1):
        m = re.match(r"\s*(?:pub(?:\([a-z]+\))?\s+)?(?:open |closed |broadcast |uninterp )*(?:proof |spec |exec )?(?:axiom )?fn\s+([A-Za-z0-9_]+)", res.lines[i])
        if m:
            return (i + 1, m.group(1))
    return (0, "?")


def item_of_line(res, line):
    for it in res.items:
        a, b = it["unit_lines"]
        if a <= line <= b:
            return it
    return None


def clause_text(res, line):
    t = res.lines[line - 1].strip() if 1 <= line <= len(res.lines) else ""
    return zv.TAG_RE.sub("", t).strip()[:220]


def classify(pid, unit_results):
    """returns dict(failing=[...], undecided=[...], obligations=n, discharged=n, per_tag=...)"""
    failing = []  # (tag, unit, diag)
    undecided = []  # strings
    n_obl = 0
    n_dis = 0
    per_tag = {}
    samples = []
    for unit, res in unit_results.items():
        if res.refused:
            undecided.append("%s: extractor refused: %s" % (unit, res.refused))
            continue
        if res.compile_error:
            undecided.append("%s: %s" % (unit, res.compile_error[:1500]))
            continue
        ptags = [t for t in res.tags if t.split(".")[0] == pid]
        # functions carrying a tag of this property
        fns_with_ptag = set()
        for t in ptags:
            for ln in res.tags[t]:
                fns_with_ptag.add(fn_key_of_line(res, ln))
        bad_lines = {}  # line -> diag
        fn_unreliable = set()  # functions whose unreported obligations cannot be trusted
        per_fn_diag_count = {}
        # the implicit tag(s) of a panic (a failed precondition of a std function: unwrap, index, ...) in this unit; the one
        # that belongs to the property being checked is used, so that a panic in actor-side code counts for C04 as well
        _np = props.NOPANIC_TAG.get(unit)
        _npl = list(_np) if isinstance(_np, (list, tuple)) else ([_np] if _np else [])
        nopanic = next((t for t in _npl if t.split(".")[0] == pid), _npl[0] if _npl else None)
        for d in res.diags:
            fk = fn_key_of_line(res, d.get("primary_line") or 0)
            per_fn_diag_count[fk] = per_fn_diag_count.get(fk, 0) + 1
            if d["kind"] == "rlimit":
                fn_unreliable.add(fk)
                if fk in fns_with_ptag:
                    undecided.append("%s: resource limit in fn %s (unit.rs:%d)" % (unit, fk[1], fk[0]))
                continue
            if d["kind"] != "verification":
                # a non-verification error next to verification results (should not happen)
                undecided.append("%s: unexpected diagnostic: %s" % (unit, d["message"][:300]))
                continue
            tags = list(d.get("tags") or [])
            if not tags and d.get("callee_external") and "precondition" in d["message"] and nopanic:
                tags = [nopanic]
                d["tags"] = tags
                d["implicit_tag"] = True
            mine = [t for t in tags if t.split(".")[0] == pid]
            if mine:
                for t in mine:
                    failing.append((t, unit, d))
                for ln in d.get("unit_lines", []):
                    bad_lines[ln] = d
            elif not tags:
                if fk in fns_with_ptag:
                    undecided.append("%s: untagged support obligation failed in fn %s: %s (%s)" % (unit, fk[1], d["message"], d.get("src") or "unit.rs:%s" % d.get("primary_line")))
        for fk, n in per_fn_diag_count.items():
            if n >= 20:
                fn_unreliable.add(fk)
        for t in ptags:
            for ln in res.tags[t]:
                n_obl += 1
                fk = fn_key_of_line(res, ln)
                ok = ln not in bad_lines and fk not in fn_unreliable
                if ok:
                    n_dis += 1
                e = per_tag.setdefault(t, {"lines": 0, "discharged": 0, "units": set(), "fns": set(), "homes": set()})
                _it = item_of_line(res, ln)
                e["homes"].add("%s:%s" % (unit, _it["name"] if _it else fk[1]))
                e["lines"] += 1
                e["discharged"] += 1 if ok else 0
                e["units"].add(unit)
                e["fns"].add(fk[1])
                if len(samples) < 12 and (len(samples) == 0 or samples[-1]["tag"] != t):
                    it = item_of_line(res, ln)
                    samples.append({"tag": t, "unit": unit, "function": fk[1], "clause": clause_text(res, ln), "source": (it["file"] + ":%d-%d" % tuple(it["src_lines"])) if it else "spec (lemma / prelude contract)", "discharged": ok})
        if nopanic and nopanic.split(".")[0] == pid and nopanic not in per_tag:
            # implicit obligations: every unwrap/index precondition in the unit's extracted functions
            cnt = sum(len(re.findall(r"\.unwrap\(\)|\.expect\(", l)) for l in res.lines)
            failed_here = sum(1 for (t, u, d) in failing if t == nopanic and u == unit)
            per_tag[nopanic] = {"lines": cnt, "discharged": max(0, cnt - failed_here), "units": {unit}, "fns": set(), "homes": set(), "implicit": True}
            n_obl += cnt
            n_dis += max(0, cnt - failed_here)
    return {"failing": failing, "undecided": undecided, "obligations": n_obl, "discharged": n_dis, "per_tag": per_tag, "samples": samples}


def check_baseline(pid, per_tag, unit_results=None):
    base = load_json(BASELINE, {}).get(pid, {})
    missing = []
    for t, homes in base.items():
        have = per_tag.get(t, {}).get("homes", set())
        for h in homes:
            if h not in have:
                why = ""
                if unit_results and ":" in h:
                    u, fn = h.split(":", 1)
                    r = unit_results.get(u)
                    if r is not None and fn in getattr(r, "degraded", {}):
                        why = " - the function could not be extracted and is assumed by its contract in this run: " + r.degraded[fn][:300]
                missing.append("%s: no obligation generated in %s (present in the committed baseline)%s" % (t, h, why))
    return missing


def calls_fn(text, out_name, repo_name):
    """does `text` call the function emitted as `out_name` (repository path `repo_name`)?  A method call `.f(`, a bare
    call `f(`, or a path call `T::f(` whose qualifier is `Self` or the type the function belongs to (so that
    `incremental::run(` is not taken for `AggregateTargetActor::run`)"""
    o = re.escape(out_name)
    if re.search(r"\.\s*" + o + r"\s*\(", text) or re.search(r"(?<![A-Za-z0-9_:.])" + o + r"\s*\(", text):
        return True
    ty = repo_name.split("#")[0].split("::")
    quals = {"Self"} | ({ty[-2]} if len(ty) >= 2 else set())
    for m in re.finditer(r"([A-Za-z0-9_]+)\s*::\s*" + o + r"\s*\(", text):
        if m.group(1) in quals:
            return True
    return False


def depends_on_degraded(pid, unit_results):
    """a function whose obligations decide `pid` and that (transitively, inside its unit) calls a degraded function -
    or hosts a degraded outlined closure - was verified against a contract nobody checked in this run: undecided"""
    base = load_json(BASELINE, {}).get(pid, {})
    out = []
    for u, res in unit_results.items():
        deg = dict(getattr(res, "degraded", {}))
        if res.refused or res.compile_error:
            continue
        # a function with a failed obligation that carries no tag (a support clause of its contract, a hint, a
        # resource limit) is as unreliable for its callers as a degraded one
        for d in res.diags:
            if d.get("kind") in ("verification", "rlimit") and not d.get("tags"):
                it = item_of_line(res, d.get("primary_line") or 0)
                if it is not None and it["kind"] == "fn" and it["name"] not in deg:
                    deg[it["name"]] = "an obligation without tag failed in it: %s" % d["message"][:80]
        if not deg:
            continue
        fns = [it for it in res.items if it["kind"] == "fn" and it["unit_lines"] != [0, 0] and it.get("out_name")]
        text = {}
        for it in fns:
            a, b = it["unit_lines"]
            text[it["name"]] = text.get(it["name"], "") + "\n" + "\n".join(res.lines[a - 1:b])
        out_names = {}
        for it in fns:
            out_names.setdefault(it["name"], set()).add(it["out_name"].split("__arm")[0])
        affected = set(deg)
        changed = True
        while changed:
            changed = False
            for name in text:
                if name in affected:
                    continue
                hit = None
                for a in affected:
                    if a.startswith(name + "#"):
                        hit = a
                        break
                    for o in out_names.get(a, ()):
                        if calls_fn(text[name], o, a):
                            hit = a
                            break
                    if hit:
                        break
                if hit:
                    affected.add(name)
                    changed = True
        homes = set()
        for t, hs in base.items():
            for h in hs:
                if h.startswith(u + ":"):
                    homes.add(h.split(":", 1)[1])
        for fn in sorted(homes & (affected - set(deg))):
            out.append("%s:%s is verified against the contract of a function that was not verified in this run (%s)" % (u, fn, "; ".join("%s: %s" % (k, v[:70]) for k, v in sorted(deg.items()))[:300]))
    return out


def trusted_base(unit_results):
    out = []
    for unit, res in unit_results.items():
        names = []
        for (ln, txt) in res.trusted:
            # name of the trusted item: next `fn`/`struct` on this or the following lines
            nm = None
            for j in range(ln - 1, min(ln + 4, len(res.lines))):
                m = re.search(r"\b(?:fn|struct)\s+([A-Za-z0-9_]+)|assume_specification.*\[\s*([^\]]+)\]|axiom fn\s+([A-Za-z0-9_]+)", res.lines[j])
                if m:
                    nm = next(g for g in m.groups() if g)
                    break
            if nm and nm not in names:
                names.append(nm)
        out.append("%s: %d trusted items (external_body / assume_specification / axiom): %s" % (unit, len(names), ", ".join(names)))
    return out


def assume_scan(unit_results):
    """`assume(` / `admit(` anywhere in an assembled unit is a refusal (exit 2)"""
    bad = []
    for unit, res in unit_results.items():
        for i, l in enumerate(res.lines):
            s = l.split("//")[0]
            if re.search(r"\bassume\s*\(|\badmit\s*\(", s):
                bad.append("%s: unit.rs:%d: %s" % (unit, i + 1, l.strip()[:120]))
            if "arm_verified_in_another_copy" in s and "fn arm_verified_in_another_copy" not in s:
                it = item_of_line(res, i + 1)
                if not (it and it.get("split_arm") and not it["split_arm"].startswith("callers' view")):
                    bad.append("%s: unit.rs:%d: arm_verified_in_another_copy() outside a case-split copy" % (unit, i + 1))
    return bad


def split_coverage(unit_results):
    """R16 soundness guard: for each split function the copies' live arms are pairwise distinct and
    every copy kills exactly the other copies' live arms."""
    bad = []
    for unit, res in unit_results.items():
        groups = {}
        for it in res.items:
            if it.get("split_arm"):
                groups.setdefault(it["name"], []).append(it)
        for name, its in groups.items():
            views = [it for it in its if it["split_arm"].startswith("callers' view")]
            its = [it for it in its if not it["split_arm"].startswith("callers' view")]
            if len(views) != 1:
                bad.append("%s: %s: %d callers' views of a case-split function" % (unit, name, len(views)))
            lives = [it["split_arm"] for it in its]
            if len(set(lives)) != len(lives):
                bad.append("%s: %s: duplicate live arm among case-split copies" % (unit, name))
            for it in its:
                a, b = it["unit_lines"]
                kills = sum(1 for l in res.lines[a - 1 : b] if "arm_verified_in_another_copy();" in l)
                if kills != len(its) - 1:
                    bad.append("%s: %s copy `%s`: %d arms skipped, expected %d" % (unit, name, it["split_arm"], kills, len(its) - 1))
    return bad


def run_scenario(tag):
    """black-box witness: scenarios/<tag>.sh against a binary built from the current tree"""
    sc = os.path.join(VERIF, "scenarios", tag + ".sh")
    if not os.path.exists(sc) or os.environ.get("ZV_NO_WITNESS"):
        return None
    env = dict(os.environ, CARGO_NET_OFFLINE="true")
    b = subprocess.run(["cargo", "build", "--offline"], cwd=zv.REPO, stdout=subprocess.PIPE, stderr=subprocess.STDOUT, text=True, env=env)
    if b.returncode != 0:
        return {"script": sc, "built": False, "output": b.stdout[-1500:]}
    env["ZINOMA"] = os.path.join(zv.REPO, "target/debug/zinoma")
    try:
        r = subprocess.run(["bash", sc], stdout=subprocess.PIPE, stderr=subprocess.STDOUT, text=True, env=env, timeout=600)
        return {"script": os.path.relpath(sc, VERIF), "built": True, "exit": r.returncode, "exhibits_failure": r.returncode == 1, "output": r.stdout[-3000:]}
    except subprocess.TimeoutExpired:
        return {"script": os.path.relpath(sc, VERIF), "built": True, "exit": None, "exhibits_failure": False, "output": "scenario timed out"}


def bounded_stand_in(pid, seed, why, tier="quick"):
    """DESIGN 16: the finite family of concrete projects / operation sequences of this property, run against a binary
    built from the current tree.  Returns (info for the evidence, [(case record, replay path)])."""
    if os.environ.get("ZV_NO_BOUNDED"):
        return {"ran": False, "reason": "disabled (ZV_NO_BOUNDED)"}, []
    sys.path.insert(0, os.path.join(VERIF, "bounded"))
    import run as brun
    t0 = time.time()
    binary, err = brun.build_binary(zv.REPO)
    if not binary:
        return {"ran": False, "reason": "the current tree does not build: " + err[-400:]}, []
    # the cases are the same whatever the property (a failing case names the properties it speaks about): the records are
    # kept per (binary content, case files, seed, tier), so that checking nineteen properties of one tree runs them once
    import hashlib
    h = hashlib.sha256(open(binary, "rb").read())
    for f in sorted(os.listdir(os.path.join(VERIF, "bounded"))):
        if f.endswith(".py"):
            h.update(open(os.path.join(VERIF, "bounded", f), "rb").read())
    cdir = os.path.join(zv.BUILD, "cache")
    os.makedirs(cdir, exist_ok=True)
    cpath = os.path.join(cdir, "bounded-%s-%d-%s.json" % (h.hexdigest()[:24], seed, tier))
    from_cache = False
    if os.path.exists(cpath) and not os.environ.get("ZV_NO_BOUNDED_CACHE"):
        recs = json.load(open(cpath))
        from_cache = True
    else:
        recs = brun.run_all(binary, seed, tier=tier)
        tmpc = cpath + ".%d.tmp" % os.getpid()
        json.dump(recs, open(tmpc, "w"))
        os.replace(tmpc, cpath)
    r = brun.summarise(pid, recs, seed)
    confirmed = []
    for rec in r["failed"][:4]:
        # a failing case counts only if it fails again when run alone (no load from the other cases)
        again = brun.run(pid, binary, seed, only=rec["case"], workers=1, tier=tier)
        if any(x["case"] == rec["case"] for x in again["failed"]):
            confirmed.append(rec)
        else:
            rec["not_reproduced_when_run_alone"] = True
    out = []
    rdir = os.environ.get("ZV_REPLAY", os.path.join(VERIF, "replay"))
    os.makedirs(rdir, exist_ok=True)
    for rec in confirmed:
        path = os.path.join(rdir, "%s-bounded-%s.json" % (pid, re.sub(r"[^A-Za-z0-9_.-]", "_", rec["case"])))
        json.dump({"property": pid, "obligation": "none decided: " + why, "bounded_stand_in_case": rec,
                   "how_found": "bounded stand-in (bounded/run.py): a concrete project and operation sequence run against the binary built from the current tree; failed twice (in the family run and alone)",
                   "no_failing_input_found": False,
                   "replay_cmd": "python3 bounded/run.py %s --case '%s'" % (pid, rec["case"])}, open(path, "w"), indent=1)
        out.append((rec, path))
    info = {k: r[k] for k in ("label", "families", "cases", "passed", "bound", "sample_cases", "harness_errors", "failed_for_other_properties")}
    info.update({"ran": True, "why": why, "records_reused_from_an_earlier_check_of_the_same_binary": from_cache, "failed_cases": [x["case"] for x in confirmed], "flaky_cases": [x["case"] for x in r["failed"] if x.get("not_reproduced_when_run_alone")], "wall_s": round(time.time() - t0, 1)})
    return info, out


def write_replay(pid, tag, unit, d, res, witness):
    rdir = os.environ.get("ZV_REPLAY", os.path.join(VERIF, "replay"))
    os.makedirs(rdir, exist_ok=True)
    path = os.path.join(rdir, "%s-%s.json" % (pid, tag.replace("/", "_")))
    it = item_of_line(res, d.get("primary_line") or 0)
    rec = {
        "property": pid,
        "obligation": tag,
        "unit": unit,
        "function": (it["name"] if it else d.get("fn")),
        "case_split_arm": it.get("split_arm") if it else None,
        "failing_sites_in_repo": d.get("src_sites"),
        "verus_message": d["message"],
        "verus_diagnostic": d.get("rendered", ""),
        "checker_cmd": res.cmd,
        "witness": witness,
        "no_failing_input_found": not (witness and witness.get("exhibits_failure")),
        "replay_cmd": "./check %s --replay %s" % (pid, os.path.relpath(path, VERIF)),
    }
    json.dump(rec, open(path, "w"), indent=1)
    return path, rec


def main(argv):
    if not argv:
        print(__doc__)
        return 2
    pid = argv[0]
    tier = os.environ.get("VERIF_TIER", "quick")
    replay = None
    update_baseline = False
    i = 1
    while i < len(argv):
        if argv[i] == "--tier":
            tier = argv[i + 1]
            i += 1
        elif argv[i] == "--replay":
            replay = argv[i + 1]
            i += 1
        elif argv[i] == "--update-baseline":
            update_baseline = True
        i += 1
    if tier not in ("quick", "thorough"):
        tier = "quick"
    try:
        seed = int(os.environ.get("VERIF_SEED", "0"))
    except ValueError:
        seed = 0
    if pid not in props.PROPS:
        print("property %s is not claimed (see MANIFEST.json not_applicable)" % pid)
        return 2
    P = props.PROPS[pid]
    t0 = time.time()
    units = P["units"]
    try:
        zv.ensure_vx()
        with ThreadPoolExecutor(max_workers=max(1, 2 * len(units))) as ex:
            vac_f = {u: ex.submit(zv.run_vacuity, u) for u in units}
            results = dict(zip(units, ex.map(lambda u: zv.run_unit_portfolio(u), units)))
            vac = {}
            for u, f in vac_f.items():
                try:
                    fd = getattr(results[u], "forced_degrade", None)
                    # functions degraded because the unit did not compile with their text: the probes are placed in
                    # the same degraded unit
                    vac[u] = zv.run_vacuity(u, degrade=fd) if fd else f.result()
                except Exception as e:  # a refused vacuity extraction is reported, not fatal for the verdict of the main run
                    vac[u] = (0, [{"n": -1, "where": "vacuity run failed: %s" % str(e)[:300]}])
    except zv.Undecided as e:
        print("UNDECIDED: %s" % e)
        binfo, bfail = bounded_stand_in(pid, seed, "undecided: %s" % str(e)[:300], tier)
        evdir = os.environ.get("ZV_EVIDENCE", os.path.join(VERIF, "evidence"))
        os.makedirs(evdir, exist_ok=True)
        json.dump({"property_id": pid, "tier": tier, "seed": seed, "level": "proof", "coverage": {"obligations": 0, "discharged": 0, "checker_cmd": "", "trusted_base": [], "undecided": [str(e)[:600]], "bounded_stand_in": binfo, "explanation": "the deductive run did not get as far as generating obligations on this tree (undecided); only the bounded stand-in ran"}, "assumptions": [], "wall_s": round(time.time() - t0, 2), "violations": len(bfail)}, open(os.path.join(evdir, pid + ".json"), "w"), indent=1)
        for (rec, path) in bfail:
            print("bounded stand-in case %s failed: expected %s; observed %s" % (rec["case"], rec.get("expected", "")[:300], str(rec.get("observed", ""))[:300]))
            print("VIOLATION property=%s replay=%s" % (pid, path))
        return 1 if bfail else 2

    cl = classify(pid, results)
    undecided = list(cl["undecided"])
    # ---- bounded stand-in (Kani) for the byte/str predicates ------------------------------------
    kani_info = None
    if P.get("kani_tags"):
        try:
            # quick: only results recorded for exactly the current function texts are used; thorough: missing ones are run
            kres, kfail, kund, kkey = kanirun.decide(P["kani_tags"], allow_run=(tier == "thorough"), required=P.get("kani_required", False))
        except zv.Undecided as e:
            kres, kfail, kund, kkey = {}, [], [str(e)], None
        kani_info = {"harnesses": kres, "crate_key": kkey, "kani": kanirun.kani_version()}
        undecided += kund
        for (t, h, info) in kfail:
            d = {"message": "Kani harness %s: VERIFICATION FAILED (%s)" % (h, "; ".join(info.get("failed_checks") or [])), "rendered": info.get("detail", ""), "primary_line": 0, "src_sites": ["kani harness " + h + " over " + info.get("bound", "")], "fn": h, "tags": [t], "kind": "verification", "spans": [], "unit_lines": []}
            cl["failing"].append((t, "KANI", d))
        for h, info in kres.items():
            if info["result"] == "NOT-RUN":
                continue
            for t in info["tags"]:
                if t.split(".")[0] != pid:
                    continue
                e = cl["per_tag"].setdefault(t, {"lines": 0, "discharged": 0, "units": set(), "fns": set(), "homes": set(), "bounded": True})
                e["lines"] += 1
                e["discharged"] += 1 if info["result"] == "SUCCESSFUL" else 0
                e["units"].add("KANI")
                e["fns"].add(h)
                e["homes"].add("KANI:" + h)
                cl["obligations"] += 1
                cl["discharged"] += 1 if info["result"] == "SUCCESSFUL" else 0
                cl["samples"].append({"tag": t, "unit": "KANI (bounded)", "function": h, "clause": info.get("bound", ""), "source": "verbatim copy of the predicate in kani/src/main.rs", "discharged": info["result"] == "SUCCESSFUL"})
    undecided += assume_scan(results)
    undecided += split_coverage(results)
    undecided += check_assumed(results)
    # vacuity guard: every probe must have failed (only meaningful when the unit itself was assembled)
    for u, (n, unreached) in vac.items():
        if results[u].refused or results[u].compile_error:
            continue
        for pr in unreached:
            undecided.append("vacuity guard: %s: `%s` is unreachable under the contracts (its probe verified)" % (u, pr["where"]))
    if update_baseline and any(getattr(r, "degraded", None) for r in results.values()):
        print("UNDECIDED: --update-baseline refused: functions are degraded on this tree: %s" % {u: sorted(r.degraded) for u, r in results.items() if getattr(r, "degraded", None)})
        return 2
    if update_baseline:
        base = load_json(BASELINE, {})
        base[pid] = {t: sorted(e["homes"]) for t, e in sorted(cl["per_tag"].items()) if not e.get("implicit")}
        json.dump(base, open(BASELINE, "w"), indent=1, sort_keys=True)
        ab = load_json(ASSUMED, {})
        for u, fns in assumed_fns(results).items():
            ab[u] = fns
        json.dump(ab, open(ASSUMED, "w"), indent=1, sort_keys=True)
        print("baseline for %s: %d tags" % (pid, len(base[pid])))
    undecided += ["baseline: " + m for m in check_baseline(pid, cl["per_tag"], results)]
    undecided += depends_on_degraded(pid, results)
    if cl["obligations"] == 0:
        undecided.append("no obligation generated for %s (vacuity guard)" % pid)

    # ---- thorough: stability under two more solver seeds -------------------------------------
    stability = []
    if tier == "thorough" and not undecided:
        for k in (1, 2):
            for u in units:
                r2 = zv.run_unit(u, seed=seed + k)
                c2 = classify(pid, {u: r2})
                same = sorted(t for (t, _, _) in c2["failing"]) == sorted(t for (t, uu, _) in cl["failing"] if uu == u) and not c2["undecided"]
                stability.append({"unit": u, "seed": seed + k, "same_verdict": same, "smt_ms": r2.smt_ms})
                if not same:
                    undecided.append("unstable proof: unit %s gives a different verdict under smt.random_seed=%d" % (u, seed + k))

    # ---- known findings ------------------------------------------------------------------------
    kf = load_json(KNOWN, {"findings": []})
    known = [(f["property"], f["tag"]) for f in kf.get("findings", []) if f.get("status", "finding") == "finding"]
    violations = []
    seen = set()
    known_out = []
    for (tag, unit, d) in cl["failing"]:
        if (pid, tag) in known:
            if ("k", tag) not in seen:
                f = next(f for f in kf["findings"] if f["property"] == pid and f["tag"] == tag)
                print("KNOWN-FINDING: property=%s %s %s" % (pid, tag, f.get("what", "")))
                seen.add(("k", tag))
                rec = {"tag": tag, "where": f.get("where"), "what": f.get("what"), "failing_clause": next((clause_text(results[unit], ln) for ln in (d.get("unit_lines") or []) if unit in results and 1 <= ln <= len(results[unit].lines) and tag in results[unit].lines[ln - 1]), None), "verus_message": d.get("message")}
                if tier == "thorough":
                    # the finding is re-demonstrated on a binary built from the current tree
                    rec["witness"] = run_scenario(tag)
                known_out.append(rec)
            continue
        if tag in seen:
            continue
        seen.add(tag)
        violations.append((tag, unit, d))

    replay_paths = []
    for (tag, unit, d) in violations:
        witness = run_scenario(tag)
        path, rec = write_replay(pid, tag, unit, d, results.get(unit) or next(iter(results.values()), None) or zv.UnitResult(unit), witness)
        replay_paths.append((tag, path, rec))

    # ---- bounded stand-in (DESIGN 16): when the deductive verdict is undecided, and always in the thorough tier ----
    binfo, bfail = {"ran": False, "reason": "the deductive verdict is decided on this tree (quick tier) and no code outside the contracts changed"}, []
    # code under no contract that differs from the committed fingerprint (DESIGN 16.5): the proof never depended on it,
    # but the property may - its stand-in is run
    try:
        res_changed, res_refused = residual.changed_files(zv.REPO)
    except Exception as e:
        res_changed, res_refused = [], ["residual: %s" % str(e)[:200]]
    res_only, any_change = residual.split(res_changed)
    res_mine = [f for f in res_only if f in residual.files_of(pid)]
    # any change of the program text counts, also in a file the property is not anchored in: what a property depends on is
    # wider than its anchor list (a change of the project-directory canonicalisation breaks the skip decision of C03)
    src_mine = list(any_change)
    if update_baseline and not res_refused:
        residual.update(zv.REPO)
        res_mine, src_mine = [], []
    # the stand-in runs: when the proof is undecided; in the thorough tier; and whenever the program text of a file the
    # property is anchored in differs from the tree the contracts were written for (a changed tree gets everything we have:
    # a contract that is too weak to notice a change must not be the last word on it)
    if (undecided and not violations) or tier == "thorough" or ((res_mine or src_mine) and not violations):
        why = ("undecided: " + "; ".join(undecided)[:400]) if undecided else (("code under no contract changed in " + ", ".join(res_mine)) if res_mine else (("program text changed in " + ", ".join(src_mine[:6])) if src_mine else "thorough tier"))
        binfo, bfail = bounded_stand_in(pid, seed, why, tier)
    binfo["unverified_code_changed_in"] = res_mine
    binfo["program_text_changed_in"] = src_mine

    # ---- evidence -------------------------------------------------------------------------------
    fns = []
    rule_counts = {}
    solver_ms = 0
    for u, res in results.items():
        solver_ms += res.smt_ms
        for it in res.items:
            if it["kind"] == "fn":
                fns.append("%s:%s%s" % (u, it["name"], (" [" + it["split_arm"] + "]") if it.get("split_arm") else ""))
        for k, v in (res.rules.get("counts") or {}).items():
            rule_counts[k] = rule_counts.get(k, 0) + v
    # obligations that are recorded known findings (genuine defects, printed as KNOWN-FINDING) are not part of the
    # proof claim: they are counted apart, so that obligations == discharged states exactly what is proved
    kf_tags = sorted(set(x[1] for x in seen if isinstance(x, tuple) and x[0] == "k"))
    kf_obl = {t: {"obligation_lines": cl["per_tag"][t]["lines"], "discharged": cl["per_tag"][t]["discharged"]} for t in kf_tags if t in cl["per_tag"]}
    n_obl_claimed = cl["obligations"] - sum(v["obligation_lines"] for v in kf_obl.values())
    n_dis_claimed = cl["discharged"] - sum(v["discharged"] for v in kf_obl.values())
    per_tag_out = {t: {"obligation_lines": e["lines"], "discharged": e["discharged"], "units": sorted(e["units"]), "functions": sorted(e["fns"])[:12], "implicit": bool(e.get("implicit"))} for t, e in sorted(cl["per_tag"].items())}
    ev = {
        "property_id": pid,
        "tier": tier,
        "seed": seed,
        "level": P.get("level", "proof"),
        "coverage": {
            "obligations": n_obl_claimed,
            "discharged": n_dis_claimed,
            "known_finding_obligations": kf_obl,
            "checker_cmd": "; ".join(r.cmd for r in results.values() if r.cmd),
            "trusted_base": trusted_base(results),
            "back_end": "Verus %s (Z3), single-file mode, one query per function (per case-split copy for the handler loops)" % zv.verus_version(),
            "units": {u: {"verified_functions": r.verified, "verus_errors": r.errors, "verus_ms": r.verus_ms, "smt_ms": r.smt_ms, "cache_hit": r.cached, "portfolio_reruns": r.portfolio, "obligations_proved_only_under_another_seed": r.unstable} for u, r in results.items()},
            "functions_under_contract": sorted(set(f.split(" [")[0] for f in fns)),
            "case_split_copies": len([f for f in fns if " [" in f]),
            "per_tag": per_tag_out,
            "rule_applications": rule_counts,
            "solver_ms": solver_ms,
            "samples": cl["samples"],
            "undecided": undecided,
            "stability_reruns": stability,
            "bounded_stand_in": binfo,
            "kani": kani_info,
            "degraded_functions": {u: r.degraded for u, r in results.items() if getattr(r, "degraded", None)},
            "vacuity_probes": {u: {"probes": n, "proved_unreachable": [p["where"] for p in un]} for u, (n, un) in vac.items()},
            "evaluations": (sum((i.get("checks") or 1) for i in kani_info["harnesses"].values()) if kani_info else cl["obligations"]),
            "distinct_nontrivial": (len(kani_info["harnesses"]) if kani_info and P.get("level") == "model_checking" else max(2, len(cl["per_tag"]))),
            "rule": ("one evaluation = one CBMC property of a Kani harness over the stated bound; distinct = harnesses" if kani_info and P.get("level") == "model_checking" else "one evaluation = one tagged obligation line; distinct = tags"),
            "explanation": "obligations = tagged contract clauses, loop invariants and injected asserts carrying a tag of this property in the assembled units (a clause repeated in N case-split copies counts N times); discharged = those with no Verus diagnostic on their line in a function that did not hit the resource limit; the clauses of recorded known findings (known_finding_obligations: they fail, as recorded in known_findings.json, and are printed as KNOWN-FINDING) are not counted in either number",
        },
        "assumptions": [props.ASSUME[a] for a in P.get("assume", [])] + P.get("not_covered", []),
        "wall_s": round(time.time() - t0, 2),
        "violations": len(violations) + len(bfail),
        "known_findings_reported": known_out,
    }
    evdir = os.environ.get("ZV_EVIDENCE", os.path.join(VERIF, "evidence"))
    os.makedirs(evdir, exist_ok=True)
    json.dump(ev, open(os.path.join(evdir, pid + ".json"), "w"), indent=1)

    # ---- verdict --------------------------------------------------------------------------------
    for (tag, path, rec) in replay_paths:
        tail = "" if not rec["no_failing_input_found"] else " no-failing-input-found"
        sites = ", ".join(rec.get("failing_sites_in_repo") or [])
        print("obligation %s failed in %s%s at %s: %s" % (tag, rec["function"], (" [" + rec["case_split_arm"] + "]") if rec.get("case_split_arm") else "", sites or "?", rec["verus_message"]))
        print("VIOLATION property=%s replay=%s%s" % (pid, path, tail))
    if replay:
        want = load_json(replay, {}).get("obligation")
        still = [t for (t, _, _) in violations if t == want]
        print("replay of %s: obligation %s %s" % (replay, want, "still fails" if still else "is discharged now"))
    for (rec, path) in bfail:
        print("bounded stand-in case %s failed: expected %s; observed %s" % (rec["case"], rec.get("expected", "")[:300], str(rec.get("observed", ""))[:300]))
        print("VIOLATION property=%s replay=%s" % (pid, path))
    if violations or bfail:
        return 1
    if undecided:
        for u in undecided[:12]:
            print("UNDECIDED: %s" % u)
        return 2
    print("%s: %d/%d obligations discharged in %d unit(s), %.1fs%s" % (pid, n_dis_claimed, n_obl_claimed, len(units), time.time() - t0, (" (+%d clause line(s) of recorded known findings, failing as recorded)" % sum(v["obligation_lines"] for v in kf_obl.values())) if kf_obl else ""))
    return 0
