#!/usr/bin/env python3
"""regenerates /verif/MANIFEST.json from lib/props.py (claimed checks) and lib/manifest_text.py"""
import json, os, sys
HERE = os.path.dirname(os.path.abspath(__file__))
sys.path.insert(0, HERE)
import props, manifest_text as T
VERIF = os.path.dirname(HERE)
all_ids = [json.loads(l)["id"] for l in open(os.path.join(VERIF, "properties.jsonl"))]
checks = []
for pid in all_ids:
    if pid not in props.PROPS:
        continue
    P = props.PROPS[pid]
    t = T.TEXT[pid]
    checks.append({
        "property_id": pid,
        "quick_cmd": "./check %s --tier quick" % pid,
        "thorough_cmd": "./check %s --tier thorough" % pid,
        "evidence_file": "/verif/evidence/%s.json" % pid,
        "replay_cmd_template": "./check %s --replay {path}" % pid,
        "engine": "zv",
        "level_claimed": {"category": T.CATEGORY.get(pid, "proof"), "text": t["level"], "design_ref": "DESIGN.md section 7 (%s)" % pid},
        "level_note": t["note"] + " Bounded stand-in (DESIGN.md section 16): when the deductive verdict is undecided on the current tree - a function could not be extracted, the unit does not compile with the new text, an assumed contract is no longer validated - and always in the thorough tier, a finite, stated family of concrete projects and operation sequences is run against the binary built from the current tree; a case that fails twice is reported as VIOLATION with the case as replay, a passing family proves nothing, is labelled bounded in the evidence and is never counted among the discharged obligations.",
        "technique": t.get("technique", "contract-based deductive verification (Verus) of functions extracted mechanically from /repo on every run; bounded stand-in (concrete scenario families on the built binary) only where the proof is undecided, and in the thorough tier"),
    })
na = [{"property_id": pid, "reason": T.NA.get(pid, "unit not built yet (DESIGN.md section 14)")} for pid in all_ids if pid not in props.PROPS]
m = {
    "version": 1,
    "setup_cmd": "cd /verif/tools/vx && CARGO_NET_OFFLINE=true cargo build --release --offline",
    "hooks": {"guard": "zinoma_verif", "enable": "none needed: extraction reads /repo's source text; no hook is compiled into zinoma (DESIGN.md section 12)", "baseline_off_cmd": "cd /repo && cargo test --workspace --no-fail-fast --offline", "source_commits": [], "add_only": True},
    "engines": [{"name": "zv", "path": "/verif/check", "serves_properties": [c["property_id"] for c in checks], "kind_free_text": "tools/vx (syn-based extractor) + lib/zv.py, lib/decide.py (assemble, run Verus single-file, classify tagged obligations, evidence)"}],
    "checks": checks,
    "notes": T.NOTES,
    "not_applicable": na,
}
json.dump(m, open(os.path.join(VERIF, "MANIFEST.json"), "w"), indent=1)
print("MANIFEST.json: %d checks, %d not_applicable" % (len(checks), len(na)))
