#!/usr/bin/env python3
"""selftest/sweep.py [--workers N] [--limit K] [--files f1,f2] — mutation sweep of the *specifications*.

Generates small syntactic mutants of the repository functions the properties are anchored in (flipped
comparison, swapped && / ||, removed negation, negated `if`, deleted statement, swallowed `?`, swapped execution
kind, true/false), keeps those that still compile AND still pass the 38 tests (the kind of change the brief is
about), and runs every claimed check against each.  A mutant on which every check exits 0 is a *survivor*: either
behaviour-preserving, or a gap in the contracts - to be triaged by hand (selftest/sweep_triage.md).

Everything happens in scratch worktrees under /var/tmp/sweep (removed at the end); /repo is never touched.
Results: selftest/sweep_results.json."""
import json, os, re, shutil, subprocess, sys, threading, queue, time
HERE = os.path.dirname(os.path.abspath(__file__)); VERIF = os.path.dirname(HERE)
sys.path.insert(0, os.path.join(VERIF, "lib"))
import props

FILES = [
    "src/engine/target_actor/target_actor_helper.rs", "src/engine/target_actor/build_target_actor.rs",
    "src/engine/target_actor/service_target_actor.rs", "src/engine/target_actor/aggregate_target_actor.rs",
    "src/engine/target_actor/mod.rs", "src/engine/target_actors.rs", "src/engine/mod.rs", "src/engine/builder.rs",
    "src/engine/incremental/mod.rs", "src/engine/incremental/storage.rs", "src/engine/incremental/resources_state/mod.rs",
    "src/engine/incremental/resources_state/fs.rs", "src/engine/incremental/resources_state/cmd_stdout.rs",
    "src/engine/watcher.rs", "src/config/ir.rs", "src/config/yaml/mod.rs", "src/domain.rs", "src/fs.rs", "src/clean.rs",
    "src/work_dir.rs", "src/main.rs", "src/async_utils.rs",
]
ROOT = "/var/tmp/sweep"


def mutants_of(rel, text):
    out = []
    lines = text.split("\n")
    in_test = False
    for i, l in enumerate(lines):
        if "#[cfg(test)]" in l:
            in_test = True
        if in_test:
            continue
        s = l.strip()
        if not s or s.startswith("//") or s.startswith("#[") or s.startswith("use ") or s.startswith("///") or s.startswith("log::"):
            continue
        code = l.split("//")[0]

        def add(op, new):
            if new != l:
                out.append({"file": rel, "line": i + 1, "op": op, "old": l, "new": new})
        for m in re.finditer(r"==|!=", code):
            add("cmp-flip", l[:m.start()] + ("!=" if m.group(0) == "==" else "==") + l[m.end():])
        for m in re.finditer(r"&&", code):
            add("and-or", l[:m.start()] + "||" + l[m.end():])
        for m in re.finditer(r"(?<=[\w\)\]] )\|\|(?= [\w!\(])", code):
            add("or-and", l[:m.start()] + "&&" + l[m.end():])
        for m in re.finditer(r"(?<![\w\)\]])!(?=[a-zA-Z_\(])", code):
            add("neg-drop", l[:m.start()] + l[m.end():])
        for m in re.finditer(r"\btrue\b|\bfalse\b", code):
            add("bool-flip", l[:m.start()] + ("false" if m.group(0) == "true" else "true") + l[m.end():])
        m = re.match(r"^(\s*)(\} else )?if (?!let )(.+) \{\s*$", code)
        if m:
            add("if-neg", "%s%sif !(%s) {" % (m.group(1), m.group(2) or "", m.group(3)))
        if re.match(r"^\s*(?!let |return|break|continue|pub |fn |use |\}|\{|//)[A-Za-z_&\*\(][^=]*;\s*$", code) and "(" in code and not code.rstrip().endswith("?;") and "=>" not in code:
            add("stmt-del", "")
        if re.match(r"^\s*[A-Za-z_][\w\.]*(\[[^\]]+\])? = .+;\s*$", code):
            add("assign-del", "")
        m = re.match(r"^(\s*)(?!let |return)(.+)\?;\s*$", code)
        if m:
            add("try-swallow", "%slet _ = %s;" % (m.group(1), m.group(2)))
        for a, b in (("ExecutionKind::Build", "ExecutionKind::Service"), ("ExecutionKind::Service", "ExecutionKind::Build")):
            for m in re.finditer(re.escape(a), code):
                add("kind-swap", l[:m.start()] + b + l[m.end():])
        for a, b in (("WatchOption::Enabled", "WatchOption::Disabled"), ("WatchOption::Disabled", "WatchOption::Enabled"),
                     ("IncrementalRunResult::Skipped", "IncrementalRunResult::Completed"), ("IncrementalRunResult::Completed", "IncrementalRunResult::Cancelled"),
                     ("IncrementalRunResult::Cancelled", "IncrementalRunResult::Completed"), ("BuildTerminationReport::Completed", "BuildTerminationReport::Cancelled"),
                     ("BuildTerminationReport::Cancelled", "BuildTerminationReport::Completed"), ("channel::unbounded()", "channel::bounded(1)"),
                     ("Target::Build(", "Target::Service("), ("=> break,", "=> continue,"), ("break;", "continue;")):
            for m in re.finditer(re.escape(a), code):
                add("variant-swap", l[:m.start()] + b + l[m.end():])
        for m in re.finditer(r"(?<=[=<>] )(\d+)\b|(?<=bounded\()(\d+)", code):
            n = int(m.group(0))
            add("const-inc", l[:m.start()] + str(n + 1) + l[m.end():])
            if n > 0:
                add("const-dec", l[:m.start()] + str(n - 1) + l[m.end():])
        if re.match(r"^\s*return\b.*;\s*$", code):
            add("return-del", "")
        for a, b in ((".is_none()", ".is_some()"), (".is_some()", ".is_none()"), (".is_ok()", ".is_err()"), (".is_err()", ".is_ok()"), (".any(", ".all("), (".all(", ".any("), (".insert(", ".remove(&"), ("<=", "<"), (">=", ">")):
            for m in re.finditer(re.escape(a), code):
                add("api-swap", l[:m.start()] + b + l[m.end():])
    # ---- operator set 3: statement order, dropped conjuncts, multi-line statement deletion, Some -> None
    def depth_delta(t):
        t = re.sub(r'"(\\.|[^"\\])*"', '""', t.split("//")[0])
        return t.count("(") + t.count("[") + t.count("{") - t.count(")") - t.count("]") - t.count("}")
    in_test = False
    for i, l in enumerate(lines):
        if "#[cfg(test)]" in l:
            break
        s0 = l.strip()
        if not s0 or s0.startswith("//") or s0.startswith("#[") or s0.startswith("log::"):
            continue
        code = l.split("//")[0]
        ind = len(l) - len(l.lstrip())
        # swap two adjacent single-line statements of the same indentation
        if i + 1 < len(lines):
            n = lines[i + 1]
            if code.rstrip().endswith(";") and n.split("//")[0].rstrip().endswith(";") and len(n) - len(n.lstrip()) == ind \
                    and depth_delta(code) == 0 and depth_delta(n) == 0 and not s0.startswith("let ") and not n.strip().startswith("let ") \
                    and not s0.startswith("use ") and not n.strip().startswith("log::") and not s0.startswith("return") and not s0.startswith("pub ") and not s0.startswith("mod "):
                out.append({"file": rel, "line": i + 1, "end": i + 2, "op": "stmt-swap", "old": l + " / " + n.strip(), "new": n + "\n" + l})
        # drop one conjunct of a single-line `a && b`
        parts = re.split(r"\s&&\s", code)
        if len(parts) == 2 and depth_delta(parts[0]) == 0:
            m = re.match(r"^(\s*(?:\} else )?if |\s*let \w+ = |\s*)(.*)$", parts[0])
            if m and m.group(2).strip() and not m.group(2).strip().startswith("&&"):
                tail = parts[1]
                tm = re.match(r"^(.*?)( \{\s*|;\s*)?$", tail)
                out.append({"file": rel, "line": i + 1, "op": "conj-drop-right", "old": l, "new": m.group(1) + m.group(2).rstrip() + (tm.group(2) or "")})
                out.append({"file": rel, "line": i + 1, "op": "conj-drop-left", "old": l, "new": m.group(1) + tail})
        # multi-line expression statement deletion
        prev = lines[i - 1].split("//")[0].rstrip() if i > 0 else ""
        if (prev.endswith(";") or prev.endswith("{") or prev.endswith("}") or prev == "") and not code.rstrip().endswith(";") \
                and re.match(r"^\s*(self|[a-z_][\w]*)(\.|\()", l) and not re.match(r"^\s*(let|if|match|for|while|loop|return|fn|pub|use|impl|else)\b", l):
            d = depth_delta(code)
            j = i + 1
            while j < len(lines) and j < i + 12:
                cj = lines[j].split("//")[0]
                d += depth_delta(cj)
                if d == 0 and cj.rstrip().endswith(";"):
                    out.append({"file": rel, "line": i + 1, "end": j + 1, "op": "mstmt-del", "old": " ".join(x.strip() for x in lines[i:j + 1])[:200], "new": ""})
                    break
                if d < 0:
                    break
                j += 1
        for m in re.finditer(r"\bSome\(([a-z_][\w\.]*)\)", code):
            if "=>" not in code and "if let" not in code and "while let" not in code:
                out.append({"file": rel, "line": i + 1, "op": "some-none", "old": l, "new": l[:m.start()] + "None" + l[m.end():]})
    return out


def sh(cmd, cwd=None, env=None, timeout=900):
    """run in its own process group; on timeout the whole group is killed (a mutant may dead-lock zinoma)"""
    import signal
    p = subprocess.Popen(cmd, cwd=cwd, env=env, stdout=subprocess.PIPE, stderr=subprocess.STDOUT, text=True, start_new_session=True)
    try:
        out, _ = p.communicate(timeout=timeout)
        return p.returncode, out
    except subprocess.TimeoutExpired:
        try:
            os.killpg(p.pid, signal.SIGKILL)
        except Exception:
            pass
        try:
            p.communicate(timeout=10)
        except Exception:
            pass
        return 124, "timeout"


def worker(wid, q, results, lock):
    wt = os.path.join(ROOT, "w%d" % wid)
    env = dict(os.environ, CARGO_NET_OFFLINE="true", RUST_BACKTRACE="0")
    zenv = dict(env, ZV_REPO=wt, ZV_BUILD=os.path.join(ROOT, "b%d" % wid), ZV_EVIDENCE=os.path.join(ROOT, "e%d" % wid), ZV_REPLAY=os.path.join(ROOT, "r%d" % wid), ZV_NO_WITNESS="1")
    while True:
        try:
            m = q.get_nowait()
        except queue.Empty:
            return
        p = os.path.join(wt, m["file"])
        orig = open(p).read()
        lines = orig.split("\n")
        lines[m["line"] - 1:m.get("end", m["line"])] = m["new"].split("\n") if m["new"] != "" or m.get("end", m["line"]) == m["line"] else []
        open(p, "w").write("\n".join(lines))
        rec = dict(m)
        try:
            rc, out = sh(["cargo", "build", "--offline"], cwd=wt, env=env)
            if rc != 0:
                rec["status"] = "does-not-compile"
                continue
            if "warning: unused" in out or "warning: unreachable" in out or "never read" in out:
                rec["warnings"] = True
            if "--killed" in sys.argv:
                rc, out = 1, ""
            else:
                rc, out = sh(["cargo", "test", "--workspace", "--no-fail-fast", "--offline"], cwd=wt, env=env, timeout=90)
            if rc != 0:
                rec["status"] = "killed-by-tests" + (" (hang)" if rc == 124 else "")
                if "--include-killed" not in sys.argv and "--killed" not in sys.argv:
                    continue
            else:
                rec["status"] = "viable"
            rec["checks"] = {}
            for pid in sorted(props.PROPS):
                rc, out = sh([os.path.join(VERIF, "check"), pid], env=zenv, timeout=1200)
                tags = sorted(set(l.split()[1] for l in out.split("\n") if l.startswith("obligation ")))
                und = [l[11:200] for l in out.split("\n") if l.startswith("UNDECIDED")][:2]
                rec["checks"][pid] = {"rc": rc, "tags": tags, "undecided": und}
            rcs = [c["rc"] for c in rec["checks"].values()]
            rec["verdict"] = "violation" if 1 in rcs else ("undecided" if 2 in rcs else "survivor")
        finally:
            open(p, "w").write(orig)
            with lock:
                results.append(rec)
                if len(results) % 10 == 0 and "--only" not in sys.argv and "--new" not in sys.argv:
                    json.dump(results, open(os.path.join(HERE, "sweep_results.json"), "w"), indent=1)
                print("[w%d] %s:%d %s -> %s %s" % (wid, m["file"], m["line"], m["op"], rec.get("status"), rec.get("verdict", "")), flush=True)


def main():
    args = sys.argv[1:]
    nw = int(args[args.index("--workers") + 1]) if "--workers" in args else 6
    limit = int(args[args.index("--limit") + 1]) if "--limit" in args else None
    files = args[args.index("--files") + 1].split(",") if "--files" in args else FILES
    os.makedirs(ROOT, exist_ok=True)
    muts = []
    for rel in files:
        muts += mutants_of(rel, open(os.path.join("/repo", rel)).read())
    # de-duplicate, stable order
    seen, uniq = set(), []
    for m in muts:
        k = (m["file"], m["line"], m["new"])
        if k not in seen:
            seen.add(k)
            uniq.append(m)
    if "--new" in args:
        try:
            done = {(r["file"], r["line"], r["new"]) for r in json.load(open(os.path.join(HERE, "sweep_results.json")))}
        except Exception:
            done = set()
        uniq = [m for m in uniq if (m["file"], m["line"], m["new"]) not in done]
    if "--killed" in args:
        prev = json.load(open(os.path.join(HERE, "sweep_results.json")))
        uniq = [{k: r[k] for k in ("file", "line", "op", "old", "new") + (("end",) if "end" in r else ())} for r in prev if r.get("status", "").startswith("killed-by-tests")]
    if "--only" in args:
        want = set(args[args.index("--only") + 1].split(","))
        uniq = [m for m in uniq if "%s:%d" % (m["file"], m["line"]) in want or "%s:%d:%s" % (m["file"], m["line"], m["op"]) in want]
    if limit:
        step = max(1, len(uniq) // limit)
        uniq = uniq[::step][:limit]
    print("%d mutants" % len(uniq), flush=True)
    env = dict(os.environ, CARGO_NET_OFFLINE="true")
    for w in range(nw):
        wt = os.path.join(ROOT, "w%d" % w)
        if not os.path.exists(wt):
            subprocess.run(["git", "-C", "/repo", "worktree", "add", "--detach", wt, "HEAD", "-q"], check=True)
            subprocess.run(["cp", "-a", "/repo/target", os.path.join(wt, "target")], check=True)
        # share the verification cache of the unchanged tree
        b = os.path.join(ROOT, "b%d" % w)
        if not os.path.exists(b):
            os.makedirs(b)
            if os.path.exists(os.path.join(VERIF, "build", "cache")):
                shutil.copytree(os.path.join(VERIF, "build", "cache"), os.path.join(b, "cache"))
    q = queue.Queue()
    for m in uniq:
        q.put(m)
    results, lock = [], threading.Lock()
    ths = [threading.Thread(target=worker, args=(w, q, results, lock)) for w in range(nw)]
    t0 = time.time()
    for t in ths:
        t.start()
    for t in ths:
        t.join()
    outp = os.path.join(HERE, "sweep_results.json" if "--only" not in args else "sweep_partial.json")
    if "--killed" in args:
        outp = os.path.join(HERE, "sweep_killed.json")
    if "--new" in args and "--only" not in args and "--killed" not in args:
        try:
            results = json.load(open(outp)) + results
        except Exception:
            pass
    json.dump(results, open(outp, "w"), indent=1)
    for w in range(nw):
        subprocess.run(["git", "-C", "/repo", "worktree", "remove", "--force", os.path.join(ROOT, "w%d" % w)])
    shutil.rmtree(ROOT, ignore_errors=True)
    subprocess.run(["git", "-C", "/repo", "worktree", "prune"])
    st = {}
    for r in results:
        k = r.get("verdict") or r.get("status")
        st[k] = st.get(k, 0) + 1
    print("done in %.0f s: %s" % (time.time() - t0, st))


if __name__ == "__main__":
    main()
