#!/usr/bin/env python3
"""selftest/benign.py [ids...] - behaviour-preserving edits (selftest/benign.json) applied to a scratch worktree of /repo's
HEAD; EVERY claimed check is run.  Exit code 1 (a VIOLATION on code where the property holds) is a false alarm and a defect
of the machinery; exit code 2 (undecided) is counted and reported; 0 is what is wanted."""
import json, os, shutil, subprocess, sys, tempfile
HERE = os.path.dirname(os.path.abspath(__file__)); VERIF = os.path.dirname(HERE)
sys.path.insert(0, os.path.join(VERIF, "lib"))
import props
cat = json.load(open(os.path.join(HERE, "benign.json"))) + json.load(open(os.path.join(HERE, "benign2.json")))
want = set(sys.argv[1:])
tot = {0: 0, 1: 0, 2: 0}
for m in cat:
    if want and m["id"] not in want:
        continue
    tmp = tempfile.mkdtemp(prefix="zv-bn-", dir="/var/tmp")
    wt = os.path.join(tmp, "repo")
    try:
        subprocess.run(["git", "-C", "/repo", "worktree", "add", "--detach", wt, "HEAD", "-q"], check=True)
        ok = True
        for ch in m["changes"]:
            p = os.path.join(wt, ch["file"]); s = open(p).read()
            if s.count(ch["old"]) != 1:
                print("%s: anchor occurs %d times in %s" % (m["id"], s.count(ch["old"]), ch["file"])); ok = False; break
            open(p, "w").write(s.replace(ch["old"], ch["new"]))
        if not ok:
            continue
        subprocess.run(["cp", "-a", "/repo/target", os.path.join(wt, "target")])
        b = subprocess.run(["cargo", "build", "--offline"], cwd=wt, stdout=subprocess.PIPE, stderr=subprocess.STDOUT, text=True)
        if b.returncode != 0:
            print("%s: does not build" % m["id"]); continue
        env = dict(os.environ, ZV_REPO=wt, ZV_BUILD=os.path.join(tmp, "build"), ZV_EVIDENCE=os.path.join(tmp, "ev"), ZV_REPLAY=os.path.join(tmp, "rp"), ZV_NO_WITNESS="1")
        row = {}
        for pid in sorted(props.PROPS):
            r = subprocess.run([os.path.join(VERIF, "check"), pid], stdout=subprocess.PIPE, stderr=subprocess.STDOUT, text=True, env=env)
            row[pid] = r.returncode; tot[r.returncode] = tot.get(r.returncode, 0) + 1
            if r.returncode == 1:
                print("   FALSE ALARM %s %s:\n      %s" % (m["id"], pid, "\n      ".join(r.stdout.strip().split("\n")[-4:])))
        print("%-24s exit0=%d exit2=%s exit1=%s" % (m["id"], sum(1 for v in row.values() if v == 0), [p for p, v in row.items() if v == 2], [p for p, v in row.items() if v == 1]))
    finally:
        subprocess.run(["git", "-C", "/repo", "worktree", "remove", "--force", wt]); shutil.rmtree(tmp, ignore_errors=True)
print("total: exit0=%d undecided=%d false_alarms=%d" % (tot[0], tot[2], tot[1]))
sys.exit(1 if tot[1] else 0)
