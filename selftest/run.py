#!/usr/bin/env python3
"""selftest/run.py [ids...] — mutation self-test of the machinery (DESIGN §9).

Each entry of selftest/mutants.json is a textual change to a scratch copy of /repo/src, with the
checks expected to raise an alarm (exit 1) and, for benign changes, the checks that must stay at
exit 0.  A breaking patch that passes, or a benign one that alarms, is a defect of the machinery.
"""
import json, os, shutil, subprocess, sys, tempfile
HERE = os.path.dirname(os.path.abspath(__file__))
VERIF = os.path.dirname(HERE)

def main():
    cat = json.load(open(os.path.join(HERE, "mutants.json")))
    want = set(sys.argv[1:])
    bad = 0
    for m in cat:
        if want and m["id"] not in want:
            continue
        tmp = tempfile.mkdtemp(prefix="zv-st-", dir="/var/tmp")
        try:
            shutil.copytree("/repo/src", os.path.join(tmp, "repo/src"))
            for ch in m["changes"]:
                p = os.path.join(tmp, "repo", ch["file"])
                s = open(p).read()
                if s.count(ch["old"]) != 1:
                    print("%s: anchor text occurs %d times in %s" % (m["id"], s.count(ch["old"]), ch["file"]))
                    bad += 1
                    continue
                open(p, "w").write(s.replace(ch["old"], ch["new"]))
            env = dict(os.environ, ZV_REPO=os.path.join(tmp, "repo"), ZV_BUILD=os.path.join(tmp, "build"), ZV_EVIDENCE=os.path.join(tmp, "evidence"), ZV_REPLAY=os.path.join(tmp, "replay"))
            for pid, exp in m["expect"].items():
                r = subprocess.run([os.path.join(VERIF, "check"), pid], stdout=subprocess.PIPE, stderr=subprocess.STDOUT, text=True, env=env)
                tags = sorted(set(l.split()[1] for l in r.stdout.split("\n") if l.startswith("obligation ")))
                ok = r.returncode == exp
                if not ok:
                    bad += 1
                print("%-28s %s expect=%d got=%d %s %s" % (m["id"], pid, exp, r.returncode, "ok  " if ok else "MISMATCH", ",".join(tags)))
                if not ok or os.environ.get("ST_VERBOSE"):
                    print("    " + "\n    ".join(r.stdout.strip().split("\n")[-8:]))
        finally:
            shutil.rmtree(tmp, ignore_errors=True)
    # evidence files were written by scratch runs: restore them from the real tree
    return 1 if bad else 0

if __name__ == "__main__":
    sys.exit(main())
