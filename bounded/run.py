#!/usr/bin/env python3
"""bounded/run.py <PID> [--binary PATH] [--seed N] [--case NAME] : run the bounded stand-in families of a property.
Exit 0 = every case of the families behaved, 1 = a case attributed to <PID> failed (printed as JSON)."""
import json
import os
import subprocess
import sys
from concurrent.futures import ThreadPoolExecutor

HERE = os.path.dirname(os.path.abspath(__file__))
sys.path.insert(0, HERE)

FAMILIES = {
    "graph": ("fam_graph", ["C01", "C04", "C05", "C07", "C08", "C09", "C20"]),
    "incr": ("fam_incr", ["C02", "C03", "C04", "C05", "C12", "C13", "C15", "C18"]),
    "clean": ("fam_clean", ["C12", "C08", "C15"]),
    "config": ("fam_config", ["C09", "C13", "C14", "C19", "C18"]),
    "live": ("fam_live", ["C01", "C04", "C06", "C07", "C08", "C10", "C11", "C13", "C15", "C16", "C20"]),
}


def build_binary(repo):
    env = dict(os.environ, CARGO_NET_OFFLINE="true")
    b = subprocess.run(["cargo", "build", "--offline"], cwd=repo, stdout=subprocess.PIPE, stderr=subprocess.STDOUT, text=True, env=env)
    if b.returncode != 0:
        return None, b.stdout[-2000:]
    return os.path.join(repo, "target/debug/zinoma"), ""


def all_cases(pid, seed, tier="quick"):
    """every case of every family: which property a failing case speaks about is decided by the case itself (its
    `property` list), not by the family it lives in"""
    import importlib
    cs = []
    for fam, (mod, pids) in FAMILIES.items():
        try:
            m = importlib.import_module(mod)
        except ImportError:
            continue
        cs += m.cases(seed, tier)
    return cs


def _props(r):
    x = r.get("property")
    return list(x) if isinstance(x, (list, tuple)) else [x]


def run_all(binary, seed=0, only=None, workers=8, tier="quick"):
    cs = [c for c in all_cases(None, seed, tier) if only is None or c.name == only]
    with ThreadPoolExecutor(max_workers=workers) as ex:
        return list(ex.map(lambda c: c.run(binary), cs))


def summarise(pid, recs, seed):
    failed = [r for r in recs if not r["ok"] and pid in _props(r)]
    other = [r for r in recs if not r["ok"] and pid not in _props(r)]
    errs = [r for r in recs if r.get("harness_error")]
    return {
        "label": "bounded stand-in: a finite family of concrete projects and operation sequences run against the binary built from the current tree; a pass proves nothing and is not counted among the discharged obligations",
        "families": sorted(set(r["family"] for r in recs)),
        "cases": len(recs),
        "passed": sum(1 for r in recs if r["ok"] and not r.get("harness_error")),
        "failed": failed,
        "failed_for_other_properties": [{"case": r["case"], "property": r.get("property")} for r in other],
        "harness_errors": [{"case": r["case"], "error": r["harness_error"]} for r in errs],
        "bound": "graphs of at most 26 targets (one watch-mode case with CPUs + 3 targets, at most 43) plus five large ones (depth 200, width 300, 40x80, 30x60, a chain of 300 aggregates), file trees of at most 12 entries plus two large ones, operation sequences of at most 6 steps, seed %d" % seed,
        "sample_cases": [{"case": r["case"], "what": r["what"], "ok": r["ok"]} for r in recs[:6]],
    }


def run(pid, binary, seed=0, only=None, workers=8, tier="quick"):
    return summarise(pid, run_all(binary, seed, only, workers, tier), seed)


if __name__ == "__main__":
    pid = sys.argv[1]
    a = sys.argv[2:]
    binary = a[a.index("--binary") + 1] if "--binary" in a else None
    seed = int(a[a.index("--seed") + 1]) if "--seed" in a else 0
    only = a[a.index("--case") + 1] if "--case" in a else None
    tier = a[a.index("--tier") + 1] if "--tier" in a else "quick"
    if not binary:
        binary, err = build_binary(os.environ.get("ZV_REPO", "/repo"))
        if not binary:
            print(err)
            sys.exit(2)
    r = run(pid, binary, seed, only, tier=tier)
    print(json.dumps(r, indent=1))
    sys.exit(1 if r["failed"] else 0)
