"""bounded families for the incremental logic (C02, C03, C05, C13, C15, C18): a fixed list of file layouts and
edit operations; whether a script ran is read from the log it writes."""
import glob
import os
import signal
import time
from core import Case, yml, logging_build, SetupFailed


def _t(inputs=None, outputs=None, name="t", body="", sleep=0.0, deps=None):
    d = {}
    if deps:
        d["dependencies"] = deps
    if inputs is not None:
        d["input"] = inputs
    if outputs is not None:
        d["output"] = outputs
    d["build"] = logging_build(name, body=body, sleep=sleep)
    return d


def _ran(pr, name="t"):
    return ("s " + name) in pr.log()


def _run_ok(pr, *args, cwd=None):
    r = pr.run(*args, cwd=cwd)
    if r.rc != 0 or r.timed_out:
        raise SetupFailed(r, "zinoma %s" % " ".join(args))
    return r


BASE_FILES = {"src/a.txt": "a1", "src/b.csv": "b1", "src/sub/c.txt": "c1"}


def _setup_basic(pr, ext=None, extra=None):
    for f, c in BASE_FILES.items():
        pr.write(f, c)
    for f, c in (extra or {}).items():
        pr.write(f, c)
    res = {"paths": ["src"]}
    if ext is not None:
        res["extensions"] = ext
    pr.write("zinoma.yml", yml({"t": _t([res], [{"paths": ["out.txt"]}], body="cat src/a.txt > out.txt")}))


def skip_then(op_name, op, must_rebuild, prop, ext=None, extra=None, why=""):
    """build, check the second run skips (C03), apply op, check rebuild / still skipped"""
    def fn(pr):
        _setup_basic(pr, ext, extra)
        r = pr.run("t")
        if r.rc != 0 or not _ran(pr):
            return {"property": "C03", "expected": "first run builds t and exits 0", "observed": "exit %s log %s" % (r.rc, pr.log()), "zinoma": r.brief()}
        pr.clear_log()
        r = pr.run("t")
        if r.rc != 0 or _ran(pr):
            return {"property": "C03", "expected": "second run on an untouched tree skips t", "observed": "exit %s, script ran: %s" % (r.rc, _ran(pr)), "zinoma": r.brief()}
        op(pr)
        pr.clear_log()
        r = pr.run("t")
        if r.rc != 0:
            pl = list(prop) if isinstance(prop, (list, tuple)) else [prop]
            return {"property": pl + (["C04"] if r.timed_out else []), "expected": "exit 0 after `%s`" % op_name, "observed": "exit %s%s" % (r.rc, " (killed after the time-out: it never terminated)" if r.timed_out else ""), "zinoma": r.brief()}
        if must_rebuild and not _ran(pr):
            return {"property": prop, "expected": "after `%s` the script runs again%s" % (op_name, why), "observed": "skipped", "zinoma": r.brief()}
        if not must_rebuild and _ran(pr):
            return {"property": prop, "expected": "after `%s` the target is still skipped%s" % (op_name, why), "observed": "script ran", "zinoma": r.brief()}
        return None
    return fn


def _rm_state(pr):
    pr.remove(".zinoma")


def _corrupt(kind):
    def op(pr):
        fs = [f for f in glob.glob(pr.path(".zinoma/**"), recursive=True) if os.path.isfile(f)]
        for f in fs:
            data = open(f, "rb").read()
            with open(f, "wb") as h:
                if kind == "truncate":
                    h.write(data[: max(1, len(data) // 2)])
                elif kind == "empty":
                    pass
                elif kind == "garbage":
                    h.write(b"\xff" * 64)
                else:  # huge length prefix
                    h.write(b"\xff\xff\xff\xff\xff\xff\xff\x7f" + data[8:])
        pr.commands.append("corrupt (%s) every file under .zinoma" % kind)
        pr.edit("src/a.txt", "a2")
    return op


def corrupt_each_byte_case(pr):
    """every single-byte corruption of the state file, each followed by a change of the declared output: whatever the
    damaged record decodes to, a target whose resources changed is never skipped (and zinoma never fails)"""
    pr.write("src/a.txt", "a1")
    pr.write("zinoma.yml", yml({"t": _t([{"paths": ["src"]}, {"cmd_stdout": "echo constant"}], [{"paths": ["out.txt"]}], body="cat src/a.txt > out.txt")}))
    _run_ok(pr, "t")
    fs = [f for f in glob.glob(pr.path(".zinoma/*")) if os.path.isfile(f)]
    if len(fs) != 1:
        return None
    good = open(fs[0], "rb").read()
    pr.commands.append("for every byte offset of the state file (%d bytes): flip it to 0x00 / xor 0x01, delete out.txt, run" % len(good))
    for off in range(len(good)):
        for newb in (0, good[off] ^ 1, 0xFF):
            if newb == good[off]:
                continue
            with open(fs[0], "wb") as h:
                h.write(good[:off] + bytes([newb]) + good[off + 1:])
            if os.path.exists(pr.path("out.txt")):
                os.remove(pr.path("out.txt"))
            pr.clear_log()
            r = pr.run("t", timeout=20)
            if r.rc != 0 or r.timed_out or not _ran(pr):
                return {"property": ["C05", "C02"], "expected": "state file with byte %d set to 0x%02x (was 0x%02x) and out.txt deleted: the script runs again, exit 0" % (off, newb, good[off]), "observed": "exit %s timed_out %s, script ran: %s" % (r.rc, r.timed_out, _ran(pr)), "zinoma": r.brief()}
            if not os.path.exists(fs[0]):
                return None
            # the successful run re-wrote a good record: keep corrupting from the known good one
    return None


def _truncate_by(k):
    def op(pr):
        for f in [f for f in glob.glob(pr.path(".zinoma/**"), recursive=True) if os.path.isfile(f)]:
            data = open(f, "rb").read()
            with open(f, "wb") as h:
                h.write(data[: max(0, len(data) - k)])
        pr.commands.append("cut the last %d byte(s) off every file under .zinoma" % k)
        pr.edit("src/a.txt", "a2")
    return op


def _truncate_only(k):
    def op(pr):
        for f in [f for f in glob.glob(pr.path(".zinoma/**"), recursive=True) if os.path.isfile(f)]:
            data = open(f, "rb").read()
            with open(f, "wb") as h:
                h.write(data[: max(0, len(data) - k)])
        pr.commands.append("cut the last %d byte(s) off every file under .zinoma" % k)
    return op


def odd_timestamps_case(pr):
    """declared files dated before 1970, at the epoch, far in the future: a rewrite is still a change"""
    pr.write("src/old.txt", "first version")
    pr.write("src/other.txt", "o")
    pr.write("zinoma.yml", yml({"t": _t([{"paths": ["src"]}], [{"paths": ["out.txt"]}], body="cat src/old.txt > out.txt")}))
    for (t1, t2, what) in ((-86400 * 400, -86400 * 300, "before 1970"), (0, 1, "at the epoch"), (4102444800, 4102444900, "in the year 2100")):
        try:
            os.utime(pr.path("src/old.txt"), (t1, t1))
        except (OSError, OverflowError):
            continue
        pr.remove(".zinoma")
        _run_ok(pr, "t")
        pr.clear_log()
        _run_ok(pr, "t")
        with open(pr.path("src/old.txt"), "w") as f:
            f.write("rewritten %s" % what)
        os.utime(pr.path("src/old.txt"), (t2, t2))
        pr.commands.append("rewrite src/old.txt and date it %s (%d)" % (what, t2))
        pr.clear_log()
        r = pr.run("t")
        if r.rc != 0 or not _ran(pr):
            return {"property": "C02", "expected": "src/old.txt (dated %s) was rewritten with another content and another date: the script runs" % what, "observed": "exit %s, script ran %s" % (r.rc, _ran(pr)), "zinoma": r.brief()}
    return None


def touch_then_rerun_case(pr):
    """a file rewritten with identical content (new modification time): the target stays skipped, on that invocation and
    on the following ones"""
    pr.write("src/a.txt", "same")
    pr.write("src/b.txt", "b")
    pr.write("lib.txt", "l")
    prod = _t(None, [{"paths": ["gen.txt"]}], name="prod", body="echo constant > gen.txt")     # no input: regenerates the same output every run
    cons = _t([{"paths": ["src"]}, "prod.output"], [{"paths": ["out.txt"]}], name="cons", body="cat src/a.txt > out.txt")
    pr.write("zinoma.yml", yml({"prod": prod, "cons": cons}))
    _run_ok(pr, "cons")
    for rep in range(2, 7):
        if rep % 2 == 0:
            with open(pr.path("src/a.txt"), "w") as f:
                f.write("same")
            st = os.stat(pr.path("src/a.txt"))
            os.utime(pr.path("src/a.txt"), ns=(st.st_atime_ns, st.st_mtime_ns + 7_000_000))
            pr.commands.append("rewrite src/a.txt with the same content")
        pr.clear_log()
        r = _run_ok(pr, "cons")
        if "s cons" in pr.log():
            return {"property": "C03", "expected": "invocation %d: nothing cons declares has changed in content (src/a.txt and gen.txt are rewritten identically): cons is skipped" % rep, "observed": "cons ran; log %s" % pr.log(), "zinoma": r.brief()}
    return None


def no_input_case(pr):
    pr.write("zinoma.yml", yml({"t": _t(None, [{"paths": ["out.txt"]}], body="echo x > out.txt")}))
    for i in range(3):
        pr.clear_log()
        r = pr.run("t")
        if r.rc != 0 or not _ran(pr):
            return {"property": "C03", "expected": "a target that declares no input is executed on every invocation (run %d)" % (i + 1), "observed": "exit %s ran %s" % (r.rc, _ran(pr)), "zinoma": r.brief()}
    return None


def missing_path_case(pr, first=False):
    pr.write("src/a.txt", "1")
    pr.write("zinoma.yml", yml({"t": _t([{"paths": ["nowhere", "src", "neither"] if first else ["src", "nowhere"]}], None)}))
    r = pr.run("t")
    if r.rc != 0 or not _ran(pr):
        return {"property": "C15", "expected": "a missing declared path contributes nothing: build runs, exit 0", "observed": "exit %s" % r.rc, "zinoma": r.brief()}
    pr.clear_log()
    r = pr.run("t")
    if r.rc != 0 or _ran(pr):
        return {"property": "C15", "expected": "second run skipped (missing path still contributes nothing)", "observed": "exit %s ran %s" % (r.rc, _ran(pr)), "zinoma": r.brief()}
    pr.edit("src/a.txt", "2-longer")
    pr.clear_log()
    r = pr.run("t")
    if not _ran(pr):
        return {"property": ["C15", "C02"], "expected": "a missing path next to an existing one contributes nothing and takes nothing away: rewriting src/a.txt forces the build", "observed": "skipped", "zinoma": r.brief()}
    return None


def many_files_case(pr):
    os.makedirs(pr.path("src"))
    for i in range(12000):
        with open(pr.path("src/file_with_a_rather_long_descriptive_name_number_%05d.txt" % i), "w") as f:
            f.write(str(i))
    pr.files["src/file_with_a_rather_long_descriptive_name_number_NNNNN.txt"] = "<12000 small files>"
    pr.write("zinoma.yml", yml({"t": _t([{"paths": ["src"]}], None)}))
    r = pr.run("t", timeout=120)
    if r.rc != 0:
        return None
    pr.clear_log()
    r = pr.run("t", timeout=120)
    if r.rc != 0 or _ran(pr):
        return {"property": "C03", "expected": "a target with 12000 unchanged input files (a record of about 1 MB) is skipped by the next run", "observed": "exit %s, script ran %s" % (r.rc, _ran(pr)), "zinoma": r.brief()}
    return None


def symlink_case(pr):
    pr.write("real/data.txt", "v1")
    pr.mkdir("src")
    pr.symlink("../real/data.txt", "src/link.txt")
    pr.write("zinoma.yml", yml({"t": _t([{"paths": ["src"]}], None)}))
    if not _run_ok(pr, "t"):
        return None
    pr.clear_log()
    pr.run("t")
    if _ran(pr):
        return None  # never skipped: nothing to compare
    pr.edit("real/data.txt", "v2-longer")
    pr.clear_log()
    r = pr.run("t")
    if not _ran(pr):
        return {"property": ["C15", "C02"], "expected": "src/link.txt is a regular file (through the link) at or below the listed path: rewriting it forces the build", "observed": "skipped", "zinoma": r.brief()}
    return None


def symlink_dir_case(pr):
    """a link to a directory is not followed: files behind it are not part of the set (C12/C15)"""
    pr.write("outside/o.txt", "o1")
    pr.write("src/a.txt", "a1")
    pr.symlink("../outside", "src/ldir")
    pr.write("zinoma.yml", yml({"t": _t([{"paths": ["src"]}], None)}))
    if not _run_ok(pr, "t"):
        return None
    pr.clear_log()
    pr.run("t")
    if _ran(pr):
        return None
    pr.edit("outside/o.txt", "o2-longer")
    pr.clear_log()
    r = pr.run("t")
    if _ran(pr):
        return {"property": "C15", "expected": "a file reached only through a symbolic link to a directory is not below the listed path (links are not followed): editing it does not rebuild", "observed": "script ran", "zinoma": r.brief()}
    return None


def kill_case(sig, revert):
    """zinoma dies (or is told to stop) while the script of a previously recorded target runs: the next invocation
    must run the script again, even when the tree is back to what the old record says"""
    def fn(pr):
        pr.write("src/a.txt", "a1")
        pr.write("zinoma.yml", yml({"t": _t([{"paths": ["src"]}], [{"paths": ["out.txt"]}], body='cat src/a.txt > out.txt\nif [ -f slow ]; then echo "m t" >> "$ZLOG"; sleep 30; fi')}))
        if not _run_ok(pr, "t"):
            return None
        pr.write("slow", "", record=False)
        pr.edit("src/a.txt", "a2-longer")
        pr.clear_log()
        p = pr.spawn("t")
        if not pr.wait_for(lambda: "m t" in pr.log(), 20):
            return None
        t_a = os.stat(pr.path("src/a.txt"))
        if sig == "KILL":
            try:
                os.killpg(p.pid, signal.SIGKILL)
            except OSError:
                pass
        else:
            os.kill(p.pid, signal.SIGTERM)
        pr.wait_exit(p, 15)
        pr.kill(p)
        pr.commands.append("kill -%s zinoma while the script sleeps" % sig)
        os.remove(pr.path("slow"))
        if revert:
            # put the tree back exactly as the old record saw it (content and mtime of input, content of output)
            pr.commands.append("restore src/a.txt and out.txt to their recorded content")
            with open(pr.path("src/a.txt"), "w") as f:
                f.write("a1")
            with open(pr.path("out.txt"), "w") as f:
                f.write("a1")
        pr.clear_log()
        r = pr.run("t")
        if not _ran(pr):
            return {"property": "C05", "expected": "a build interrupted by SIG%s is not remembered as done: the next invocation runs the script" % sig, "observed": "skipped", "zinoma": r.brief()}
        return None
    return fn


def fail_then_revert_case(pr):
    pr.write("src/a.txt", "a1")
    pr.write("zinoma.yml", yml({"t": _t([{"paths": ["src"]}], None, body="if [ -f bad ]; then exit 4; fi")}))
    if not _run_ok(pr, "t"):
        return None
    pr.write("bad", "", record=False)
    pr.edit("src/a.txt", "a2-longer")
    r = pr.run("t")
    if r.rc == 0:
        return {"property": "C07", "expected": "non-zero exit when the script fails", "observed": "exit 0", "zinoma": r.brief()}
    os.remove(pr.path("bad"))
    with open(pr.path("src/a.txt"), "w") as f:
        f.write("a1")
    pr.clear_log()
    r = pr.run("t")
    if not _ran(pr):
        return {"property": "C05", "expected": "after a failed build the next invocation runs the script again (even with the input restored)", "observed": "skipped", "zinoma": r.brief()}
    return None


# ---- X.output (C13) and per-target state (C18) -----------------------------------------------------

def _xoutput_project(pr, imported):
    prod = _t([{"paths": ["psrc"]}], [{"paths": ["gen.txt"]}, {"cmd_stdout": "cat ver.txt"}], name="prod", body="cat psrc/p.txt > gen.txt")
    if imported:
        pr.write("lib/psrc/p.txt", "p1")
        pr.write("lib/ver.txt", "1")
        pr.write("lib/zinoma.yml", yml({"prod": prod}, name="lib"))
        pr.write("ver.txt", "root-1")
        cons = _t(["lib::prod.output"], [{"paths": ["final.txt"]}], name="cons", body="cat lib/gen.txt > final.txt")
        pr.write("zinoma.yml", yml({"cons": cons}, name="root", imports={"lib": "lib"}))
        return "lib/"
    pr.write("psrc/p.txt", "p1")
    pr.write("ver.txt", "1")
    cons = _t(["prod.output"], [{"paths": ["final.txt"]}], name="cons", body="cat gen.txt > final.txt")
    pr.write("zinoma.yml", yml({"prod": prod, "cons": cons}))
    return ""


def xoutput_case(imported, op):
    def fn(pr):
        pre = _xoutput_project(pr, imported)
        r = pr.run("cons")
        log = pr.log()
        if r.rc != 0 or "e prod" not in log or "s cons" not in log or log.index("e prod") > log.index("s cons"):
            return {"property": "C13", "expected": "X.output: prod is built first, then cons; exit 0", "observed": "exit %s log %s" % (r.rc, log), "zinoma": r.brief()}
        pr.clear_log()
        r = pr.run("cons")
        if r.rc != 0 or pr.log():
            return {"property": "C13", "expected": "nothing changed: prod and cons are both skipped", "observed": "exit %s log %s" % (r.rc, pr.log()), "zinoma": r.brief()}
        if op == "gen":
            pr.edit(pre + "gen.txt", "edited-by-hand")
        elif op == "ver":
            pr.edit(pre + "ver.txt", "2")
        elif op == "src":
            pr.edit(pre + "psrc/p.txt", "p2-longer")
        pr.clear_log()
        r = pr.run("cons")
        if r.rc != 0 or "s cons" not in pr.log():
            return {"property": "C13", "expected": "a change to prod's declared output (%s) re-runs the consumer" % op, "observed": "exit %s log %s" % (r.rc, pr.log()), "zinoma": r.brief()}
        return None
    return fn


def two_producers_same_cmd_case(pr):
    """two producers in different directories declare the same command text as output"""
    for d in ("p1", "p2"):
        pr.write(d + "/v.txt", d + "-1")
        pr.write(d + "/zinoma.yml", yml({"gen": _t(None, [{"cmd_stdout": "cat v.txt"}], name=d + "gen")}, name=d))
    pr.write("zinoma.yml", yml({"cons": _t(["p1::gen.output", "p2::gen.output"], None, name="cons")}, name="root", imports={"p1": "p1", "p2": "p2"}))
    if not _run_ok(pr, "cons"):
        return None
    pr.clear_log()
    r = pr.run("cons")
    if "s cons" in pr.log():
        return {"property": "C03", "expected": "unchanged: the consumer of two producers with the same command text is skipped", "observed": "cons ran", "zinoma": r.brief()}
    for d in ("p1", "p2"):
        pr.edit(d + "/v.txt", d + "-2")
        pr.clear_log()
        r = pr.run("cons")
        if "s cons" not in pr.log():
            return {"property": "C13", "expected": "a change of %s/v.txt (command output of producer %s) re-runs the consumer" % (d, d), "observed": "cons skipped; log %s" % pr.log(), "zinoma": r.brief()}
    return None


def per_target_state_case(pr):
    pr.write("a/in.txt", "1")
    pr.write("b/in.txt", "1")
    pr.write("zinoma.yml", yml({"ta": _t([{"paths": ["a"]}], None, name="ta"), "tb": _t([{"paths": ["b"]}], None, name="tb", body="if [ -f bad ]; then exit 2; fi")}))
    if not _run_ok(pr, "ta", "tb"):
        return None
    pr.write("bad", "", record=False)
    pr.edit("b/in.txt", "2-longer")
    pr.clear_log()
    pr.run("ta", "tb")
    if "s ta" in pr.log():
        return {"property": "C18", "expected": "ta is skipped whatever happens to tb (tb fails)", "observed": "log %s" % pr.log()}
    pr.clear_log()
    pr.run("--clean", "tb")
    pr.clear_log()
    r = pr.run("ta")
    if "s ta" in pr.log():
        return {"property": "C18", "expected": "cleaning tb does not touch ta's record: ta still skipped", "observed": "ta ran", "zinoma": r.brief()}
    return None


def prefix_named_targets_case(pr):
    """targets whose names are prefixes of one another keep separate records"""
    names = ["site", "site-assets", "site_assets", "sit", "build", "build-release"]
    ts = {}
    for n in names:
        pr.write("in_%s/x.txt" % n, "1")
        ts[n] = _t([{"paths": ["in_%s" % n]}], [{"paths": ["out_%s.txt" % n]}], name=n, body="echo 1 > out_%s.txt" % n)
    pr.write("zinoma.yml", yml(ts))
    _run_ok(pr, *names)
    for victim in ("site", "build", "sit"):
        pr.edit("in_%s/x.txt" % victim, "changed-%s" % victim)
        pr.clear_log()
        r = pr.run(*names)
        started = sorted(l[2:] for l in pr.log() if l.startswith("s "))
        if started != [victim]:
            return {"property": ["C18", "C03"], "expected": "after a change to %s's input exactly %s runs; the others (%s) keep their own record and are skipped" % (victim, victim, names), "observed": "started %s" % started, "zinoma": r.brief()}
        pr.clear_log()
        r = pr.run("--clean", victim)
        pr.clear_log()
        r = pr.run(*names)
        if pr.log():
            return {"property": ["C18", "C12", "C03"], "expected": "`--clean %s` touches only %s's state: afterwards every target is skipped" % (victim, victim), "observed": "log %s" % pr.log(), "zinoma": r.brief()}
    return None


def imported_same_decision_case(pr):
    pr.write("lib/in/x.txt", "1")
    pr.write("lib/zinoma.yml", yml({"lt": _t([{"paths": ["in"]}], None, name="lt")}, name="lib"))
    pr.write("zinoma.yml", yml({"top": _t(None, None, name="top", deps=["lib::lt"])}, name="root", imports={"lib": "lib"}))
    if not _run_ok(pr, "lib::lt"):
        return None
    for (args, cwd, how) in ((["top"], None, "as a dependency"), (["lt"], pr.path("lib"), "from its own project directory"), (["-p", "lib", "lt"], None, "with -p lib"), (["lib::lt"], None, "qualified from the importing project")):
        pr.clear_log()
        r = pr.run(*args, cwd=cwd)
        if r.rc != 0 or "s lt" in pr.log():
            return {"property": "C18", "expected": "lt, built once from the importing project, is skipped when reached %s" % how, "observed": "exit %s log %s" % (r.rc, pr.log()), "zinoma": r.brief()}
    return None


def shared_file_case(pr):
    """a checked-in file that one target regenerates (its output) and another, unordered, target reads (its input)"""
    pr.write("gen/api.txt", "old")
    pr.write("spec.txt", "v1")
    gen = _t([{"paths": ["spec.txt"]}], [{"paths": ["gen"]}], name="gen", body="cat spec.txt > gen/api.txt", sleep=0.6)
    lint = _t([{"paths": ["gen"]}], None, name="lint")
    pr.write("zinoma.yml", yml({"gen": gen, "lint": lint}))
    if not _run_ok(pr, "gen", "lint"):
        return None
    pr.clear_log()
    r = pr.run("gen", "lint")   # lint may legitimately run again (gen rewrote its input after lint looked at it)
    if "s gen" in pr.log():
        return {"property": "C03", "expected": "gen completed and nothing it declares changed since: the second invocation skips it (lint may run again: gen rewrote its input)", "observed": "gen ran again; log %s" % pr.log(), "zinoma": r.brief()}
    pr.clear_log()
    r = pr.run("gen", "lint")
    if "s gen" in pr.log():
        return {"property": "C03", "expected": "gen completed, nothing it declares changed since: the third invocation on the untouched tree skips it", "observed": "gen ran again; log %s" % pr.log(), "zinoma": r.brief()}
    pr.clear_log()
    r = pr.run("gen", "lint")
    if pr.log():
        return {"property": "C03", "expected": "a fourth invocation on the untouched tree runs no script", "observed": "log %s" % pr.log(), "zinoma": r.brief()}
    return None


def in_and_out_case(pr):
    """a file that is both input and output of one target (formatter-style)"""
    pr.write("code/a.c", "int x;")
    t = _t([{"paths": ["code"]}], [{"paths": ["code"]}], body="echo ' ' >> code/a.c")
    pr.write("zinoma.yml", yml({"t": t}))
    if not _run_ok(pr, "t"):
        return None
    pr.clear_log()
    r = pr.run("t")
    if _ran(pr):
        # the input half was recorded before the script rewrote it: one more run is legitimate; the one after is not
        pr.clear_log()
        r = pr.run("t")
    return None


def overlapping_resources_case(pr):
    """the same file is reachable through two resources of one target (a directory and a path inside it; X.output
    plus the directory that contains it): it is one file of the set - an unchanged tree is skipped, and removing
    another file is noticed"""
    pr.write("src/a.txt", "a")
    pr.write("src/extra.txt", "e")
    pr.write("src/sub/b.txt", "b")
    prod = _t([{"paths": ["src"]}], [{"paths": ["gen/out.txt"]}], name="prod", body="mkdir -p gen && cat src/a.txt > gen/out.txt")
    cons = _t([{"paths": ["src", "src/sub"]}, {"paths": ["gen"]}, "prod.output"], None, name="cons")
    pr.write("zinoma.yml", yml({"prod": prod, "cons": cons}))
    _run_ok(pr, "cons")
    pr.clear_log()
    r = pr.run("cons")
    c03 = None
    if pr.log():
        c03 = {"property": ["C03", "C13"], "expected": "unchanged tree: prod and cons (whose resources overlap: src and src/sub, gen and prod.output) are skipped", "observed": "log %s" % pr.log(), "zinoma": r.brief()}
    pr.remove("src/extra.txt")           # a declared file that is listed once
    pr.clear_log()
    r = pr.run("cons")
    if "s cons" not in pr.log():
        rec = {"property": ["C02", "C13"], "expected": "src/extra.txt, a declared input of cons, was removed: cons runs (its other inputs are reachable through two resources each)", "observed": "log %s" % pr.log(), "zinoma": r.brief()}
        if c03:
            rec["property"] = ["C02", "C13", "C03"]
            rec["also"] = c03["expected"] + " - observed: " + c03["observed"]
        return rec
    if c03:
        return c03
    pr.edit("src/sub/b.txt", "b2-longer")
    pr.clear_log()
    r = pr.run("cons")
    if "s cons" not in pr.log():
        return {"property": "C02", "expected": "a rewritten file reachable through two resources forces cons to run", "observed": "log %s" % pr.log(), "zinoma": r.brief()}
    return None


def concurrent_saves_case(pr):
    """ten independent targets with large records finish at the same moment (their scripts do nothing): each record is
    its own"""
    ts = {}
    for i in range(10):
        os.makedirs(pr.path("in%d" % i))
        for j in range(700):
            with open(pr.path("in%d/file_%04d.txt" % (i, j)), "w") as f:
                f.write("%d %d" % (i, j))
        ts["t%d" % i] = _t([{"paths": ["in%d" % i]}], None, name="t%d" % i)
    pr.files["in<i>/file_<j>.txt"] = "<10 directories of 700 small files>"
    pr.write("zinoma.yml", yml(ts))
    names = sorted(ts)
    for rep in range(4):
        if not _run_ok(pr, *names):
            return None
        pr.clear_log()
        r = pr.run(*names)
        if pr.log():
            return {"property": ["C18", "C03"], "expected": "ten independent targets built in one invocation: each has its own record, an untouched tree runs nothing (round %d)" % rep, "observed": "log %s" % pr.log(), "zinoma": r.brief()}
        pr.edit("in3/file_0005.txt", "changed-%d" % rep)
        pr.clear_log()
        r = pr.run(*names)
        started = sorted(l for l in pr.log() if l.startswith("s "))
        if started != ["s t3"]:
            return {"property": ["C18", "C02"], "expected": "after editing in3/file_0005.txt exactly t3 runs", "observed": "started %s" % started, "zinoma": r.brief()}
        pr.remove(".zinoma")
    return None


def dep_and_output_case(pr):
    """the consumer lists the producer both under dependencies and as X.output"""
    pr.write("psrc/p.txt", "p1")
    prod = _t([{"paths": ["psrc"]}], [{"paths": ["gen.txt"]}], name="prod", body="cat psrc/p.txt > gen.txt")
    pr.write("csrc/c.txt", "c1")
    cons = _t([{"paths": ["csrc"]}, "prod.output"], [{"paths": ["final.txt"]}], name="cons", body="cat gen.txt > final.txt", deps=["prod"])
    pr.write("zinoma.yml", yml({"prod": prod, "cons": cons}))
    if not _run_ok(pr, "cons"):
        return None
    pr.clear_log()
    pr.run("cons")
    if pr.log():
        return {"property": "C03", "expected": "untouched tree: prod and cons skipped", "observed": "log %s" % pr.log()}
    pr.edit("psrc/p.txt", "p2-longer")
    pr.clear_log()
    r = pr.run("cons")
    if "s cons" not in pr.log() or (pr.read("final.txt") or "").strip() != "p2-longer":
        return {"property": ["C13", "C02"], "expected": "prod listed under dependencies and as prod.output: its changed output re-runs cons", "observed": "log %s final.txt=%r" % (pr.log(), pr.read("final.txt")), "zinoma": r.brief()}
    return None


def sibling_import_case(pr):
    """mono-repo layout: app imports ../lib; lib's target is decided identically from app, as a dependency, from lib"""
    pr.write("lib/src/a.txt", "hello")
    pr.write("lib/zinoma.yml", yml({"gen": _t([{"paths": ["src"]}, {"cmd_stdout": "echo constant"}], [{"paths": ["out.txt"]}], name="gen", body="cat src/a.txt > out.txt")}, name="lib"))
    pr.write("app/zinoma.yml", yml({"all": _t(None, None, name="all", deps=["lib::gen"])}, imports={"lib": "../lib"}))
    pr.symlink("lib", "liblink")
    pr.write("app2/zinoma.yml", yml({"all": _t(None, None, name="all2", deps=["lib::gen"])}, imports={"lib": "../liblink"}))
    r = pr.run("all", cwd=pr.path("app"))
    if r.rc != 0 or "s gen" not in pr.log():
        return None
    for (args, cwd, how) in ((["gen"], "lib", "from lib's own directory"), (["lib::gen"], "app", "qualified from app"), (["all"], "app", "as a dependency from app"), (["all"], "app2", "from app2, which imports lib through a symbolic link"), (["-p", "lib", "gen"], ".", "with -p lib"), (["-p", "liblink", "gen"], ".", "with -p through a symbolic link to lib"), (["gen"], "liblink", "from inside the symbolic link to lib"), (["gen"], "lib", "from lib again")):
        pr.clear_log()
        r = pr.run(*args, cwd=pr.path(cwd))
        if r.rc != 0 or "s gen" in pr.log():
            return {"property": ["C18", "C03"], "expected": "lib::gen, built once through app (imports ../lib), is skipped when reached %s" % how, "observed": "exit %s log %s" % (r.rc, pr.log()), "zinoma": r.brief()}
    return None


def nested_filters_case(pr):
    """two resources of one target: a filtered path and an unfiltered path nested below it (and the other way round)"""
    pr.write("pkg/a.json", "{}")
    pr.write("pkg/api/dist/blob.bin", "b1")
    pr.write("docs/img/logo.png", "l1")
    pr.write("docs/readme.md", "r1")
    pr.write("same/data.bin", "s1")
    pr.write("same/x.txt", "t1")
    pr.write("same2/data.bin", "s1")
    t = _t([{"paths": ["pkg"], "extensions": ["json"]}, {"paths": ["pkg/api/dist"]}, {"paths": ["docs"]}, {"paths": ["docs/img"], "extensions": ["png"]},
            {"paths": ["same"], "extensions": ["txt"]}, {"paths": ["same"]}, {"paths": ["same2"]}, {"paths": ["same2"], "extensions": ["txt"]}], None)
    pr.write("zinoma.yml", yml({"t": t}))
    if not _run_ok(pr, "t"):
        return None
    pr.clear_log()
    pr.run("t")
    if _ran(pr):
        return None
    for f in ("pkg/api/dist/blob.bin", "docs/img/logo.png", "pkg/a.json", "docs/readme.md", "same/data.bin", "same2/data.bin"):
        pr.edit(f, "changed-" + f)
        pr.clear_log()
        r = pr.run("t")
        if not _ran(pr):
            return {"property": ["C15", "C02", "C13"], "expected": "%s belongs to a declared files resource (nested paths with different filters): rewriting it forces the build" % f, "observed": "skipped", "zinoma": r.brief()}
    return None


def dot_and_sibling_case(pr):
    """paths `.` and `../shared` of a project in a sub-directory"""
    pr.write("shared/lib.txt", "l1")
    pr.write("app/main.txt", "m1")
    t = _t([{"paths": [".", "../shared"], "extensions": ["txt"]}], [{"paths": [".", "../dist"], "extensions": ["gen"]}], body="mkdir -p ../dist && cat main.txt ../shared/lib.txt > ../dist/bundle.gen")
    pr.write("app/zinoma.yml", yml({"t": t}))
    app = pr.path("app")
    r = pr.run("t", cwd=app)
    if r.rc != 0:
        return None
    pr.clear_log()
    pr.run("t", cwd=app)
    if _ran(pr):
        return None
    pr.edit("shared/lib.txt", "l2-longer")
    pr.clear_log()
    r = pr.run("t", cwd=app)
    if not _ran(pr):
        return {"property": ["C15", "C02"], "expected": "../shared/lib.txt is below the listed path ../shared: rewriting it forces the build", "observed": "skipped", "zinoma": r.brief()}
    r = pr.run("--clean", cwd=app)
    if pr.exists("dist/bundle.gen"):
        return {"property": ["C15", "C12"], "expected": "--clean removes ../dist/bundle.gen (output paths [., ../dist], extensions [gen])", "observed": "still there", "zinoma": r.brief()}
    if not pr.exists("shared/lib.txt") or not pr.exists("app/main.txt"):
        return {"property": "C12", "expected": "--clean removes nothing but outputs and state", "observed": "inputs deleted"}
    return None


def random_history_case(seed, k):
    """a seeded random history of edits between invocations, against a reference model: after each invocation the
    script must have run iff the set of declared files or the content of one of them changed since the last run that
    completed (the first invocation always runs)"""
    import random
    rnd = random.Random(seed * 1000 + k)
    ext = rnd.choice([None, ["txt"], ["txt", "csv"]])

    def matches(name):
        return ext is None or any(name.endswith("." + e) for e in ext)

    def fn(pr):
        files = {"src/a.txt": "a0", "src/b.csv": "b0", "src/d/c.txt": "c0", "src/d/e.md": "e0"}
        for f, c in files.items():
            pr.write(f, c)
        res = {"paths": ["src"]}
        if ext:
            res["extensions"] = ext
        pr.write("zinoma.yml", yml({"t": _t([res], None)}))
        pr.run("t")
        if not _ran(pr):
            return {"property": "C02", "expected": "first invocation runs the script", "observed": "skipped"}
        n = 0
        for step in range(6):
            ops = []
            changed = False
            for _ in range(rnd.randint(0, 2)):
                op = rnd.choice(["edit", "add", "remove", "rename", "noop"])
                names = sorted(files)
                if op == "edit" and names:
                    f = rnd.choice(names)
                    n += 1
                    files[f] = "edit%d-%s" % (n, "x" * n)
                    pr.edit(f, files[f])
                    changed |= matches(f)
                elif op == "add":
                    n += 1
                    f = "src/%s/new%d.%s" % (rnd.choice([".", "d", "z"]), n, rnd.choice(["txt", "csv", "md"]))
                    f = os.path.normpath(f)
                    files[f] = "new%d" % n
                    pr.write(f, files[f], record=False)
                    pr.commands.append("create %s" % f)
                    changed |= matches(f)
                elif op == "remove" and len(names) > 1:
                    f = rnd.choice(names)
                    del files[f]
                    pr.remove(f)
                    changed |= matches(f)
                elif op == "rename" and names:
                    f = rnd.choice(names)
                    n += 1
                    g = os.path.join(os.path.dirname(f), "ren%d%s" % (n, os.path.splitext(f)[1]))
                    files[g] = files.pop(f)
                    os.rename(pr.path(f), pr.path(g))
                    pr.commands.append("mv %s %s" % (f, g))
                    changed |= matches(f) or matches(g)
                ops.append(op)
            pr.clear_log()
            r = pr.run("t")
            if r.rc != 0:
                return {"property": "C02", "expected": "exit 0", "observed": "exit %s" % r.rc, "zinoma": r.brief()}
            if changed and not _ran(pr):
                return {"property": ["C02", "C15"], "expected": "step %d (%s; extensions %s): a declared file was added, removed, renamed or rewritten, so the script runs" % (step, ops, ext), "observed": "skipped", "zinoma": r.brief()}
            if not changed and _ran(pr):
                return {"property": ["C03", "C15"], "expected": "step %d (%s; extensions %s): nothing among the declared files changed, so the target is skipped" % (step, ops, ext), "observed": "script ran", "zinoma": r.brief()}
        return None
    return fn


def cmd_input_case(pr):
    """a cmd_stdout input of the target itself: unchanged text = skip, changed text = run, failing command = run"""
    pr.write("ver.txt", "1")
    pr.write("zinoma.yml", yml({"t": _t([{"cmd_stdout": "cat ver.txt"}], None)}))
    _run_ok(pr, "t")
    pr.clear_log()
    r = pr.run("t")
    if _ran(pr):
        return {"property": "C03", "expected": "the command prints the recorded text: skipped", "observed": "script ran", "zinoma": r.brief()}
    pr.edit("ver.txt", "2")
    pr.clear_log()
    r = pr.run("t")
    if not _ran(pr):
        return {"property": "C02", "expected": "the cmd_stdout input prints another text: the script runs", "observed": "skipped", "zinoma": r.brief()}
    return None


def xoutput_filtered_case(pr):
    """the producer's output carries an extension filter: only matching files are inputs of the consumer"""
    pr.write("psrc/p.txt", "p1")
    prod = _t([{"paths": ["psrc"]}], [{"paths": ["gen"], "extensions": ["txt"]}], name="prod", body="mkdir -p gen && cat psrc/p.txt > gen/a.txt && [ -f gen/blob.bin ] || echo b > gen/blob.bin")
    cons = _t(["prod.output"], [{"paths": ["final.txt"]}], name="cons", body="cat gen/a.txt > final.txt")
    pr.write("zinoma.yml", yml({"prod": prod, "cons": cons}))
    _run_ok(pr, "cons")
    pr.clear_log()
    pr.run("cons")
    if pr.log():
        return {"property": "C03", "expected": "untouched tree: nothing runs", "observed": "log %s" % pr.log()}
    pr.edit("gen/blob.bin", "other-binary")
    pr.clear_log()
    r = pr.run("cons")
    if pr.log():
        return {"property": ["C13", "C15"], "expected": "gen/blob.bin does not match prod's output filter [txt]: it is an input of nobody, nothing runs", "observed": "log %s" % pr.log(), "zinoma": r.brief()}
    pr.edit("psrc/p.txt", "p2-longer")
    pr.clear_log()
    r = pr.run("cons")
    if "s cons" not in pr.log():
        return {"property": "C13", "expected": "prod rewrites gen/a.txt, which matches its output filter: the consumer re-runs", "observed": "log %s" % pr.log(), "zinoma": r.brief()}
    return None


def shared_cmd_case(pr):
    """a command whose output one target's build changes, declared by that target (as output), by its consumer (through
    X.output) and by an unrelated target (as input): every skip decision uses what the command prints NOW"""
    pr.write("version.txt", "0")
    pr.write("trigger/t.txt", "one\n")
    bump = _t([{"paths": ["trigger"]}], [{"cmd_stdout": "cat version.txt"}], name="bump", body="sleep 0.5; grep -c . trigger/t.txt > version.txt")
    package = _t(["bump.output"], None, name="package")
    notes = _t([{"cmd_stdout": "cat version.txt"}], None, name="notes")
    # warmup looks at the same command a little later - while bump's script is running (it waits for an input-less target)
    delay = _t(None, None, name="delay", body="sleep 0.2")
    warmup = _t([{"cmd_stdout": "cat version.txt"}], None, name="warmup", deps=["delay"])
    pr.write("zinoma.yml", yml({"bump": bump, "package": package, "notes": notes, "delay": delay, "warmup": warmup}))
    ALLT = ("package", "notes", "warmup")
    _run_ok(pr, *ALLT)
    pr.clear_log()
    _run_ok(pr, *ALLT)          # notes / warmup may run again (bump changed the text after they looked at it)
    pr.clear_log()
    _run_ok(pr, *ALLT)
    if [l for l in pr.log() if not l.endswith(" delay")]:
        return {"property": "C03", "expected": "third invocation on an untouched tree: nothing but the input-less `delay` runs", "observed": "log %s" % pr.log()}
    pr.clear_log()
    pr.edit("trigger/t.txt", "one\ntwo\n")     # bump runs again and changes what `cat version.txt` prints
    pr.clear_log()
    r = _run_ok(pr, *ALLT)
    log = pr.log()
    if "s bump" not in log:
        return {"property": "C02", "expected": "bump's input changed: it runs", "observed": "log %s" % log, "zinoma": r.brief()}
    if "s package" not in log:
        return {"property": ["C02", "C13"], "expected": "bump changed what `cat version.txt` prints (its declared output, an input of package): package runs in the same invocation", "observed": "package skipped; log %s" % log, "zinoma": r.brief()}
    pr.clear_log()
    r = _run_ok(pr, *ALLT)
    if "s notes" not in log and "s notes" not in pr.log():
        return {"property": "C02", "expected": "`cat version.txt` (input of notes) prints another text than recorded: notes runs, in that invocation or the next", "observed": "notes skipped twice; log %s" % pr.log(), "zinoma": r.brief()}
    return None


def other_target_sets_case(pr):
    """invocations with different target sets do not disturb each other's records"""
    ts = {}
    for n in ("a", "b", "c"):
        pr.write("in_%s/x.txt" % n, "1")
        ts[n] = _t([{"paths": ["in_%s" % n]}], [{"paths": ["out_%s.txt" % n]}], name=n, body="echo 1 > out_%s.txt" % n)
    ts["all"] = {"dependencies": ["a", "b"]}
    pr.write("lib/in/x.txt", "1")
    pr.write("lib/zinoma.yml", yml({"pack": _t([{"paths": ["in"]}], None, name="pack")}, name="lib"))
    pr.write("zinoma.yml", yml(ts, name="root", imports={"lib": "lib"}))
    _run_ok(pr, "all", "c", "lib::pack")
    for args in (["a"], ["b"], ["c"], ["lib::pack"], ["all"], ["a", "c"], ["all", "c", "lib::pack"]):
        pr.clear_log()
        r = _run_ok(pr, *args)
        if pr.log():
            return {"property": ["C03", "C08", "C18"], "expected": "every target was built once; on the untouched tree `zinoma %s` (after invocations with other target sets) runs nothing" % " ".join(args), "observed": "log %s" % pr.log(), "zinoma": r.brief()}
    return None


def xoutput_dotdot_case(pr):
    """an imported project writes into a shared directory above itself: output declared as ../dist/gen.txt"""
    pr.write("lib/src.txt", "one")
    pr.write("lib/zinoma.yml", yml({"gen": _t([{"paths": ["src.txt"]}], [{"paths": ["../dist/gen.txt"]}], name="gen", body="mkdir -p ../dist && cat src.txt > ../dist/gen.txt")}, name="lib"))
    pr.write("zinoma.yml", yml({"use": _t(["lib::gen.output"], None, name="use")}, name="root", imports={"lib": "lib"}))
    _run_ok(pr, "use")
    pr.clear_log()
    _run_ok(pr, "use")
    if pr.log():
        return {"property": "C03", "expected": "untouched tree: nothing runs", "observed": "log %s" % pr.log()}
    pr.edit("lib/src.txt", "two-longer")
    pr.clear_log()
    r = _run_ok(pr, "use")
    if "s use" not in pr.log():
        return {"property": ["C13", "C15"], "expected": "lib::gen rewrote dist/gen.txt (declared as ../dist/gen.txt in lib): its consumer runs", "observed": "log %s" % pr.log(), "zinoma": r.brief()}
    r = pr.run("--clean")
    if pr.exists("dist/gen.txt"):
        return {"property": ["C12", "C15"], "expected": "--clean removes dist/gen.txt (declared as ../dist/gen.txt in lib)", "observed": "still there", "zinoma": r.brief()}
    return None


def dep_without_input_case(pr):
    """a target with inputs depending (directly and through an aggregate, also across projects) on a target without
    input, which is executed by every invocation: the dependent itself is skipped when its own resources are unchanged"""
    pr.write("src/a.txt", "a")
    pr.write("lib/zinoma.yml", yml({"stamp": _t(None, None, name="stamp")}, name="lib"))
    ts = {"setup": _t(None, None, name="setup"), "g": {"dependencies": ["setup", "lib::stamp"]}, "compile": _t([{"paths": ["src"]}], None, name="compile", deps=["g"])}
    pr.write("zinoma.yml", yml(ts, name="root", imports={"lib": "lib"}))
    _run_ok(pr, "compile")
    for i in range(3):
        pr.clear_log()
        r = _run_ok(pr, "compile")
        log = pr.log()
        if "s setup" not in log or "s stamp" not in log:
            return {"property": "C03", "expected": "setup and lib::stamp declare no input: executed by every invocation", "observed": "log %s" % log, "zinoma": r.brief()}
        if "s compile" in log:
            return {"property": "C03", "expected": "compile's own resources did not change: skipped (that its input-less dependencies ran again is no change of compile's resources)", "observed": "log %s" % log, "zinoma": r.brief()}
    return None


def big_cmd_output_case(pr):
    """a cmd_stdout resource printing 300 kB"""
    big = "yes zinoma-line | head -c 300000"
    pr.write("zinoma.yml", yml({"listing": _t([{"cmd_stdout": big}], [{"cmd_stdout": big}], name="listing"), "top": _t(["listing.output"], None, name="top")}))
    r = pr.run("top", timeout=30)
    if r.timed_out or r.rc != 0 or "e top" not in pr.log():
        return {"property": "C04", "expected": "a cmd_stdout resource printing 300 kB: the run terminates with exit 0 and top is built", "observed": "exit %s timed out %s log %s" % (r.rc, r.timed_out, pr.log()), "zinoma": r.brief()}
    pr.clear_log()
    r = pr.run("top", timeout=30)
    if r.timed_out or r.rc != 0 or pr.log():
        return {"property": ["C03", "C04"], "expected": "second run: the command prints the same 300 kB: everything skipped, exit 0", "observed": "exit %s timed out %s log %s" % (r.rc, r.timed_out, pr.log()), "zinoma": r.brief()}
    return None


def config_edit_between_runs_case(pr):
    """the project file itself changes between invocations: an input is removed (and the build fails or zinoma is
    killed), then restored: the failed / interrupted build is not remembered as done"""
    pr.write("src/a.txt", "a1")
    with_input = yml({"gen": _t([{"paths": ["src"]}], [{"paths": ["out.txt"]}], name="gen", body="if [ -f bad ]; then exit 5; fi\ncat src/a.txt > out.txt")})
    without_input = yml({"gen": _t(None, [{"paths": ["out.txt"]}], name="gen", body="if [ -f bad ]; then exit 5; fi\ncat src/a.txt > out.txt")})
    pr.write("zinoma.yml", with_input)
    _run_ok(pr, "gen")
    pr.write("zinoma.yml", without_input, record=False)
    pr.commands.append("remove `input:` from gen in zinoma.yml")
    pr.write("bad", "", record=False)
    r = pr.run("gen")
    if r.rc == 0:
        return {"property": "C07", "expected": "the failing script makes the run fail", "observed": "exit 0", "zinoma": r.brief()}
    os.remove(pr.path("bad"))
    pr.write("zinoma.yml", with_input, record=False)
    pr.commands.append("restore `input:` of gen in zinoma.yml")
    pr.clear_log()
    r = pr.run("gen")
    if "s gen" not in pr.log():
        return {"property": "C05", "expected": "gen's last build failed (while it declared no input): with the input declaration restored the next invocation runs the script, it does not trust the record of the build before", "observed": "skipped", "zinoma": r.brief()}
    return None


def formatter_case(pr):
    """a target that rewrites files of its own input directory (formatter): within one invocation it runs once, dependents
    run once"""
    pr.write("src/b.txt", "zeta\nalpha\n")
    fmt = _t([{"paths": ["src"]}], None, name="fmt", body="sleep 0.3; for f in src/*.txt; do sort -o $f $f; done")
    lib = _t([{"paths": ["src"]}], None, name="lib", deps=["fmt"])
    doc = _t(None, None, name="doc", deps=["fmt"])
    pr.write("zinoma.yml", yml({"fmt": fmt, "lib": lib, "doc": doc}))
    r = _run_ok(pr, "lib", "doc", "fmt")
    for t in ("fmt", "lib", "doc"):
        n = pr.count("s " + t)
        if n != 1:
            return {"property": "C08", "expected": "one one-shot invocation executes %s exactly once (fmt rewrites files of its own input directory)" % t, "observed": "%d starts; log %s" % (n, pr.log()), "zinoma": r.brief()}
    return None


def producer_resolved_elsewhere_case(fail):
    """all -> [lint, package]; lint -> gen; package has only `input: [gen.output]`: gen is resolved through lint first"""
    def fn(pr):
        gen = _t(None, [{"paths": ["gen.txt"]}], name="gen", body="sleep 0.5; echo g > gen.txt" + ("; exit 1" if fail else ""))
        lint = _t(None, None, name="lint", deps=["gen"])
        package = _t(["gen.output"], None, name="package")
        pr.write("zinoma.yml", yml({"all": {"dependencies": ["lint", "package"]}, "gen": gen, "lint": lint, "package": package}))
        for roots in (["all"], ["lint", "package"]):
            pr.clear_log()
            pr.remove(".zinoma")
            r = pr.run(*roots, timeout=30)
            log = pr.log()
            if fail:
                if "s package" in log:
                    return {"property": ["C07", "C01", "C13"], "expected": "`zinoma %s`: package takes gen.output as input, gen fails: package never starts" % " ".join(roots), "observed": "log %s" % log, "zinoma": r.brief()}
            else:
                if r.rc != 0 or "s package" not in log or "e gen" not in log or log.index("e gen") > log.index("s package"):
                    return {"property": ["C01", "C13"], "expected": "`zinoma %s`: package takes gen.output as input: it starts after gen finished (gen was reached through lint first)" % " ".join(roots), "observed": "exit %s log %s" % (r.rc, log), "zinoma": r.brief()}
        return None
    return fn


def shared_cmd_inflight_case(pr):
    """two targets declare the same slow command; one of them depends on a target that changes what it prints: each
    decides on what the command prints when *it* looks, whatever else is requested in the same invocation"""
    pr.write("asrc/a.txt", "one")
    pr.write("gen.txt", "zero")
    cmd = "cat gen.txt; sleep 1.2"
    a = _t([{"paths": ["asrc"]}], [{"paths": ["gen.txt"]}], name="A", body="sleep 0.4; cat asrc/a.txt > gen.txt")
    audit = _t([{"cmd_stdout": cmd}], None, name="audit")
    report = _t([{"cmd_stdout": cmd}], None, name="report", deps=["A"])
    pr.write("zinoma.yml", yml({"A": a, "audit": audit, "report": report}))
    _run_ok(pr, "audit", "report")
    _run_ok(pr, "audit", "report")
    pr.clear_log()
    _run_ok(pr, "audit", "report")
    if pr.log():
        return {"property": "C03", "expected": "untouched tree, third invocation: nothing runs", "observed": "log %s" % pr.log()}
    pr.edit("asrc/a.txt", "two-longer")
    pr.clear_log()
    r = _run_ok(pr, "audit", "report")
    if "s report" not in pr.log():
        return {"property": ["C18", "C02"], "expected": "A was rebuilt and changed what `cat gen.txt` prints; report (which depends on A and declares that command) runs - also when audit, which declares the same command, is requested in the same invocation", "observed": "log %s" % pr.log(), "zinoma": r.brief()}
    return None


def non_utf8_names_case(pr):
    """declared files whose names are not valid UTF-8: a rename among such names (mtime kept) is a change"""
    import os as _os
    pr.mkdir("src")
    a = pr.writeb(b"src/caf\xe9.txt", b"coffee")
    pr.writeb(b"src/na\xefve.txt", b"x")
    pr.write("src/plain.txt", "p")
    pr.write("zinoma.yml", yml({"t": _t([{"paths": ["src"]}], None)}))
    _run_ok(pr, "t")
    pr.clear_log()
    pr.run("t")
    b = _os.path.join(_os.fsencode(pr.root), b"src/caf\xe8.txt")
    _os.rename(a, b)                      # keeps the modification time
    pr.commands.append("mv src/caf\\xe9.txt src/caf\\xe8.txt")
    pr.clear_log()
    r = pr.run("t")
    if r.rc != 0 or not _ran(pr):
        return {"property": "C02", "expected": "a declared file was renamed (both names are not valid UTF-8, the modification time is kept): the script runs, exit 0", "observed": "exit %s, script ran %s" % (r.rc, _ran(pr)), "zinoma": r.brief()}
    _os.remove(b)
    pr.clear_log()
    r = pr.run("t")
    if r.rc != 0 or not _ran(pr):
        return {"property": "C02", "expected": "a declared file with a non-UTF-8 name was removed: the script runs", "observed": "exit %s, script ran %s" % (r.rc, _ran(pr)), "zinoma": r.brief()}
    return None


def skipped_build_with_service_case(pr):
    """schema (no input, always executed) <- db (service) <- itest (build with input): on the second run itest is skipped,
    and the rest of its closure is still brought up: schema is executed by every invocation"""
    pr.write("tsrc/t.txt", "1")
    svc = 'echo "pid svc $$" >> "$ZLOG"\nsleep 30'
    ts = {"schema": _t(None, None, name="schema"), "db": {"dependencies": ["schema"], "service": svc}, "itest": _t([{"paths": ["tsrc"]}], None, name="itest", deps=["db"])}
    pr.write("zinoma.yml", yml(ts))
    _run_ok(pr, "itest")
    for rep in (2, 3):
        pr.clear_log()
        r = _run_ok(pr, "itest")
        if "s itest" in pr.log():
            return {"property": "C03", "expected": "itest's resources are unchanged: skipped", "observed": "log %s" % pr.log(), "zinoma": r.brief()}
        if "s schema" not in pr.log():
            return {"property": "C08", "expected": "invocation %d: every target of the closure of itest is executed or skipped - schema declares no input, so it is executed" % rep, "observed": "schema did not run; log %s" % pr.log(), "zinoma": r.brief()}
    return None


def nested_project_state_case(pr):
    """app imports vendor/lib and declares `paths: [vendor]` as input of bundle: lib's own recorded state (below
    vendor/lib/.zinoma) is not part of bundle's inputs"""
    pr.write("vendor/lib/src/l.txt", "l1")
    pr.write("vendor/lib/zinoma.yml", yml({"gen": _t([{"paths": ["src"]}], None, name="gen"), "flaky": _t([{"paths": ["src"]}], None, name="flaky", body="if [ -f bad ]; then exit 1; fi")}, name="lib"))
    pr.write("zinoma.yml", yml({"bundle": _t([{"paths": ["vendor"]}], None, name="bundle")}, name="app", imports={"lib": "vendor/lib"}))
    _run_ok(pr, "bundle")
    pr.clear_log()
    _run_ok(pr, "bundle")
    if "s bundle" in pr.log():
        return None
    steps = [(["lib::gen"], "building lib::gen"), (["lib::flaky"], "building lib::flaky"), (["--clean", "lib::gen"], "cleaning lib::gen")]
    for args, what in steps:
        pr.run(*args)
        pr.clear_log()
        r = _run_ok(pr, "bundle")
        if "s bundle" in pr.log():
            return {"property": ["C18", "C15"], "expected": "%s (a target of the project nested below bundle's input path) writes only below vendor/lib/.zinoma: bundle is still skipped" % what, "observed": "bundle ran", "zinoma": r.brief()}
    return None


def output_of_outputless_producer_case(pr):
    """`input: [gen.output]` where gen declares no output: gen is still a dependency - built first, in the closure"""
    pr.write("zinoma.yml", yml({"gen": _t(None, None, name="gen", sleep=0.3), "use": _t(["gen.output"], None, name="use")}))
    pr.write("lib/zinoma.yml", yml({"prepare": _t(None, None, name="prepare", sleep=0.3)}, name="lib"))
    r = pr.run("use", timeout=30)
    log = pr.log()
    if r.rc != 0 or "e gen" not in log or "s use" not in log or log.index("e gen") > log.index("s use"):
        return {"property": ["C09", "C13", "C01"], "expected": "use takes gen.output as input (gen declares no output): gen is in the closure and finishes before use starts", "observed": "exit %s log %s" % (r.rc, log), "zinoma": r.brief()}
    return None


def hidden_dirs_case(pr):
    """files in hidden directories (other than .zinoma) below a declared path belong to the set like any other"""
    pr.write("src/a.txt", "a")
    pr.write("src/.config/settings.txt", "s1")
    body = "mkdir -p public/.well-known public/.cache/x && echo 1 > public/index.html && echo 1 > public/.well-known/verify.html && echo 1 > public/.cache/x/p.html && echo 1 > public/.cache/keep.bin"
    t = _t([{"paths": ["src"], "extensions": ["txt"]}], [{"paths": ["public"], "extensions": ["html"]}], body=body)
    pr.write("zinoma.yml", yml({"t": t}))
    _run_ok(pr, "t")
    pr.clear_log()
    _run_ok(pr, "t")
    if _ran(pr):
        return None
    pr.edit("src/.config/settings.txt", "s2-longer")
    pr.clear_log()
    r = pr.run("t")
    if not _ran(pr):
        return {"property": ["C15", "C02"], "expected": "src/.config/settings.txt (a matching file in a hidden directory below the listed path) was rewritten: the script runs", "observed": "skipped", "zinoma": r.brief()}
    return None


def hidden_dirs_clean_case(pr):
    """--clean and matching output files in hidden directories"""
    pr.write("src/a.txt", "a")
    body = "mkdir -p public/.well-known public/.cache/x && echo 1 > public/index.html && echo 1 > public/.well-known/verify.html && echo 1 > public/.cache/x/p.html && echo 1 > public/.cache/keep.bin"
    t = _t([{"paths": ["src"]}], [{"paths": ["public"], "extensions": ["html"]}], body=body)
    pr.write("zinoma.yml", yml({"t": t}))
    _run_ok(pr, "t")
    for args in (["--clean"], ["--clean", "t"]):
        r = pr.run(*args)
        if args == ["--clean"]:
            for f in ("public/index.html", "public/.well-known/verify.html", "public/.cache/x/p.html"):
                if pr.exists(f):
                    return {"property": ["C12", "C15"], "expected": "--clean removes every matching file beneath the declared output path, hidden directories included: %s" % f, "observed": "%s is still there" % f, "zinoma": r.brief()}
        if not pr.exists("public/.cache/keep.bin"):
            return {"property": "C12", "expected": "non-matching files survive `zinoma %s`" % " ".join(args), "observed": "public/.cache/keep.bin deleted"}
        _run_ok(pr, "t")
    return None


def symlink_alias_case(pr):
    """a symbolic link to a regular file whose destination is listed too: the link is a member of the set of its own"""
    pr.write("conf/main.conf", "m1")
    pr.write("zinoma.yml", yml({"t": _t([{"paths": ["conf"]}], None)}))
    _run_ok(pr, "t")
    pr.symlink("main.conf", "conf/alias.conf")
    pr.clear_log()
    r = pr.run("t")
    if not _ran(pr):
        return {"property": ["C15", "C02"], "expected": "conf/alias.conf (a link to the regular file conf/main.conf) was added below the listed path: the set of denoted files changed, the script runs", "observed": "skipped", "zinoma": r.brief()}
    pr.clear_log()
    pr.run("t")
    if _ran(pr):
        return None
    pr.remove("conf/alias.conf")
    pr.clear_log()
    r = pr.run("t")
    if not _ran(pr):
        return {"property": ["C15", "C02"], "expected": "conf/alias.conf was removed: the script runs", "observed": "skipped", "zinoma": r.brief()}
    return None


def xoutput_symlink_case(pr):
    """the producer publishes its result as a link (latest.txt -> v1.txt) and re-points it: the consumer re-runs"""
    pr.write("psrc/version", "1")
    body = "mkdir -p gen && echo v1 > gen/v1.txt && echo v2 > gen/v2.txt && ln -sfn v$(cat psrc/version).txt gen/latest.txt"
    prod = _t([{"paths": ["psrc"]}], [{"paths": ["gen"]}], name="prod", body=body)
    cons = _t(["prod.output"], None, name="cons")
    pr.write("zinoma.yml", yml({"prod": prod, "cons": cons}))
    _run_ok(pr, "cons")
    pr.clear_log()
    _run_ok(pr, "cons")
    if pr.log():
        return None
    pr.edit("psrc/version", "2")
    pr.clear_log()
    r = _run_ok(pr, "cons")
    if "s cons" not in pr.log():
        return {"property": ["C13", "C15"], "expected": "prod re-pointed gen/latest.txt (a link to a regular file, part of its declared output) from v1.txt to v2.txt: the consumer runs", "observed": "log %s" % pr.log(), "zinoma": r.brief()}
    return None


def unrelated_failure_does_not_lose_record_case(pr):
    """T builds fine and takes a while to record its outputs; an unrelated target of the same invocation fails meanwhile:
    T's successful build is still recorded, the next `zinoma T` skips it"""
    pr.write("src/a.txt", "a")
    t = _t([{"paths": ["src"]}], [{"paths": ["out.txt"]}, {"cmd_stdout": "sleep 1.5; cat out.txt"}], name="T", body="cat src/a.txt > out.txt")
    x = _t(None, None, name="X", body="sleep 0.6; exit 1")
    pr.write("zinoma.yml", yml({"T": t, "X": x}))
    r = pr.run("T", "X", timeout=40)
    if r.rc == 0 or "e T" not in pr.log():
        return None
    pr.clear_log()
    r = pr.run("T", timeout=40)
    if r.rc != 0:
        return None
    if "s T" in pr.log():
        return {"property": "C18", "expected": "T was built successfully in an invocation in which the unrelated X failed: the next `zinoma T` on the untouched tree skips it", "observed": "T ran again", "zinoma": r.brief()}
    return None


def derived_only_inputs_case(pr):
    """pack's only inputs are lib::gen.output; gen is rebuilt in another invocation (from lib's own directory): the next
    request for pack rebuilds it"""
    pr.write("lib/src.txt", "one")
    pr.write("lib/zinoma.yml", yml({"gen": _t([{"paths": ["src.txt"]}], [{"paths": ["gen.txt"]}], name="gen", body="cat src.txt > gen.txt")}, name="lib"))
    pr.write("app/zinoma.yml", yml({"pack": _t(["lib::gen.output"], [{"paths": ["pack.txt"]}], name="pack", body="cat ../lib/gen.txt > pack.txt")}, name="app", imports={"lib": "../lib"}))
    app, lib = pr.path("app"), pr.path("lib")
    _run_ok(pr, "pack", cwd=app)
    pr.clear_log()
    _run_ok(pr, "pack", cwd=app)
    if pr.log():
        return None
    pr.edit("lib/src.txt", "two-longer")
    _run_ok(pr, "gen", cwd=lib)             # gen is rebuilt on its own
    pr.clear_log()
    r = _run_ok(pr, "pack", cwd=app)
    if "s pack" not in pr.log() or (pr.read("app/pack.txt") or "").strip() != "two-longer":
        return {"property": ["C18", "C13", "C02"], "expected": "lib::gen was rebuilt (from lib's own directory) and its output changed: pack, whose only input is lib::gen.output, runs", "observed": "log %s, pack.txt = %r" % (pr.log(), (pr.read("app/pack.txt") or "").strip()), "zinoma": r.brief()}
    return None


def special_files_case(pr):
    """things that are not regular files under a declared path (a named pipe, a socket, a dangling link): they are not
    files of the set; the run ends, builds, and the next run skips"""
    import socket
    pr.write("src/main.txt", "m")
    pr.write("out/keep.txt", "k")
    os.mkfifo(pr.path("src/pipe"))
    os.mkfifo(pr.path("out/pipe.txt"))
    os.mkfifo(pr.path("lone_pipe"))
    s = socket.socket(socket.AF_UNIX)
    s.bind(pr.path("src/sock"))
    os.symlink("nowhere", pr.path("src/dangling.txt"))
    pr.commands.append("mkfifo src/pipe out/pipe.txt lone_pipe; bind a unix socket at src/sock; ln -s nowhere src/dangling.txt")
    t = _t([{"paths": ["src", "lone_pipe"]}], [{"paths": ["out"], "extensions": ["txt"]}, {"paths": ["res.txt"]}], body="cat src/main.txt > res.txt")
    pr.write("zinoma.yml", yml({"t": t}))
    try:
        for (i, must_run) in ((1, True), (2, False)):
            pr.clear_log()
            r = pr.run("t", timeout=15)
            if r.timed_out or r.rc != 0:
                return {"property": ["C04"], "expected": "invocation %d over a tree holding a named pipe, a socket and a dangling link ends with exit 0" % i, "observed": "exit %s%s" % (r.rc, " (killed after 15 s: it never terminated)" if r.timed_out else ""), "zinoma": r.brief()}
            if _ran(pr) != must_run:
                return {"property": ["C02"] if must_run else ["C03"], "expected": "invocation %d %s" % (i, "builds" if must_run else "is skipped: nothing changed"), "observed": "script ran: %s" % _ran(pr), "zinoma": r.brief()}
        pr.clear_log()
        r = pr.run("--clean", "t", timeout=15)
        if r.timed_out or r.rc != 0 or not _ran(pr):
            return {"property": ["C04", "C12"], "expected": "`--clean t` over the same tree ends with exit 0 and runs t", "observed": "exit %s timed out %s ran %s" % (r.rc, r.timed_out, _ran(pr)), "zinoma": r.brief()}
    finally:
        s.close()
    return None


def mtime_preserved_history_case(pr):
    """a record is what the files were at the last successful completion - also for a file whose modification time did not move
    between two completions (cp -p, rsync -t, coarse clocks)"""
    pr.write("src/a.txt", "AAAA")
    pr.write("src/b.txt", "b1")
    pr.write("zinoma.yml", yml({"t": _t([{"paths": ["src"]}], [{"paths": ["out.txt"]}], body="cat src/a.txt src/b.txt > out.txt")}))
    _run_ok(pr, "t")
    st = os.stat(pr.path("src/a.txt"))
    with open(pr.path("src/a.txt"), "w") as f:
        f.write("BBBB")
    os.utime(pr.path("src/a.txt"), ns=(st.st_atime_ns, st.st_mtime_ns))
    pr.commands.append("rewrite src/a.txt (AAAA -> BBBB) keeping its modification time")
    pr.edit("src/b.txt", "b2-longer")
    pr.clear_log()
    r = _run_ok(pr, "t")
    if not _ran(pr):
        return {"property": "C02", "expected": "src/b.txt changed: t builds", "observed": "skipped", "zinoma": r.brief()}
    built_from = pr.read("out.txt")
    with open(pr.path("src/a.txt"), "w") as f:
        f.write("AAAA")
    os.utime(pr.path("src/a.txt"), ns=(st.st_atime_ns, st.st_mtime_ns + 5_000_000_000))
    pr.commands.append("rewrite src/a.txt (BBBB -> AAAA) with a new modification time")
    pr.clear_log()
    r = _run_ok(pr, "t")
    if not _ran(pr):
        return {"property": "C02", "expected": "src/a.txt has neither the modification time nor the content it had at the last successful completion (which built %r): t builds" % built_from, "observed": "skipped; out.txt is still %r" % pr.read("out.txt"), "zinoma": r.brief()}
    # and the other way round: the output tampered with, its time kept, then restored with a new time
    so = os.stat(pr.path("out.txt"))
    good = pr.read("out.txt")
    with open(pr.path("out.txt"), "w") as f:
        f.write("X" * len(good))
    os.utime(pr.path("out.txt"), ns=(so.st_atime_ns, so.st_mtime_ns))
    pr.edit("src/b.txt", "b3-longer-still")
    pr.clear_log()
    _run_ok(pr, "t")
    pr.clear_log()
    r = _run_ok(pr, "t")
    if _ran(pr):
        return {"property": "C03", "expected": "nothing changed since the last completion: skipped", "observed": "t ran", "zinoma": r.brief()}
    return None


def cases(seed, tier="quick"):
    C = lambda n, fn, what: Case("incr", n, fn, what)
    out = [
        C("edit-input", skip_then("edit src/a.txt", lambda p: p.edit("src/a.txt", "a2-longer"), True, "C02"), "rewritten input forces the build"),
        C("edit-nested", skip_then("edit src/sub/c.txt", lambda p: p.edit("src/sub/c.txt", "c2-longer"), True, "C02"), "rewritten nested input"),
        C("add-file", skip_then("add src/new.txt", lambda p: p.write("src/new.txt", "n"), True, "C02"), "added file"),
        C("remove-file", skip_then("rm src/b.csv", lambda p: p.remove("src/b.csv"), True, "C02"), "removed file"),
        C("rename-file", skip_then("mv src/b.csv src/b2.csv", lambda p: os.rename(p.path("src/b.csv"), p.path("src/b2.csv")), True, "C02"), "renamed file"),
        C("edit-output", skip_then("edit out.txt", lambda p: p.edit("out.txt", "tampered"), True, "C02"), "rewritten output"),
        C("remove-output", skip_then("rm out.txt", lambda p: p.remove("out.txt"), True, "C02"), "removed output"),
        C("remove-state", skip_then("rm -rf .zinoma", _rm_state, True, "C02"), "no record"),
        C("ext-nonmatching", skip_then("edit src/a.txt (extensions: [csv])", lambda p: p.edit("src/a.txt", "a2-longer"), False, "C15", ext=["csv"], why=" (src/a.txt does not match)"), "non-matching file is outside the set"),
        C("ext-matching", skip_then("edit src/b.csv (extensions: [csv])", lambda p: p.edit("src/b.csv", "b2-longer"), True, ["C15", "C02"], ext=["csv"]), "matching file, dot added"),
        C("ext-dotted", skip_then("edit src/b.csv (extensions: [.csv])", lambda p: p.edit("src/b.csv", "b2-longer"), True, ["C15", "C02"], ext=[".csv"]), "extension given with its dot"),
        C("ext-multi-dot", skip_then("edit src/d.in.csv (extensions: [csv])", lambda p: p.edit("src/d.in.csv", "d2-longer"), True, ["C15", "C02"], ext=["csv"], extra={"src/d.in.csv": "d1"}, why=" (the name ends with .csv)"), "name with several dots"),
        C("ext-suffix-of-name", skip_then("edit src/d.tar.gz (extensions: [tar.gz])", lambda p: p.edit("src/d.tar.gz", "d2-longer"), True, ["C15", "C02"], ext=["tar.gz"], extra={"src/d.tar.gz": "d1"}), "multi-dot extension"),
        C("ext-multipart-nomatch", skip_then("edit src/domain.csv (extensions: [in.csv])", lambda p: p.edit("src/domain.csv", "x2-longer"), False, ["C15", "C12"], ext=["in.csv"], extra={"src/domain.csv": "x1", "src/a.in.csv": "y1"}, why=" (domain.csv does not end with .in.csv: the dot is part of the extension)"), "multi-part extension without its dot: the dot is added"),
        C("ext-multipart-match", skip_then("edit src/a.in.csv (extensions: [in.csv])", lambda p: p.edit("src/a.in.csv", "y2-longer"), True, ["C15", "C02"], ext=["in.csv"], extra={"src/domain.csv": "x1", "src/a.in.csv": "y1"}), "multi-part extension matches"),
        C("ext-empty-entry", skip_then("edit src/a.txt (extensions: ['', csv])", lambda p: p.edit("src/a.txt", "a2-longer"), False, "C15", ext=["", "csv"], why=" (the empty entry is ignored, the filter is .csv)"), "empty entry ignored"),
        C("ext-only-empty", skip_then("edit src/a.txt (extensions: [''])", lambda p: p.edit("src/a.txt", "a2-longer"), True, ["C15", "C02"], ext=[""], why=" (no filter)"), "only empty entries = no filter"),
        C("workdir-inside", skip_then("edit src/.zinoma/x", lambda p: p.edit("src/.zinoma/x", "2-longer"), False, "C15", extra={"src/.zinoma/x": "1"}, why=" (inside a directory named .zinoma)"), ".zinoma directory below the listed path is pruned"),
        C("corrupt-each-byte", corrupt_each_byte_case, "every single-byte corruption of the record + a changed output"),
        C("cmd-input", cmd_input_case, "cmd_stdout input of the target itself"),
        C("shared-cmd-inflight", shared_cmd_inflight_case, "the same slow command declared by two targets"),
        C("non-utf8-names", non_utf8_names_case, "declared files with names that are not valid UTF-8"),
        C("skipped-build-with-service", skipped_build_with_service_case, "a skipped build whose service dependency has dependencies"),
        C("nested-project-state", nested_project_state_case, "a project nested below another target's input path"),
        C("output-of-outputless-producer", output_of_outputless_producer_case, "X.output of a producer that declares no output"),
        C("hidden-dirs", hidden_dirs_case, "hidden directories below a declared path"),
        C("hidden-dirs-clean", hidden_dirs_clean_case, "matching output files in hidden directories are cleaned"),
        C("symlink-alias", symlink_alias_case, "a link to a file that is listed too"),
        C("xoutput-symlink", xoutput_symlink_case, "a producer publishing its output as a link"),
        C("unrelated-failure-keeps-record", unrelated_failure_does_not_lose_record_case, "an unrelated failure while T records its outputs"),
        C("odd-timestamps", odd_timestamps_case, "files dated before 1970, at the epoch, in 2100"),
        C("touch-then-rerun", touch_then_rerun_case, "identical rewrites over six invocations"),
        C("derived-only-inputs", derived_only_inputs_case, "a target whose only inputs are X.output, X rebuilt elsewhere"),
        C("dep-without-input", dep_without_input_case, "dependent of an always-executed target"),
        C("big-cmd-output", big_cmd_output_case, "a command printing 300 kB"),
        C("config-edit-between-runs", config_edit_between_runs_case, "input removed and restored in the project file around a failed build"),
        C("formatter", formatter_case, "a target rewriting its own inputs"),
        C("producer-resolved-elsewhere", producer_resolved_elsewhere_case(False), "X.output of a producer first reached through another branch"),
        C("producer-resolved-elsewhere-fails", producer_resolved_elsewhere_case(True), "the same, the producer fails"),
        C("shared-cmd", shared_cmd_case, "a command output changed by a build of the same run, shared by three targets"),
        C("other-target-sets", other_target_sets_case, "invocations with other target sets leave records alone"),
        C("xoutput-filtered", xoutput_filtered_case, "X.output with an extension filter"),
        C("no-input", no_input_case, "no input: always executed"),
        C("missing-path", missing_path_case, "missing path contributes nothing"),
        C("missing-path-first", lambda pr: missing_path_case(pr, True), "missing path listed before an existing one"),
        C("xoutput-dotdot", xoutput_dotdot_case, "producer output declared with a leading .."),
        C("symlink-file", symlink_case, "link to a regular file inside the listed directory"),
        C("symlink-dir", symlink_dir_case, "link to a directory is not followed"),
        C("many-files", many_files_case, "large record is read back"),
        C("fail-then-revert", fail_then_revert_case, "failed build not remembered"),
        C("per-target-state", per_target_state_case, "state per target"),
        C("prefix-named-targets", prefix_named_targets_case, "targets whose names are prefixes of one another"),
        C("imported-same-decision", imported_same_decision_case, "imported target decided identically however reached"),
        C("two-producers-same-cmd", two_producers_same_cmd_case, "same command text in two producers"),
        C("nested-filters", nested_filters_case, "nested paths with different extension filters"),
        C("dot-and-sibling-paths", dot_and_sibling_case, "paths . and ../shared"),
        C("overlapping-resources", overlapping_resources_case, "one file through two resources"),
        C("concurrent-saves", concurrent_saves_case, "ten targets saving their records at once"),
        C("dep-and-output", dep_and_output_case, "producer under dependencies and as X.output"),
        C("sibling-import", sibling_import_case, "import through .. and through a symbolic link"),
        C("shared-file-two-targets", shared_file_case, "a file regenerated by one target and read by another"),
    ]
    for k in (1, 2, 3, 5, 8, 9, 10, 12, 16):
        out.append(C("truncate-%d" % k, skip_then("cut the last %d byte(s) off the state file + edit src/a.txt" % k, _truncate_by(k), True, "C05"), "record cut short by %d byte(s): rebuild, exit 0" % k))
    for k in (1, 4, 9):
        out.append(C("truncate-only-%d" % k, skip_then("cut the last %d byte(s) off the state file (nothing else changes)" % k, _truncate_only(k), True, "C05", why=" (a truncated record is discarded)"), "record cut short by %d byte(s), tree untouched: rebuild" % k))
    for kind in ("truncate", "empty", "garbage", "huge-length"):
        out.append(C("corrupt-" + kind, skip_then("corrupt state (%s) + edit src/a.txt" % kind, _corrupt(kind), True, "C05"), "corrupted record: rebuild, exit 0"))
    for sig in ("KILL", "TERM"):
        for rev in (False, True):
            out.append(C("interrupt-%s%s" % (sig, "-revert" if rev else ""), kill_case(sig, rev), "zinoma interrupted mid-build"))
    for k in range(16 if tier == "thorough" else 4):
        out.append(C("random-history-%d" % k, random_history_case(seed, k), "seeded random history of edits against the reference model"))
    for imp in (False, True):
        for op in ("ver", "src"):
            out.append(C("xoutput-%s-%s" % ("imported" if imp else "local", op), xoutput_case(imp, op), "X.output inheritance"))
    out.append(C("special-files", special_files_case, "named pipe, socket and dangling link under declared paths"))
    out.append(C("mtime-preserved-history", mtime_preserved_history_case, "a file rewritten with its modification time kept, between two completions"))
    return out
