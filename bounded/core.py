"""bounded/core.py - shared machinery of the bounded stand-in (DESIGN.md section 16).

What this is: when the deductive verdict of a property is *undecided* on the current tree (a function its
obligations live in could not be extracted, the unit does not compile with the new text, an assumed contract is no
longer validated, ...) - and always in the thorough tier - a finite, stated family of concrete projects and
operation sequences is run against a binary built from the current /repo tree.  A failing case is a concrete
input against the real code and is reported as VIOLATION with the case as replay; a family that passes proves
nothing and is labelled `bounded` in the evidence, never counted among the discharged obligations.

Every zinoma process runs under a SIGKILL timeout in its own process group (zinoma traps SIGTERM)."""
import os
import shutil
import signal
import subprocess
import tempfile
import time

ROOT = "/var/tmp"


class Res:
    def __init__(self, rc, out, secs, timed_out):
        self.rc, self.out, self.secs, self.timed_out = rc, out, secs, timed_out

    def brief(self):
        return {"exit": self.rc, "timed_out": self.timed_out, "secs": round(self.secs, 2), "output_tail": self.out[-600:]}


class Proj:
    """a scratch project directory; scripts append to $ZLOG (one line per event) so that what ran, and in which
    order, is read from a file and never from timing or from zinoma's own output"""

    def __init__(self, binary):
        self.binary = binary
        self.dir = tempfile.mkdtemp(prefix="zv-bnd-", dir=ROOT)
        self.root = os.path.join(self.dir, "p")
        os.makedirs(self.root)
        self.zlog = os.path.join(self.dir, "zlog")
        open(self.zlog, "w").close()
        self.files = {}
        self.commands = []
        self.procs = []

    # ---- files -------------------------------------------------------------------------------
    def path(self, rel):
        return os.path.join(self.root, rel)

    def write(self, rel, text, record=True):
        p = self.path(rel)
        os.makedirs(os.path.dirname(p), exist_ok=True)
        with open(p, "w") as f:
            f.write(text)
        if record:
            self.files[rel] = text
        return p

    def writeb(self, relbytes, data=b"x"):
        p = os.path.join(os.fsencode(self.root), relbytes)
        os.makedirs(os.path.dirname(p), exist_ok=True)
        with open(p, "wb") as f:
            f.write(data)
        self.files[repr(relbytes)] = repr(data)
        return p

    def mkdir(self, rel):
        os.makedirs(self.path(rel), exist_ok=True)
        self.files[rel + "/"] = "<dir>"

    def symlink(self, target, rel):
        p = self.path(rel)
        os.makedirs(os.path.dirname(p), exist_ok=True)
        os.symlink(target, p)
        self.files[rel] = "<symlink -> %s>" % target

    def remove(self, rel):
        p = self.path(rel)
        if os.path.isdir(p) and not os.path.islink(p):
            shutil.rmtree(p)
        elif os.path.lexists(p):
            os.remove(p)
        self.commands.append("rm -rf %s" % rel)

    def exists(self, rel):
        return os.path.lexists(self.path(rel))

    def read(self, rel):
        try:
            return open(self.path(rel)).read()
        except OSError:
            return None

    def edit(self, rel, text):
        """rewrite a file making sure its modification time really differs from the previous one"""
        p = self.path(rel)
        old = os.stat(p).st_mtime_ns if os.path.exists(p) else 0
        self.write(rel, text, record=False)
        if os.stat(p).st_mtime_ns == old:
            os.utime(p, ns=(old + 5_000_000, old + 5_000_000))
        self.commands.append("echo -n %r > %s" % (text, rel))

    # ---- the log written by the scripts ------------------------------------------------------------
    def log(self):
        try:
            return [l for l in open(self.zlog).read().split("\n") if l]
        except OSError:
            return []

    def clear_log(self):
        open(self.zlog, "w").close()

    def count(self, line):
        return sum(1 for l in self.log() if l == line)

    # ---- running zinoma ----------------------------------------------------------------------------
    def env(self):
        e = dict(os.environ, RUST_BACKTRACE="0", ZLOG=self.zlog)
        return e

    def run(self, *args, timeout=40, cwd=None):
        cwd = cwd or self.root
        self.commands.append("(cd %s && zinoma %s)" % (os.path.relpath(cwd, self.dir), " ".join(args)))
        t0 = time.time()
        # output goes to a file, not a pipe: a grandchild that outlives zinoma (the `sleep` of a killed service shell)
        # would otherwise keep the pipe open and make a finished run look like a hang
        self._nrun = getattr(self, "_nrun", 0) + 1
        outp = os.path.join(self.dir, "run.%d.out" % self._nrun)
        with open(outp, "wb") as fo:
            p = subprocess.Popen([self.binary] + list(args), cwd=cwd, env=self.env(), stdout=fo, stderr=subprocess.STDOUT, start_new_session=True)
        try:
            p.wait(timeout=timeout)
            to = False
        except subprocess.TimeoutExpired:
            to = True
        try:
            os.killpg(p.pid, signal.SIGKILL)   # whatever is left of the group (also after a normal exit)
        except OSError:
            pass
        if to:
            p.wait()
        out = open(outp, "rb").read()
        return Res(p.returncode, out.decode("utf-8", "replace"), time.time() - t0, to)

    def spawn(self, *args, cwd=None):
        """start zinoma in the background (watch mode, services, signal tests); returns the Popen"""
        cwd = cwd or self.root
        self.commands.append("(cd %s && zinoma %s &)" % (os.path.relpath(cwd, self.dir), " ".join(args)))
        outp = os.path.join(self.dir, "out.%d" % len(self.procs))
        p = subprocess.Popen([self.binary] + list(args), cwd=cwd, env=self.env(), stdout=open(outp, "wb"), stderr=subprocess.STDOUT, start_new_session=True)
        p.outfile = outp
        self.procs.append(p)
        return p

    def output_of(self, p):
        try:
            return open(p.outfile, "rb").read().decode("utf-8", "replace")
        except OSError:
            return ""

    def wait_for(self, pred, timeout=15.0, step=0.05):
        t0 = time.time()
        while time.time() - t0 < timeout:
            if pred():
                return True
            time.sleep(step)
        return pred()

    def wait_exit(self, p, timeout):
        try:
            p.wait(timeout=timeout)
            return True
        except subprocess.TimeoutExpired:
            return False

    def kill(self, p):
        try:
            os.killpg(p.pid, signal.SIGKILL)
        except OSError:
            pass
        try:
            p.wait(timeout=5)
        except Exception:
            pass

    def close(self):
        for p in self.procs:
            if p.poll() is None:
                self.kill(p)
        # scripts may have left children (sleep) in their own groups: they carry ZLOG in their environment
        shutil.rmtree(self.dir, ignore_errors=True)

    def describe(self):
        return {"files": dict(self.files), "commands": list(self.commands)}


class SetupFailed(Exception):
    """a step that only prepares a case - running a valid project whose scripts all succeed - did not end with exit status
    0: that is itself what C04 forbids (a one-shot run of a valid project terminates with status 0)"""

    def __init__(self, res, what):
        Exception.__init__(self, what)
        self.res, self.what = res, what


class Case:
    """one bounded case: fn(proj) returns None when the property held, or a dict(expected=, observed=) when not"""

    def __init__(self, family, name, fn, what):
        self.family, self.name, self.fn, self.what = family, name, fn, what

    def run(self, binary):
        pr = Proj(binary)
        t0 = time.time()
        try:
            bad = self.fn(pr)
            rec = {"family": self.family, "case": self.name, "what": self.what, "ok": bad is None, "secs": round(time.time() - t0, 2)}
            if bad is not None:
                rec.update(bad)
                rec["project"] = pr.describe()
            return rec
        except SetupFailed as e:
            return {"family": self.family, "case": self.name, "what": self.what, "ok": False, "secs": round(time.time() - t0, 2), "property": ["C04"],
                    "expected": "a valid project whose scripts all succeed runs to completion with exit status 0 (%s)" % e.what,
                    "observed": "exit %s%s" % (e.res.rc, ", killed after the time-out: it never terminated" if e.res.timed_out else ""), "zinoma": e.res.brief(), "project": pr.describe()}
        except Exception as e:  # a harness error is not a violation
            return {"family": self.family, "case": self.name, "what": self.what, "ok": True, "harness_error": repr(e)[:400], "secs": round(time.time() - t0, 2)}
        finally:
            pr.close()


def yml(targets, name=None, imports=None):
    """render a zinoma.yml; targets: {name: {build|service|dependencies|input|output: ...}}"""
    out = []
    if name:
        out.append("name: %s" % name)
    if imports:
        out.append("imports:")
        for k, v in imports.items():
            out.append("  %s: %s" % (k, v))
    out.append("targets:")
    for t, d in targets.items():
        out.append("  %s:" % t)
        if "build" not in d and "service" not in d and not d.get("dependencies"):
            out.append("    dependencies: []")
        for k in ("dependencies", "input", "output"):
            if k in d:
                out.append("    %s:" % k)
                for it in d[k]:
                    if isinstance(it, str):
                        out.append("      - %s" % it)
                    else:
                        first = True
                        for kk, vv in it.items():
                            out.append("      %s %s: %s" % ("-" if first else " ", kk, _flow(vv)))
                            first = False
        for k in ("build", "service"):
            if k in d:
                out.append("    %s: |" % k)
                for l in d[k].split("\n"):
                    out.append("      " + l)
    return "\n".join(out) + "\n"


def _flow(v):
    if isinstance(v, list):
        return "[" + ", ".join('"%s"' % x for x in v) + "]"
    return '"%s"' % v if isinstance(v, str) and (":" in v or "#" in v or v == "") else str(v)


def logging_build(name, sleep=0.0, body="", fail=False):
    s = 'echo "s %s" >> "$ZLOG"\n' % name
    if sleep:
        s += "sleep %s\n" % sleep
    if body:
        s += body.rstrip("\n") + "\n"
    if fail:
        s += 'echo "f %s" >> "$ZLOG"\nexit 3' % name
    else:
        s += 'echo "e %s" >> "$ZLOG"' % name
    return s
