"""bounded families for the scheduling properties (C01, C04, C07, C08, C20): a fixed list of graph shapes plus
seeded random DAGs of at most 8 targets; the order of events is read from the log the scripts write."""
import random
from core import Case, yml, logging_build


def _graphs(seed, nrandom=6):
    """each graph: dict name -> (kind, deps); kind in build|agg"""
    gs = []
    gs.append(("chain3", {"a": ("build", []), "b": ("build", ["a"]), "c": ("build", ["b"])}, ["c"]))
    gs.append(("diamond", {"a": ("build", []), "b": ("build", ["a"]), "c": ("build", ["a"]), "d": ("build", ["b", "c"])}, ["d"]))
    gs.append(("agg-nest", {"a": ("build", []), "b": ("build", []), "g1": ("agg", ["a", "b"]), "g2": ("agg", ["g1"]), "t": ("build", ["g2"])}, ["t"]))
    gs.append(("agg-empty", {"g": ("agg", []), "t": ("build", ["g"])}, ["t"]))
    gs.append(("shared+explicit", {"a": ("build", []), "b": ("build", ["a"]), "c": ("build", ["a", "b"])}, ["c", "a", "b"]))
    gs.append(("dup-dependency", {"a": ("build", []), "b": ("build", ["a"]), "c": ("build", ["a", "a", "b", "b"]), "g": ("agg", ["c", "c"]), "d": ("build", ["g"])}, ["d"]))
    gs.append(("dep-requested-first", {"lib": ("build", []), "app": ("build", ["lib"]), "docs": ("build", [])}, ["lib", "app"]))
    gs.append(("two-paths-short-first", {"docs": ("build", []), "lib": ("build", []), "app": ("build", ["lib"]), "all": ("agg", ["docs", "lib", "app"]), "top": ("build", ["all"])}, ["top"]))
    gs.append(("two-paths-through-aggregate", {"lib": ("build", []), "g": ("agg", ["lib"]), "app": ("build", ["g"]), "all": ("agg", ["lib", "g", "app"])}, ["all"]))
    gs.append(("late-requester", dict([("b", ("build", []))] + [("a%d" % i, ("agg", ["b" if i == 0 else "a%d" % (i - 1)])) for i in range(25)] + [("top", ("build", ["b", "a24"]))]), ["top"]))
    rnd = random.Random(seed)
    for k in range(nrandom):
        n = rnd.randint(4, 8)
        names = ["t%d" % i for i in range(n)]
        g = {}
        for i, nm in enumerate(names):
            kind = "agg" if (i > 0 and rnd.random() < 0.3) else "build"
            deps = [names[j] for j in range(i) if rnd.random() < 0.4]
            g[nm] = (kind, deps)
        roots = [nm for nm in names if rnd.random() < 0.3] or [names[-1]]
        gs.append(("random%d" % k, g, roots))
    return gs


def _closure(g, roots):
    seen, st = set(), list(roots)
    while st:
        x = st.pop()
        if x in seen:
            continue
        seen.add(x)
        st += g[x][1]
    return seen


def _build_deps(g, t, acc=None):
    """build targets that must have finished before t starts (through aggregates, transitively direct)"""
    acc = set() if acc is None else acc
    for d in g[t][1]:
        if g[d][0] == "agg":
            _build_deps(g, d, acc)
        else:
            acc.add(d)
    return acc


def _targets(g, fail=None, sleep=0.25):
    ts = {}
    for nm, (kind, deps) in g.items():
        d = {}
        if deps:
            d["dependencies"] = deps
        if kind == "build":
            d["build"] = logging_build(nm, sleep=sleep, fail=(nm == fail))
        ts[nm] = d
    return ts


def order_case(gname, g, roots):
    def fn(pr):
        pr.write("zinoma.yml", yml(_targets(g)))
        r = pr.run(*roots, timeout=60)
        log = pr.log()
        clo = _closure(g, roots)
        builds = [t for t in clo if g[t][0] == "build"]
        if r.timed_out:
            return {"property": "C04", "expected": "a one-shot run over graph %s terminates" % gname, "observed": "no exit within 60 s; log so far: %s" % log[-6:], "zinoma": r.brief()}
        if r.rc != 0:
            return {"property": "C04", "expected": "exit status 0 (every script succeeds)", "observed": "exit %s" % r.rc, "zinoma": r.brief()}
        for t in builds:
            n = log.count("s " + t)
            if n != 1:
                return {"property": "C08", "expected": "target %s of the closure of %s starts exactly once" % (t, roots), "observed": "%d starts; log %s" % (n, log), "zinoma": r.brief()}
            for d in _build_deps(g, t):
                if "e " + d not in log or log.index("e " + d) > log.index("s " + t):
                    return {"property": "C01", "expected": "%s starts only after its dependency %s finished" % (t, d), "observed": "log %s" % log, "zinoma": r.brief()}
        for t in g:
            if t not in clo and g[t][0] == "build" and ("s " + t) in log:
                return {"property": "C08", "expected": "target %s is outside the closure of %s and never runs" % (t, roots), "observed": "log %s" % log, "zinoma": r.brief()}
        return None
    return fn


def rerun_case(gname, g, roots):
    """every build declares an input: the second invocation on the untouched tree skips everything and terminates"""
    def fn(pr):
        ts = _targets(g, sleep=0.0)
        for nm, (kind, deps) in g.items():
            if kind == "build":
                pr.write("in_%s/x.txt" % nm, "1", record=False)
                ts[nm]["input"] = [{"paths": ["in_%s" % nm]}]
        pr.files["in_<target>/x.txt"] = "1"
        pr.write("zinoma.yml", yml(ts))
        r = pr.run(*roots, timeout=60)
        if r.timed_out or r.rc != 0:
            return {"property": "C04", "expected": "first run of graph %s: exit 0" % gname, "observed": "exit %s timed out %s" % (r.rc, r.timed_out), "zinoma": r.brief()}
        for rep in (2, 3):
            pr.clear_log()
            r = pr.run(*roots, timeout=60)
            if r.timed_out:
                return {"property": "C04", "expected": "invocation %d of graph %s on the untouched tree (every target up to date) terminates" % (rep, gname), "observed": "no exit within 60 s; log %s" % pr.log()[-5:], "zinoma": r.brief()}
            if r.rc != 0 or pr.log():
                return {"property": "C03", "expected": "invocation %d of graph %s on the untouched tree runs no script and exits 0" % (rep, gname), "observed": "exit %s log %s" % (r.rc, pr.log()[:8]), "zinoma": r.brief()}
        return None
    return fn


def failure_case(gname, g, roots, victim):
    def fn(pr):
        pr.write("zinoma.yml", yml(_targets(g, fail=victim)))
        r = pr.run(*roots, timeout=60)
        log = pr.log()
        if r.timed_out:
            return {"property": "C07", "expected": "a run with failing target %s exits" % victim, "observed": "no exit in 60 s; log %s" % log[-6:], "zinoma": r.brief()}
        if r.rc == 0:
            return {"property": "C07", "expected": "non-zero exit status when %s fails" % victim, "observed": "exit 0", "zinoma": r.brief()}
        # dependents (transitively, through aggregates too) must not start
        def depends(t, seen=None):
            seen = seen or set()
            for d in g[t][1]:
                if d == victim or (d not in seen and depends(d, seen | {d})):
                    return True
            return False
        for t in g:
            if g[t][0] == "build" and t != victim and depends(t) and ("s " + t) in log:
                return {"property": "C07", "expected": "%s depends on the failed %s and is never started" % (t, victim), "observed": "log %s" % log, "zinoma": r.brief()}
        # and a second invocation runs the failed script again (C05)
        pr.clear_log()
        pr.run(*roots, timeout=60)
        if ("s " + victim) not in pr.log():
            return {"property": "C05", "expected": "the failed target %s is run again by the next invocation" % victim, "observed": "log %s" % pr.log()}
        return None
    return fn


def aggregate_equiv_case(gname, g, agg):
    def fn(pr):
        pr.write("zinoma.yml", yml(_targets(g)))
        r1 = pr.run(agg, timeout=60)
        l1 = sorted(x for x in pr.log() if x.startswith("s "))
        pr.remove(".zinoma")
        pr.clear_log()
        deps = g[agg][1]
        if not deps:
            return None if (r1.rc == 0 and not r1.timed_out and not l1) else {"property": "C20", "expected": "an empty aggregate builds nothing and exits 0", "observed": "exit %s log %s" % (r1.rc, l1), "zinoma": r1.brief()}
        r2 = pr.run(*deps, timeout=60)
        l2 = sorted(x for x in pr.log() if x.startswith("s "))
        if (r1.rc, r1.timed_out, l1) != (r2.rc, r2.timed_out, l2):
            return {"property": "C20", "expected": "requesting aggregate %s == requesting %s" % (agg, deps), "observed": "aggregate: exit %s timed_out %s started %s; dependencies: exit %s timed_out %s started %s" % (r1.rc, r1.timed_out, l1, r2.rc, r2.timed_out, l2)}
        return None
    return fn


def killed_script_case(sig):
    """a script whose shell is killed by a signal has not succeeded"""
    def fn(pr):
        ts = {"gen": {"build": 'echo "s gen" >> "$ZLOG"\nkill -%s $$\nsleep 5' % sig}, "lib": {"dependencies": ["gen"], "build": logging_build("lib")}, "g": {"dependencies": ["lib"]}, "app": {"dependencies": ["g"], "build": logging_build("app")}, "docs": {"build": logging_build("docs")}, "all": {"dependencies": ["app", "docs"]}}
        pr.write("zinoma.yml", yml(ts))
        r = pr.run("all", timeout=30)
        log = pr.log()
        if r.timed_out:
            return {"property": ["C07", "C04"], "expected": "the run ends when gen's shell is killed by SIG%s" % sig, "observed": "no exit in 30 s", "zinoma": r.brief()}
        started_dependents = "s lib" in log or "s app" in log
        if r.rc == 0 or started_dependents:
            return {"property": ["C07", "C05"] + (["C01"] if started_dependents else []), "expected": "gen's shell was killed by SIG%s: the build failed - zinoma exits non-zero and lib, app (which depend on gen) never start" % sig, "observed": "exit %s; log %s" % (r.rc, log), "zinoma": r.brief()}
        pr.clear_log()
        pr.run("all", timeout=30)
        if "s gen" not in pr.log():
            return {"property": "C05", "expected": "a build whose script was killed is run again by the next invocation", "observed": "log %s" % pr.log()}
        return None
    return fn


def broken_variant_case(gname, g, roots, seed):
    """a valid random DAG with one back edge added: rejected up front iff the cycle is reachable from the roots"""
    import random
    rnd = random.Random(seed)
    names = list(g)
    def fn(pr):
        for attempt in range(20):
            a, b = rnd.sample(names, 2)
            # b is reachable from a in the valid graph -> adding b -> a closes a cycle
            if b in _closure(g, [a]) and a != b:
                break
        else:
            return None
        g2 = {k: (v[0], list(v[1])) for k, v in g.items()}
        g2[b] = (g2[b][0], g2[b][1] + [a])
        reachable = b in _closure(g, roots)
        pr.write("zinoma.yml", yml(_targets(g2)))
        r = pr.run(*roots, timeout=20)
        if reachable:
            if r.timed_out or r.rc == 0 or pr.log():
                return {"property": "C09", "expected": "graph %s with the extra edge %s -> %s has a cycle reachable from %s: refused up front (non-zero exit, no script)" % (gname, b, a, roots), "observed": "exit %s timed_out %s log %s" % (r.rc, r.timed_out, pr.log()), "zinoma": r.brief()}
        else:
            if r.timed_out or r.rc != 0:
                return {"property": "C09", "expected": "the cycle %s <-> %s is not reachable from %s: the run proceeds" % (a, b, roots), "observed": "exit %s timed_out %s" % (r.rc, r.timed_out), "zinoma": r.brief()}
        return None
    return fn


def big_graph_case(shape):
    def fn(pr):
        ts = {}
        if shape == "deep":
            prev = None
            for i in range(200):
                ts["c%d" % i] = {"build": "true"} if prev is None else {"build": "true", "dependencies": [prev]}
                prev = "c%d" % i
            root, what = prev, "a chain of 200 builds"
        else:
            for i in range(300):
                ts["w%d" % i] = {"build": "true"}
            ts["fan"] = {"dependencies": sorted(ts)}
            ts["top"] = {"build": "true", "dependencies": ["fan"]}
            root, what = "top", "a build over an aggregate of 300 builds"
        pr.write("zinoma.yml", yml(ts), record=False)
        pr.files["zinoma.yml"] = what
        for rep in range(2):
            r = pr.run(root, timeout=90)
            if r.timed_out or r.rc != 0:
                return {"property": "C04", "expected": "%s terminates with exit status 0 (graphs of any depth and width)" % what, "observed": "exit %s, timed out: %s (run %d)" % (r.rc, r.timed_out, rep), "zinoma": r.brief()}
        return None
    return fn


def cases(seed, tier="quick"):
    out = [Case("graph", "killed-script-" + s, killed_script_case(s), "script killed by SIG%s counts as failed" % s) for s in ("KILL", "TERM", "SEGV")]
    out.append(Case("graph", "deep-chain-200", big_graph_case("deep"), "depth"))
    out.append(Case("graph", "wide-fanout-300", big_graph_case("wide"), "width"))
    for (gname, g, roots) in _graphs(seed, 24 if tier == "thorough" else 6):
        if gname.startswith("random"):
            out.append(Case("graph", "back-edge:" + gname, broken_variant_case(gname, g, roots, seed + len(g)), "a back edge added to %s" % gname))
        if not gname.startswith("random") or gname in ("random0", "random1"):
            out.append(Case("graph", "rerun:" + gname, rerun_case(gname, g, roots), "graph %s with inputs: second and third invocation skip everything and terminate" % gname))
        out.append(Case("graph", "order:" + gname, order_case(gname, g, roots), "one-shot run of graph %s roots %s: terminates, order, exactly once, only the closure" % (gname, roots)))
        builds = [t for t in _closure(g, roots) if g[t][0] == "build"]
        if gname != "late-requester" and builds:
            victim = sorted(builds)[0]
            out.append(Case("graph", "fail:%s:%s" % (gname, victim), failure_case(gname, g, roots, victim), "%s fails: non-zero exit, dependents never start, re-run next time" % victim))
        for t in g:
            if g[t][0] == "agg" and gname != "late-requester":
                out.append(Case("graph", "agg-equiv:%s:%s" % (gname, t), aggregate_equiv_case(gname, g, t), "aggregate %s vs its dependencies as roots" % t))
    return out
