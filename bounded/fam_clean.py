"""bounded family for --clean (C12, and the 'nothing outside the closure is touched' half of C08): a fixed project
with outputs of every kind, inputs, unrelated files, symbolic links and a second target; after `--clean` / `--clean T`
the tree is compared, path by path, with what the property allows to disappear."""
import os
from core import Case, yml, logging_build


def _snapshot(root):
    out = set()
    for d, dirs, files in os.walk(root, followlinks=False):
        for n in dirs + files:
            out.add(os.path.relpath(os.path.join(d, n), root))
    return out


def _project(pr):
    """gen: outputs out_dir/ (plain path), rep/ filtered by .html, single file one.bin; other: own outputs"""
    pr.write("src/a.txt", "a")
    pr.write("keep/precious.txt", "p")
    pr.write("outside/far.html", "f")          # reached only through a link from rep/
    pr.mkdir("rep/empty_dir")                  # empty directories are nobody's output
    pr.mkdir("rep/deep/only/empty")
    pr.mkdir("keep/empty_too")
    body = "mkdir -p out_dir rep && echo 1 > out_dir/x.o && echo 1 > out_dir/y.txt && echo 1 > rep/i.html && echo 1 > rep/notes.md && echo 1 > one.bin"
    gen = {"input": [{"paths": ["src"]}], "output": [{"paths": ["out_dir", "one.bin"]}, {"paths": ["rep"], "extensions": ["html"]}], "build": logging_build("gen", body=body)}
    other = {"input": [{"paths": ["src"]}], "output": [{"paths": ["other_out.txt"]}], "build": logging_build("other", body="echo 1 > other_out.txt")}
    dep = {"output": [{"paths": ["dep_out.txt"]}], "build": logging_build("dep", body="echo 1 > dep_out.txt")}
    gen["dependencies"] = ["dep"]
    pr.write("zinoma.yml", yml({"gen": gen, "other": other, "dep": dep}))


def _build_all(pr):
    r = pr.run("gen", "other")
    if r.rc != 0:
        return False
    # links created after the build: one inside the filtered output directory pointing outside, one inside the plain one
    pr.symlink("../outside", "rep/lnk")
    pr.symlink("../keep/precious.txt", "rep/alias.html")
    pr.symlink("../keep", "out_dir/keep_lnk")
    return True


def clean_targets_case(pr):
    _project(pr)
    if not _build_all(pr):
        return None
    before = _snapshot(pr.root)
    pr.clear_log()
    r = pr.run("--clean", "gen")
    after = _snapshot(pr.root)
    if r.rc != 0 or r.timed_out:
        return {"property": "C12", "expected": "`--clean gen` exits 0", "observed": "exit %s" % r.rc, "zinoma": r.brief()}
    log = pr.log()
    for t in ("gen", "dep"):
        if "s " + t not in log:
            return {"property": "C12", "expected": "`--clean gen` then runs gen and its dependency dep, never skipping", "observed": "log %s" % log, "zinoma": r.brief()}
    if "s other" in log:
        return {"property": "C08", "expected": "`--clean gen` does not run `other` (outside the closure)", "observed": "log %s" % log}
    must_survive = ["keep/precious.txt", "outside/far.html", "src/a.txt", "other_out.txt", "rep/notes.md", "keep", "outside", "rep/empty_dir", "rep/deep/only/empty", "keep/empty_too"]
    for m in must_survive:
        if m in before and m not in after:
            return {"property": ["C12", "C08"] if m == "other_out.txt" else "C12", "expected": "`--clean gen` deletes only gen's and dep's declared outputs and state: %s survives" % m, "observed": "%s is gone; deleted: %s" % (m, sorted(before - after)[:12]), "zinoma": r.brief()}
    st_other = [p for p in before if p.startswith(".zinoma/") and "other" in p]
    for p in st_other:
        if p not in after:
            return {"property": ["C12", "C08"], "expected": "the recorded state of `other` (%s) is not touched by `--clean gen`" % p, "observed": "it is gone", "zinoma": r.brief()}
    # other must still be skipped afterwards (its state and outputs are intact)
    pr.clear_log()
    pr.run("other")
    if "s other" in pr.log():
        return {"property": "C08", "expected": "`other` is still skipped after `--clean gen` (its state was not touched)", "observed": "other ran"}
    return None


def clean_targets_deletes_case(pr):
    """what --clean T must delete: observed through a build script that records what it still finds"""
    pr.write("src/a.txt", "a")
    probe = 'for f in out_dir/x.o one.bin rep/i.html rep/notes.md; do [ -e "$f" ] && echo "found $f" >> "$ZLOG"; done\n'
    body = probe + "mkdir -p out_dir rep && echo 1 > out_dir/x.o && echo 1 > rep/i.html && echo 1 > rep/notes.md && echo 1 > one.bin"
    gen = {"input": [{"paths": ["src"]}], "output": [{"paths": ["out_dir", "one.bin"]}, {"paths": ["rep"], "extensions": ["html"]}], "build": logging_build("gen", body=body)}
    pr.write("zinoma.yml", yml({"gen": gen}))
    if pr.run("gen").rc != 0:
        return None
    pr.clear_log()
    r = pr.run("--clean", "gen")
    log = pr.log()
    if r.rc != 0 or "s gen" not in log:
        return {"property": "C12", "expected": "`--clean gen` cleans, then runs gen (never skipping), exit 0", "observed": "exit %s log %s" % (r.rc, log), "zinoma": r.brief()}
    found = [l for l in log if l.startswith("found ")]
    if found != ["found rep/notes.md"]:
        return {"property": "C12", "expected": "before gen re-runs, its declared outputs out_dir/, one.bin and the .html files under rep/ are gone, rep/notes.md (non-matching) is still there", "observed": "the script found: %s" % found, "zinoma": r.brief()}
    return None


def clean_all_case(pr):
    _project(pr)
    pr.write("lib/zinoma.yml", yml({"lt": {"output": [{"paths": ["lib_out.txt"]}], "build": logging_build("lt", body="echo 1 > lib_out.txt")}}, name="lib"))
    # re-write the root with an import
    txt = open(pr.path("zinoma.yml")).read()
    pr.write("zinoma.yml", "name: root\nimports:\n  lib: lib\n" + txt)
    if pr.run("gen", "other", "lib::lt").rc != 0:
        return None
    pr.symlink("../outside", "rep/lnk")
    pr.symlink("../keep", "out_dir/keep_lnk")
    before = _snapshot(pr.root)
    pr.clear_log()
    r = pr.run("--clean")
    after = _snapshot(pr.root)
    if r.rc != 0 or r.timed_out:
        return {"property": "C12", "expected": "`--clean` alone exits 0", "observed": "exit %s" % r.rc, "zinoma": r.brief()}
    if pr.log():
        return {"property": "C12", "expected": "`--clean` alone runs no script", "observed": "log %s" % pr.log()}
    for m in ("out_dir", "one.bin", "rep/i.html", "other_out.txt", "dep_out.txt", "lib/lib_out.txt", ".zinoma", "lib/.zinoma"):
        if m in before and m in after:
            return {"property": "C12", "expected": "`--clean` alone removes every declared output of every loaded project and all recorded state: %s" % m, "observed": "%s is still there" % m, "zinoma": r.brief()}
    for m in ("keep/precious.txt", "outside/far.html", "src/a.txt", "rep/notes.md", "keep", "outside", "rep/empty_dir", "rep/deep/only/empty", "keep/empty_too"):
        if m in before and m not in after:
            return {"property": "C12", "expected": "`--clean` deletes nothing else: %s survives" % m, "observed": "%s is gone; deleted: %s" % (m, sorted(before - after)[:14]), "zinoma": r.brief()}
    return None


def clean_multipart_ext_case(pr):
    pr.write("src/a.txt", "a")
    body = "mkdir -p types && echo 1 > types/api.d.ts"
    gen = {"input": [{"paths": ["src"]}], "output": [{"paths": ["types"], "extensions": ["d.ts"]}], "build": logging_build("gen", body=body)}
    pr.write("zinoma.yml", yml({"gen": gen}))
    pr.write("types/keyboard.ts", "hand-written")
    pr.write("types/round.ts", "hand-written")
    if pr.run("gen").rc != 0:
        return None
    for args in (["--clean"], ["--clean", "gen"]):
        r = pr.run(*args)
        for f in ("types/keyboard.ts", "types/round.ts"):
            if not pr.exists(f):
                return {"property": ["C12", "C15"], "expected": "`zinoma %s` with output extensions [d.ts] deletes only files ending with .d.ts: %s survives" % (" ".join(args), f), "observed": "%s was deleted" % f, "zinoma": r.brief()}
    return None


def shared_output_dir_case(pr):
    """two targets (and two resources of one target) declare the same output directory with different filters; a
    listed path that is a regular file not matching the filter"""
    pr.write("src/a.txt", "a")
    js = {"input": [{"paths": ["src"]}], "output": [{"paths": ["dist"], "extensions": ["js"]}], "build": logging_build("js", body="mkdir -p dist && echo 1 > dist/app.js")}
    css = {"input": [{"paths": ["src"]}], "output": [{"paths": ["dist"], "extensions": ["css"]}], "build": logging_build("css", body="mkdir -p dist && echo 1 > dist/app.css")}
    hdr = {"input": [{"paths": ["src"]}], "output": [{"paths": ["out"], "extensions": ["c"]}, {"paths": ["out"], "extensions": ["h"]}, {"paths": ["gen", "bundle.js", "bundle.manifest"], "extensions": ["js"]}],
           "build": logging_build("hdr", body="mkdir -p out gen && echo 1 > out/x.c && echo 1 > out/x.h && echo 1 > gen/g.js && echo 1 > bundle.js && echo 1 > bundle.manifest")}
    pr.write("zinoma.yml", yml({"js": js, "css": css, "hdr": hdr}))
    pr.write("dist/readme.md", "hand-written")
    if pr.run("js", "css", "hdr").rc != 0:
        return None
    r = pr.run("--clean")
    for f in ("dist/app.js", "dist/app.css", "out/x.c", "out/x.h", "gen/g.js", "bundle.js"):
        if pr.exists(f):
            return {"property": "C12", "expected": "`--clean` removes every declared output: %s (several declarations share a path with different filters)" % f, "observed": "%s is still there" % f, "zinoma": r.brief()}
    for f in ("dist/readme.md", "bundle.manifest", "src/a.txt"):
        if not pr.exists(f):
            return {"property": ["C12", "C15"], "expected": "`--clean` removes only files of the denoted sets: %s (no declared filter matches it) survives" % f, "observed": "%s was deleted" % f, "zinoma": r.brief()}
    return None


def clean_all_after_config_change_case(pr):
    """a target recorded state, then disappears from the project file: `--clean` alone still removes all recorded state"""
    pr.write("src/a.txt", "a")
    both = yml({"compile": {"input": [{"paths": ["src"]}], "build": logging_build("compile")}, "lint": {"input": [{"paths": ["src"]}], "build": logging_build("lint")}})
    only = yml({"compile": {"input": [{"paths": ["src"]}], "build": logging_build("compile")}})
    pr.write("zinoma.yml", both)
    if pr.run("compile", "lint").rc != 0:
        return None
    pr.write(".zinoma/notes-from-a-tool.txt", "foreign", record=False)
    pr.write("zinoma.yml", only, record=False)
    pr.commands.append("remove target lint from zinoma.yml")
    r = pr.run("--clean")
    if r.rc != 0:
        return {"property": "C12", "expected": "`--clean` exits 0", "observed": "exit %s" % r.rc, "zinoma": r.brief()}
    if pr.exists(".zinoma"):
        return {"property": "C12", "expected": "`--clean` alone removes all recorded state (the whole .zinoma directory), also records of targets no longer in the project file", "observed": ".zinoma still holds %s" % sorted(os.listdir(pr.path(".zinoma"))), "zinoma": r.brief()}
    pr.write("zinoma.yml", both, record=False)
    pr.clear_log()
    pr.run("lint")
    if "s lint" not in pr.log():
        return {"property": "C12", "expected": "after `--clean`, lint (declared again) is built, not skipped on a record older than the clean", "observed": "skipped"}
    return None


def symlinked_output_path_case(pr):
    """a declared output path that is itself a symbolic link: what it points to is not touched"""
    pr.write("src/a.txt", "a")
    pr.write("deploy/site/index.html", "live site")
    pr.write("deploy/report.txt", "live report")
    pr.symlink("deploy/site", "dist")
    pr.symlink("deploy/report.txt", "report.txt")
    t = {"input": [{"paths": ["src"]}], "output": [{"paths": ["dist", "report.txt"]}], "build": logging_build("site", body="true")}
    pr.write("zinoma.yml", yml({"site": t}))
    for args in (["--clean"], ["--clean", "site"]):
        r = pr.run(*args)
        for f in ("deploy/site/index.html", "deploy/report.txt"):
            if not pr.exists(f):
                return {"property": "C12", "expected": "`zinoma %s`: the declared outputs dist and report.txt are symbolic links: nothing reached through them (%s) is deleted" % (" ".join(args), f), "observed": "%s is gone" % f, "zinoma": r.brief()}
    return None


def no_clean_case(pr):
    _project(pr)
    if not _build_all(pr):
        return None
    before = _snapshot(pr.root)
    pr.run("gen", "other")
    after = _snapshot(pr.root)
    if before - after:
        return {"property": "C12", "expected": "without --clean nothing is deleted", "observed": "deleted: %s" % sorted(before - after)}
    return None


def clean_through_aggregate_case(shape):
    """`--clean G` for an aggregate G (directly requested, nested, or below a build target) cleans and re-runs exactly what
    `--clean <its dependencies>` does: the two requests are compared on two copies of the same history"""
    def fn(pr):
        def tgt(n, deps=None):
            d = {"input": [{"paths": ["src_%s" % n]}], "output": [{"paths": ["out_%s.txt" % n]}], "build": logging_build(n, body="echo 1 >> out_%s.txt" % n)}
            if deps:
                d["dependencies"] = deps
            return d
        for n in ("a", "b", "c", "top"):
            pr.write("src_%s/f.txt" % n, n)
        targets = {"a": tgt("a"), "b": tgt("b"), "c": tgt("c", ["a"]), "inner": {"dependencies": ["a", "b"]}, "outer": {"dependencies": ["inner", "c"]}, "top": tgt("top", ["outer"])}
        pr.write("zinoma.yml", yml(targets))
        req, flat = {"direct": (["inner"], ["a", "b"]), "nested": (["outer"], ["a", "b", "c"]), "below-build": (["top"], ["top", "a", "b", "c"])}[shape]
        seen = []
        for args in (req, flat):
            pr.remove(".zinoma")
            for n in ("a", "b", "c", "top"):
                pr.remove("out_%s.txt" % n)
            r = pr.run("top")
            if r.rc != 0:
                return None
            pr.clear_log()
            r = pr.run("--clean", *args)
            if r.rc != 0 or r.timed_out:
                return {"property": ["C12", "C20"], "expected": "`--clean %s` exits 0" % " ".join(args), "observed": "exit %s" % r.rc, "zinoma": r.brief()}
            started = sorted(l[2:] for l in pr.log() if l.startswith("s "))
            # every cleaned target's output was removed before its script appended one line to it
            lines = dict((n, len((pr.read("out_%s.txt" % n) or "").split())) for n in ("a", "b", "c", "top"))
            seen.append((started, lines))
            if started != sorted(flat):
                return {"property": ["C12", "C20"], "expected": "`--clean %s` removes the state of %s and runs them all, never skipping" % (" ".join(args), flat), "observed": "scripts run: %s" % started, "zinoma": r.brief()}
            for n in flat:
                if lines[n] != 1:
                    return {"property": ["C12", "C20"], "expected": "`--clean %s` removes out_%s.txt before %s runs again" % (" ".join(args), n, n), "observed": "out_%s.txt has %d lines" % (n, lines[n])}
        if seen[0] != seen[1]:
            return {"property": ["C20", "C12"], "expected": "`--clean %s` and `--clean %s` run the same scripts and leave the same outputs" % (" ".join(req), " ".join(flat)), "observed": "%s vs %s" % (seen[0], seen[1])}
        return None
    return fn


def cases(seed, tier="quick"):
    return [
        Case("clean", "clean-through-aggregate-direct", clean_through_aggregate_case("direct"), "--clean <aggregate> = --clean <its dependencies>"),
        Case("clean", "clean-through-aggregate-nested", clean_through_aggregate_case("nested"), "--clean <aggregate of an aggregate>"),
        Case("clean", "clean-through-aggregate-below-build", clean_through_aggregate_case("below-build"), "--clean <build target depending on an aggregate>"),
        Case("clean", "clean-targets-frame", clean_targets_case, "--clean gen: only gen's and dep's outputs and state go; links not followed; other untouched and still skipped"),
        Case("clean", "clean-targets-deletes", clean_targets_deletes_case, "--clean gen: declared outputs are really gone before the re-run"),
        Case("clean", "clean-all", clean_all_case, "--clean alone: all outputs and state of all projects, nothing else, no script"),
        Case("clean", "clean-multipart-ext", clean_multipart_ext_case, "multi-part extension without its dot in a filtered output"),
        Case("clean", "shared-output-dir", shared_output_dir_case, "shared output directory with different filters; listed regular files"),
        Case("clean", "clean-all-after-config-change", clean_all_after_config_change_case, "--clean alone after a target left the project file"),
        Case("clean", "symlinked-output-path", symlinked_output_path_case, "a declared output that is itself a link"),
        Case("clean", "no-clean", no_clean_case, "without --clean nothing is deleted"),
    ]
