"""bounded family for the long-running behaviours (C06 watch convergence, C07 in watch mode, C10 exit paths, C11
services, C16/C15 watcher filter).  Positive expectations ("a rebuild happens") wait up to 15 s; negative ones
("nothing is triggered") look after a quiet period of 1.5 s.  Every observation is read from the scripts' log."""
import os
import signal
import time
from core import Case, yml, logging_build

WAIT = 15.0
QUIET = 1.5


def _alive(pid):
    try:
        with open("/proc/%d/stat" % pid) as f:
            st = f.read().rsplit(")", 1)[1].split()[0]
        return st != "Z"
    except OSError:
        return False


def _pids(pr, name):
    return [int(l.split()[2]) for l in pr.log() if l.startswith("pid %s " % name)]


def _copy_target(sleep=0.0, ext=None, extra_inputs=None):
    res = {"paths": ["src"]}
    if ext:
        res["extensions"] = ext
    body = 'v=$(cat src/in.txt)\n' + ("sleep %s\n" % sleep if sleep else "") + 'echo "$v" > out.txt'
    return {"input": [res] + (extra_inputs or []), "output": [{"paths": ["out.txt"]}], "build": logging_build("t", body=body)}


def _start_watch(pr, *targets):
    p = pr.spawn("--watch", *targets)
    return p


def _wait_builds(pr, name, n):
    return pr.wait_for(lambda: pr.count("e " + name) >= n, WAIT)


# ---- C06 ---------------------------------------------------------------------------------------------

def watch_edits_case(gap, during_build):
    def fn(pr):
        pr.write("src/in.txt", "v0")
        pr.write("zinoma.yml", yml({"t": _copy_target(sleep=(1.0 if during_build else 0.0))}))
        p = _start_watch(pr, "t")
        if not _wait_builds(pr, "t", 1):
            return {"property": "C06", "expected": "watch mode first builds t", "observed": "no completed build in %ss; log %s" % (WAIT, pr.log()), "output": pr.output_of(p)[-400:]}
        time.sleep(0.3)
        pr.edit("src/in.txt", "v1")
        if during_build:
            pr.wait_for(lambda: pr.count("s t") >= 2, WAIT)
            time.sleep(0.2)
        else:
            time.sleep(gap)
        pr.edit("src/in.txt", "v2")
        ok = pr.wait_for(lambda: (pr.read("out.txt") or "").strip() == "v2", WAIT)
        if not ok:
            return {"property": "C06", "expected": "after the edits v1, %s v2, the output ends up built from the last change (out.txt = v2)" % ("(while the rebuild was running)" if during_build else "%.2fs later" % gap), "observed": "out.txt = %r after %ss; log %s" % ((pr.read("out.txt") or "").strip(), WAIT, pr.log()[-8:]), "output": pr.output_of(p)[-500:]}
        return None
    return fn


def watch_chain_case(pr):
    """dependency rebuilt -> consumer rebuilt after it; outputs do not exist when watching begins"""
    pr.write("psrc/p.txt", "p0")
    prod = {"input": [{"paths": ["psrc"]}], "output": [{"paths": ["gen"]}], "build": logging_build("prod", body="mkdir -p gen && cat psrc/p.txt > gen/g.txt", sleep=0.3)}
    cons = {"input": ["prod.output"], "output": [{"paths": ["final.txt"]}], "build": logging_build("cons", body="cat gen/g.txt > final.txt")}
    pr.write("zinoma.yml", yml({"prod": prod, "cons": cons}))
    p = _start_watch(pr, "cons")
    if not pr.wait_for(lambda: (pr.read("final.txt") or "").strip() == "p0", WAIT):
        return {"property": "C06", "expected": "watch mode on a clean tree (gen/ does not exist yet) first brings cons up to date", "observed": "final.txt = %r; log %s" % (pr.read("final.txt"), pr.log()), "output": pr.output_of(p)[-500:]}
    time.sleep(0.3)
    pr.edit("psrc/p.txt", "p1")
    if not pr.wait_for(lambda: (pr.read("final.txt") or "").strip() == "p1", WAIT):
        return {"property": "C06", "expected": "a change to prod's input ends with cons rebuilt from prod's rebuilt output (final.txt = p1)", "observed": "final.txt = %r; log %s" % ((pr.read("final.txt") or "").strip(), pr.log()[-8:]), "output": pr.output_of(p)[-500:]}
    log = pr.log()
    last_s_cons = max(i for i, l in enumerate(log) if l == "s cons")
    last_e_prod = max(i for i, l in enumerate(log) if l == "e prod")
    if last_s_cons < last_e_prod:
        return {"property": "C01", "expected": "cons's last run starts after prod's re-run finished", "observed": "log %s" % log}
    return None


def watch_failure_case(pr):
    pr.write("src/in.txt", "good")
    t = _copy_target()
    t["build"] = logging_build("t", body='v=$(cat src/in.txt)\nif [ "$v" = bad ]; then echo "f t" >> "$ZLOG"; exit 1; fi\necho "$v" > out.txt')
    dep = {"dependencies": ["t"], "build": logging_build("d")}
    pr.write("zinoma.yml", yml({"t": t, "d": dep}))
    p = _start_watch(pr, "d")
    if not _wait_builds(pr, "d", 1):
        return None
    time.sleep(0.3)
    pr.edit("src/in.txt", "bad")
    if not pr.wait_for(lambda: "f t" in pr.log(), WAIT):
        return {"property": "C06", "expected": "an edit triggers t again", "observed": "log %s" % pr.log(), "output": pr.output_of(p)[-400:]}
    time.sleep(0.5)
    if p.poll() is not None:
        return {"property": "C07", "expected": "in watch mode a failure is reported and zinoma keeps watching", "observed": "zinoma exited with %s" % p.returncode, "output": pr.output_of(p)[-400:]}
    n_d = pr.count("s d")
    pr.edit("src/in.txt", "fixed")
    if not pr.wait_for(lambda: (pr.read("out.txt") or "").strip() == "fixed", WAIT):
        return {"property": "C07", "expected": "after the failure zinoma still reacts to the next change (out.txt = fixed)", "observed": "out.txt = %r; log %s" % ((pr.read("out.txt") or "").strip(), pr.log()[-8:]), "output": pr.output_of(p)[-400:]}
    return None


def watch_edit_during_failing_build_case(pr):
    pr.write("src/in.txt", "good")
    t = _copy_target()
    t["build"] = logging_build("t", body='v=$(cat src/in.txt)\nif [ "$v" = bad ]; then sleep 1; echo "f t" >> "$ZLOG"; exit 1; fi\necho "$v" > out.txt')
    pr.write("zinoma.yml", yml({"t": t}))
    p = _start_watch(pr, "t")
    if not _wait_builds(pr, "t", 1):
        return None
    time.sleep(0.3)
    pr.edit("src/in.txt", "bad")
    if not pr.wait_for(lambda: pr.count("s t") >= 2, WAIT):
        return None
    time.sleep(0.3)
    pr.edit("src/in.txt", "final")          # while the failing build is still sleeping
    if not pr.wait_for(lambda: (pr.read("out.txt") or "").strip() == "final", WAIT):
        return {"property": "C06", "expected": "a change made while a (failing) build runs is not forgotten: out.txt = final", "observed": "out.txt = %r; log %s" % ((pr.read("out.txt") or "").strip(), pr.log()[-8:]), "output": pr.output_of(p)[-400:]}
    return None


def watch_fail_while_other_dep_building_case(pr):
    """watch mode: d -> [b, slow]; b's input is replaced by a failing version while slow is still building: d stays blocked"""
    pr.write("bsrc/in.txt", "good")
    ts = {"b": {"input": [{"paths": ["bsrc"]}], "build": 'echo "s b" >> "$ZLOG"\nif [ "$(cat bsrc/in.txt)" = bad ]; then echo "f b" >> "$ZLOG"; exit 3; fi\necho "e b" >> "$ZLOG"'},
          "slow": {"build": logging_build("slow", sleep=3.0)}, "d": {"dependencies": ["b", "slow"], "build": logging_build("d")}}
    pr.write("zinoma.yml", yml(ts))
    p = pr.spawn("--watch", "d")
    if not pr.wait_for(lambda: "e b" in pr.log() and "s slow" in pr.log(), WAIT):
        return None
    time.sleep(0.3)
    pr.edit("bsrc/in.txt", "bad")            # while slow is still sleeping and d has not started yet
    if not pr.wait_for(lambda: "f b" in pr.log(), WAIT):
        return None
    pr.wait_for(lambda: "e slow" in pr.log(), WAIT)
    time.sleep(2.0)
    if "s d" in pr.log():
        return {"property": ["C07", "C01"], "expected": "b was invalidated and its rebuild failed while d was still waiting for slow: d stays blocked", "observed": "log %s" % pr.log(), "output": pr.output_of(p)[-400:]}
    return None


def watch_failed_dep_late_requester_case(pr):
    """watch mode: dep fails at once; `late` reaches it only through a long chain of aggregates, so its request arrives
    after the failure - it must not be told that dep is ready"""
    ts = {"dep": {"build": 'echo "f dep" >> "$ZLOG"\nexit 1'}, "late": {"dependencies": ["a299"], "build": logging_build("late")}}
    prev = "dep"
    for i in range(300):
        ts["a%d" % i] = {"dependencies": [prev]}
        prev = "a%d" % i
    pr.write("zinoma.yml", yml(ts), record=False)
    pr.files["zinoma.yml"] = "dep: build `exit 1`; a0 -> dep; a_i -> a_(i-1) (300 aggregates); late -> a299"
    p = pr.spawn("--watch", "dep", "late")
    if not pr.wait_for(lambda: "f dep" in pr.log(), WAIT):
        return None
    time.sleep(3.0)
    if "s late" in pr.log():
        return {"property": ["C01", "C07"], "expected": "late depends (through aggregates) on dep, whose build failed: it is never started", "observed": "log %s" % pr.log(), "output": pr.output_of(p)[-400:]}
    return None


# ---- C16 / C15 watcher filter -----------------------------------------------------------------------------

def watcher_filter_case(pr):
    pr.write("src/in.txt", "v0")
    pr.write("src/assets/logo.png", "png0")
    pr.write("src/gone.txt", "x")
    pr.mkdir("src/.zinoma")
    pr.write("conf/settings", "s0")
    t = _copy_target(ext=["txt"], extra_inputs=[{"paths": ["src/assets"], "extensions": ["png"]}, {"paths": ["conf"]}])
    pr.write("zinoma.yml", yml({"t": t}))
    p = _start_watch(pr, "t")
    if not _wait_builds(pr, "t", 1):
        return None
    time.sleep(0.4)
    n0 = pr.count("s t")
    # a triggered target is re-evaluated even when the evaluation ends in a skip: zinoma reports `Building` or `Build skipped`
    evals0 = pr.output_of(p).count(" t - Build")
    # irrelevant changes
    irrelevant = ["src/in.txt~", "src/.in.txt.swp", "src/.in.txt.swx", "src/notes.md", "src/mockup.png", "src/.zinoma/state", ".zinoma/x.checksums2", "elsewhere/in.txt"]
    for f in irrelevant:
        pr.write(f, "junk", record=False)
    pr.commands.append("create %s" % irrelevant)
    time.sleep(QUIET)
    if pr.count("s t") != n0:
        return {"property": "C16", "expected": "changes confined to editor temporaries, other extensions, .zinoma and undeclared paths (%s) never trigger a run" % irrelevant, "observed": "t started %d more time(s)" % (pr.count("s t") - n0), "output": pr.output_of(p)[-400:]}
    if pr.output_of(p).count(" t - Build") != evals0:
        return {"property": ["C16", "C15"], "expected": "changes confined to editor temporaries, other extensions, .zinoma and undeclared paths (%s) do not trigger the target at all (not even an evaluation that ends in `Build skipped`)" % irrelevant, "observed": "zinoma reported %d more evaluation(s) of t" % (pr.output_of(p).count(" t - Build") - evals0), "output": pr.output_of(p)[-500:]}
    # nasty names must not stop the watcher
    for nb in (b"src/\xff\xfe.txt", b"src/.\xc3\xa9", "src/.日本".encode(), "src/.aé.sw".encode(), b"src/~", b"src/."+b"\xe2\x82\xac"*2):
        try:
            pr.writeb(nb)
        except OSError:
            pass
    time.sleep(0.5)
    # ... and one of them (src/caf\xe9.txt) matches the declared filter: it is an input like any other
    pr.wait_for(lambda: pr.count("e t") >= pr.count("s t"), WAIT)
    time.sleep(0.3)
    nn = pr.output_of(p).count(" t - Build")
    pr.writeb(b"src/caf\xe9.txt", b"latin1 name")
    if not pr.wait_for(lambda: pr.output_of(p).count(" t - Build") > nn, WAIT):
        return {"property": "C16", "expected": "creating src/caf\\xe9.txt (a name that is not valid UTF-8, matching the declared extension txt) triggers the target", "observed": "no evaluation in %ss" % WAIT, "output": pr.output_of(p)[-400:]}
    pr.wait_for(lambda: pr.count("e t") >= pr.count("s t"), WAIT)
    time.sleep(0.5)
    n1 = pr.count("s t")
    pr.edit("src/in.txt", "v1")
    if not pr.wait_for(lambda: (pr.read("out.txt") or "").strip() == "v1", WAIT):
        return {"property": "C16", "expected": "after files with unusual names (non-UTF-8, multi-byte) appeared, a change to a declared input still triggers the target", "observed": "out.txt = %r, starts since: %d" % ((pr.read("out.txt") or "").strip(), pr.count("s t") - n1), "output": pr.output_of(p)[-600:]}
    time.sleep(0.5)
    n2 = pr.count("s t")
    pr.edit("src/assets/logo.png", "png1-longer")
    if not pr.wait_for(lambda: pr.count("s t") > n2, WAIT):
        return {"property": "C16", "expected": "a change to src/assets/logo.png (declared: paths [src/assets], extensions [png]) triggers the target", "observed": "no new start in %ss" % WAIT, "output": pr.output_of(p)[-400:]}
    pr.wait_for(lambda: pr.count("e t") >= pr.count("s t"), WAIT)
    time.sleep(0.5)
    n25 = pr.count("s t")
    pr.edit("conf/settings", "s1-longer")
    if not pr.wait_for(lambda: pr.count("s t") > n25, WAIT):
        return {"property": ["C16", "C06"], "expected": "a change to conf/settings (declared: paths [conf], no extension filter) triggers the target", "observed": "no new start in %ss" % WAIT, "output": pr.output_of(p)[-400:]}
    pr.wait_for(lambda: pr.count("e t") >= pr.count("s t"), WAIT)
    time.sleep(0.5)
    n3 = pr.count("s t")
    pr.remove("src/gone.txt")
    if not pr.wait_for(lambda: pr.count("s t") > n3, WAIT):
        return {"property": "C16", "expected": "removing the declared input src/gone.txt triggers the target", "observed": "no new start in %ss" % WAIT, "output": pr.output_of(p)[-400:]}
    return None


# ---- C10 --------------------------------------------------------------------------------------------------

def signal_during_build_case(sig, watch):
    def fn(pr):
        pr.write("src/in.txt", "x")
        t = {"input": [{"paths": ["src"]}], "build": 'echo "pid t $$" >> "$ZLOG"\nsleep 60\necho "e t" >> "$ZLOG"'}
        pr.write("zinoma.yml", yml({"t": t}))
        p = pr.spawn(*((["--watch"] if watch else []) + ["t"]))
        if not pr.wait_for(lambda: _pids(pr, "t"), WAIT):
            return None
        time.sleep(0.3)
        os.kill(p.pid, sig)
        pr.commands.append("kill -%d zinoma" % sig)
        t0 = time.time()
        if not pr.wait_exit(p, 8):
            return {"property": "C10", "expected": "signal %d during a 60 s build: zinoma exits within a delay that does not depend on the script (8 s allowed)" % sig, "observed": "still running after 8 s", "output": pr.output_of(p)[-400:]}
        time.sleep(0.2)
        left = [q for q in _pids(pr, "t") if _alive(q)]
        if left:
            return {"property": "C10", "expected": "the shell spawned for the build has been killed and reaped when zinoma exits", "observed": "shell pid(s) %s still alive" % left}
        return None
    return fn


def failure_with_running_sibling_case(pr):
    t = {"long": {"build": 'echo "pid long $$" >> "$ZLOG"\nsleep 60'}, "bad": {"build": 'while ! grep -q "pid long" "$ZLOG"; do sleep 0.05; done\nexit 1'}, "top": {"dependencies": ["long", "bad"]}}
    pr.write("zinoma.yml", yml(t))
    p = pr.spawn("top")
    if not pr.wait_exit(p, 15):
        return {"property": "C10", "expected": "a failed target ends the one-shot run promptly although a sibling build would still take 60 s", "observed": "still running after 15 s", "output": pr.output_of(p)[-400:]}
    if p.returncode == 0:
        return {"property": "C07", "expected": "non-zero exit status", "observed": "exit 0"}
    time.sleep(0.2)
    left = [q for q in _pids(pr, "long") if _alive(q)]
    if left:
        return {"property": "C10", "expected": "on the failure path the sibling's shell has been killed and reaped when zinoma exits", "observed": "shell pid(s) %s still alive" % left}
    return None


def wide_failure_case(pr):
    ts = {"bad": {"build": "sleep 0.2\nexit 1"}, "long": {"build": 'echo "pid long $$" >> "$ZLOG"\nexec sleep 120'}}
    aggs = []
    for i in range(40):
        leaves = []
        for j in range(80):
            n = "l%d_%d" % (i, j)
            ts[n] = {"build": "true"}
            leaves.append(n)
        ts["g%d" % i] = {"dependencies": leaves}
        aggs.append("g%d" % i)
    ts["top"] = {"dependencies": ["long", "bad"] + aggs}
    pr.write("zinoma.yml", yml(ts), record=False)
    pr.files["zinoma.yml"] = "top -> [long (sleep 120), bad (exit 1 after 0.2 s), g0..g39]; g_i -> 80 leaves `true`"
    p = pr.spawn("top")
    if not pr.wait_exit(p, 40):
        return {"property": ["C10", "C04"], "expected": "a failure while thousands of messages are in flight still ends the run (40 s allowed)", "observed": "still running after 40 s", "output": pr.output_of(p)[-400:]}
    time.sleep(0.2)
    left = [q for q in _pids(pr, "long") if _alive(q)]
    if left:
        return {"property": "C10", "expected": "no spawned shell left behind", "observed": "pid(s) %s alive" % left}
    return None


def sigterm_during_wide_run_case(pr):
    ts = {"long": {"build": 'echo "pid long $$" >> "$ZLOG"\nexec sleep 120'}}
    aggs = []
    for i in range(30):
        leaves = []
        for j in range(60):
            n = "l%d_%d" % (i, j)
            ts[n] = {"build": "true"}
            leaves.append(n)
        ts["g%d" % i] = {"dependencies": leaves}
        aggs.append("g%d" % i)
    ts["top"] = {"dependencies": ["long"] + aggs}
    pr.write("zinoma.yml", yml(ts), record=False)
    pr.files["zinoma.yml"] = "top -> [long (sleep 120), g0..g29]; g_i -> 60 leaves `true`"
    p = pr.spawn("top")
    if not pr.wait_for(lambda: _pids(pr, "long"), WAIT):
        return None
    os.kill(p.pid, signal.SIGTERM)      # while the 1800 leaves and their messages are still in flight
    if not pr.wait_exit(p, 30):
        return {"property": "C10", "expected": "a termination signal is honoured while many messages are in flight (30 s allowed)", "observed": "still running after 30 s", "output": pr.output_of(p)[-300:]}
    time.sleep(0.2)
    left = [q for q in _pids(pr, "long") if _alive(q)]
    if left:
        return {"property": "C10", "expected": "no spawned shell left behind", "observed": "pid(s) %s alive" % left}
    return None


def watch_edit_long_build_then_sigterm_case(pr):
    """watch mode: the input changes while a long build runs, then zinoma is told to stop: no build shell survives"""
    pr.write("src/in.txt", "v0")
    t = {"input": [{"paths": ["src"]}], "build": 'echo "pid t $$" >> "$ZLOG"\nsleep 40\necho "e t" >> "$ZLOG"'}
    pr.write("zinoma.yml", yml({"t": t}))
    p = pr.spawn("--watch", "t")
    if not pr.wait_for(lambda: _pids(pr, "t"), WAIT):
        return None
    time.sleep(0.4)
    pr.edit("src/in.txt", "v1")
    time.sleep(1.0)
    pr.edit("src/in.txt", "v2")
    time.sleep(1.0)
    os.kill(p.pid, signal.SIGTERM)
    if not pr.wait_exit(p, 10):
        return {"property": "C10", "expected": "SIGTERM ends zinoma promptly", "observed": "still running after 10 s", "output": pr.output_of(p)[-300:]}
    time.sleep(0.3)
    left = [q for q in _pids(pr, "t") if _alive(q)]
    if left:
        return {"property": "C10", "expected": "every build shell spawned (%d in all) has been killed and reaped when zinoma exits" % len(_pids(pr, "t")), "observed": "shell pid(s) %s still alive" % left, "output": pr.output_of(p)[-300:]}
    return None


def watch_rename_over_input_case(pr):
    """the change arrives as a rename over an existing input (safe-write editors, rsync, git checkout)"""
    pr.write("src/in.txt", "v0")
    pr.write("zinoma.yml", yml({"t": _copy_target()}))
    p = _start_watch(pr, "t")
    if not _wait_builds(pr, "t", 1):
        return None
    time.sleep(0.5)
    pr.write("staging/new.txt", "v1-renamed", record=False)
    os.rename(pr.path("staging/new.txt"), pr.path("src/in.txt"))
    pr.commands.append("mv staging/new.txt src/in.txt")
    if not pr.wait_for(lambda: (pr.read("out.txt") or "").strip() == "v1-renamed", WAIT):
        return {"property": ["C06", "C16"], "expected": "src/in.txt was replaced by a rename: the target re-runs, out.txt = v1-renamed", "observed": "out.txt = %r" % (pr.read("out.txt") or "").strip(), "output": pr.output_of(p)[-400:]}
    return None


def watch_repeated_failure_reported_case(pr):
    """watch mode: a dependency-only target fails, is repaired, fails again with the same error: reported both times"""
    pr.write("lsrc/in.txt", "bad")
    lib = {"input": [{"paths": ["lsrc"]}], "build": 'echo "s lib" >> "$ZLOG"\nif [ "$(cat lsrc/in.txt)" = bad ]; then exit 1; fi\necho "e lib" >> "$ZLOG"'}
    pr.write("zinoma.yml", yml({"lib": lib, "app": {"dependencies": ["lib"], "build": logging_build("app")}}))
    p = pr.spawn("--watch", "app")
    def reports():
        return sum(1 for l in pr.output_of(p).split("\n") if "lib" in l and ("WARN" in l or "ERROR" in l))
    if not pr.wait_for(lambda: reports() >= 1, WAIT):
        return {"property": "C07", "expected": "in watch mode the failure of lib is reported", "observed": pr.output_of(p)[-300:]}
    time.sleep(0.5)
    pr.edit("lsrc/in.txt", "good")
    if not pr.wait_for(lambda: "e app" in pr.log(), WAIT):
        return None
    time.sleep(0.5)
    n = reports()
    pr.edit("lsrc/in.txt", "bad")
    pr.wait_for(lambda: pr.count("s lib") >= 3, WAIT)
    if not pr.wait_for(lambda: reports() > n, 5):
        return {"property": "C07", "expected": "lib fails again (same error as the first time): the failure is reported again", "observed": "no new report; output: %s" % pr.output_of(p)[-500:]}
    return None


def signal_with_several_actors_case(pr):
    """a termination signal while one build runs and other actors exist (idle dependents, a finished sibling)"""
    ts = {"a": {"build": logging_build("a")}, "b": {"dependencies": ["a"], "build": 'echo "pid b $$" >> "$ZLOG"\nsleep 60'}, "c": {"dependencies": ["b"], "build": logging_build("c")}, "d": {"dependencies": ["c", "a"], "build": logging_build("d")}, "g": {"dependencies": ["d", "a"]}}
    pr.write("zinoma.yml", yml(ts))
    for (sig, rep) in ((signal.SIGINT, 0), (signal.SIGTERM, 1), (signal.SIGINT, 2)):
        pr.clear_log()
        p = pr.spawn("g")
        if not pr.wait_for(lambda: _pids(pr, "b"), WAIT):
            pr.kill(p)
            return None
        time.sleep(0.3)
        os.kill(p.pid, sig)
        if not pr.wait_exit(p, 10):
            pr.kill(p)
            return {"property": "C10", "expected": "signal %d while b builds and four other actors exist: zinoma exits promptly (round %d)" % (sig, rep), "observed": "still running after 10 s", "output": pr.output_of(p)[-300:]}
        time.sleep(0.2)
        left = [q for q in _pids(pr, "b") if _alive(q)]
        if left:
            return {"property": "C10", "expected": "b's shell has been killed and reaped", "observed": "pid(s) %s alive" % left}
    return None


def many_roots_case(pr):
    ts = dict(("r%d" % i, {"build": "true"}) for i in range(100))
    pr.write("zinoma.yml", yml(ts), record=False)
    pr.files["zinoma.yml"] = "100 independent targets r0..r99, build: true"
    r = pr.run(*sorted(ts), timeout=40)
    if r.timed_out or r.rc != 0:
        return {"property": "C04", "expected": "100 independent targets requested on the command line: exit 0", "observed": "exit %s timed_out %s" % (r.rc, r.timed_out), "zinoma": r.brief()}
    return None


# ---- C11 --------------------------------------------------------------------------------------------------

SVC = 'if [ -f svc.pid ] && kill -0 "$(cat svc.pid)" 2>/dev/null; then echo "overlap svc" >> "$ZLOG"; fi\necho $$ > svc.pid\necho "pid svc $$" >> "$ZLOG"\nsleep 60'


def service_requested_case(through_aggregate):
    def fn(pr):
        ts = {"svc": {"service": SVC}, "b": {"build": logging_build("b")}}
        root = "svc"
        if through_aggregate:
            ts["all"] = {"dependencies": ["b", "svc"]}
            root = "all"
        pr.write("zinoma.yml", yml(ts))
        p = pr.spawn(root)
        if not pr.wait_for(lambda: _pids(pr, "svc"), WAIT):
            return {"property": "C11", "expected": "the requested service is started", "observed": "log %s" % pr.log(), "output": pr.output_of(p)[-400:]}
        time.sleep(2.0)
        if p.poll() is not None:
            return {"property": "C11", "expected": "a service requested on the command line%s keeps zinoma running until a termination signal" % (" through an aggregate" if through_aggregate else ""), "observed": "zinoma exited with %s after the service started" % p.returncode, "output": pr.output_of(p)[-400:]}
        if not all(_alive(q) for q in _pids(pr, "svc")):
            return {"property": "C11", "expected": "the service stays up", "observed": "service shell gone"}
        os.kill(p.pid, signal.SIGTERM)
        if not pr.wait_exit(p, 8):
            return {"property": "C10", "expected": "SIGTERM ends zinoma promptly while a service runs", "observed": "still running after 8 s"}
        time.sleep(0.2)
        left = [q for q in _pids(pr, "svc") if _alive(q)]
        if left:
            return {"property": "C10", "expected": "the service's shell has been killed and reaped at exit", "observed": "pid(s) %s alive" % left}
        return None
    return fn


def service_dependency_case(pr):
    ts = {"svc": {"service": SVC}, "b": {"dependencies": ["svc"], "build": 'echo "s b" >> "$ZLOG"\nsleep 0.5\nif kill -0 "$(cat svc.pid)" 2>/dev/null; then echo "svc-up-during-b" >> "$ZLOG"; fi\necho "e b" >> "$ZLOG"'}}
    pr.write("zinoma.yml", yml(ts))
    p = pr.spawn("b")
    if not pr.wait_exit(p, 20):
        return {"property": "C11", "expected": "a service that is only a dependency does not keep zinoma alive after the builds", "observed": "still running 20 s after start; log %s" % pr.log(), "output": pr.output_of(p)[-400:]}
    log = pr.log()
    if p.returncode != 0 or "e b" not in log:
        return None
    out = pr.output_of(p)
    # (the two shells race to their first line, so the order is read from zinoma's own report of what it started)
    if "svc - Starting service" in out and "b - Building" in out and out.index("svc - Starting service") > out.index("b - Building"):
        return {"property": "C11", "expected": "the service is started before the build that depends on it", "observed": out[-400:]}
    if "svc-up-during-b" not in log:
        return {"property": "C11", "expected": "the service is left running while the dependent build runs", "observed": "log %s" % log}
    time.sleep(0.2)
    left = [q for q in _pids(pr, "svc") if _alive(q)]
    if left:
        return {"property": "C11", "expected": "the service is stopped when zinoma exits", "observed": "pid(s) %s alive" % left}
    if len(_pids(pr, "svc")) != 1:
        return {"property": "C08", "expected": "the service is started once in a one-shot run", "observed": "%d starts" % len(_pids(pr, "svc"))}
    return None


def service_shared_deep_case(pr):
    """a service shared by a shallow and a deep dependent: started exactly once (C08), never two instances (C11)"""
    ts = {"db": {"service": SVC}, "migrate": {"dependencies": ["db"], "build": logging_build("migrate")}, "report": {"dependencies": ["db"], "build": logging_build("report")}}
    prev = "report"
    for i in range(150):
        ts["st%d" % i] = {"dependencies": [prev]}
        prev = "st%d" % i
    ts["all"] = {"dependencies": ["migrate", prev]}
    pr.write("zinoma.yml", yml(ts), record=False)
    pr.files["zinoma.yml"] = "db: service; migrate -> db; report -> db; all -> [migrate, st149 -> ... -> st0 -> report]"
    r = pr.run("all", timeout=40)
    # the run is over before the service's shell gets to write its pid: starts are counted in zinoma's own output
    n = max(len(_pids(pr, "svc")), r.out.count("db - Starting service"))
    if "overlap svc" in pr.log():
        return {"property": "C11", "expected": "never two instances of the same service at once", "observed": "a second instance started while the first was alive; log %s" % [l for l in pr.log() if "svc" in l or "db" in l]}
    if r.rc == 0 and not r.timed_out and n != 1:
        return {"property": "C08", "expected": "the shared service db is started exactly once in a successful one-shot run", "observed": "%d starts" % n, "zinoma": r.brief()}
    if r.timed_out:
        return {"property": "C04", "expected": "the run terminates", "observed": "no exit in 40 s", "zinoma": r.brief()}
    return None


def service_restart_case(pr):
    pr.write("cfg/s.conf", "1")
    ts = {"svc": {"input": [{"paths": ["cfg"]}], "service": SVC}}
    pr.write("zinoma.yml", yml(ts))
    p = pr.spawn("--watch", "svc")
    if not pr.wait_for(lambda: len(_pids(pr, "svc")) >= 1, WAIT):
        return None
    time.sleep(0.5)
    for k in range(2):
        n = len(_pids(pr, "svc"))
        pr.edit("cfg/s.conf", "v%d-longer" % k)
        if not pr.wait_for(lambda: len(_pids(pr, "svc")) > n, WAIT):
            return {"property": "C06", "expected": "a change to the service's input restarts it", "observed": "no restart in %ss; log %s" % (WAIT, pr.log()), "output": pr.output_of(p)[-400:]}
        time.sleep(0.4)
    overlap = "overlap svc" in pr.log()
    alive = [q for q in _pids(pr, "svc") if _alive(q)]
    time.sleep(0.5)
    os.kill(p.pid, signal.SIGTERM)
    if not pr.wait_exit(p, 8):
        return {"property": "C10", "expected": "SIGTERM ends zinoma after service restarts", "observed": "still running after 8 s"}
    time.sleep(0.3)
    left = [q for q in _pids(pr, "svc") if _alive(q)]
    if left:
        return {"property": ["C10", "C11"], "expected": "after two restarts and SIGTERM no instance of the service is left (%d were started)" % len(_pids(pr, "svc")), "observed": "pid(s) %s still alive" % left, "output": pr.output_of(p)[-300:]}
    if overlap:
        return {"property": "C11", "expected": "a restart stops the old instance before starting the new one", "observed": "log %s" % pr.log()}
    if len(alive) > 1:
        return {"property": "C11", "expected": "at most one instance alive", "observed": "alive before SIGTERM: %s" % alive}
    return None


def mixed_aggregate_case(pr):
    """pack -> aggregate env -> [gen (slow build), db (service)]: pack starts only after gen finished and db started"""
    ts = {"gen": {"build": logging_build("gen", sleep=1.0)}, "db": {"service": SVC}, "env": {"dependencies": ["gen", "db"]}, "env2": {"dependencies": ["env"]},
          "pack": {"dependencies": ["env2"], "build": 'echo "s pack" >> "$ZLOG"\nsleep 0.7\nif kill -0 "$(cat svc.pid)" 2>/dev/null; then echo "svc-up-during-pack" >> "$ZLOG"; fi\necho "e pack" >> "$ZLOG"'}}
    pr.write("zinoma.yml", yml(ts))
    p = pr.spawn("pack")
    if not pr.wait_exit(p, 30):
        return {"property": ["C11", "C04"], "expected": "`zinoma pack` exits after pack (the service behind the aggregate is only a dependency)", "observed": "still running after 30 s; log %s" % pr.log(), "output": pr.output_of(p)[-400:]}
    log = pr.log()
    if p.returncode != 0 or "e pack" not in log:
        return {"property": "C04", "expected": "exit 0 with pack built", "observed": "exit %s log %s" % (p.returncode, log), "output": pr.output_of(p)[-400:]}
    if "e gen" not in log or log.index("e gen") > log.index("s pack"):
        return {"property": ["C01", "C20"], "expected": "pack depends, through nested aggregates mixing a build and a service, on gen: it starts only after gen finished", "observed": "log %s" % log}
    if "svc-up-during-pack" not in log:
        return {"property": ["C01", "C11"], "expected": "the service db behind the aggregate is up while pack builds", "observed": "log %s" % log}
    return None


def service_invalidated_during_dependent_build_case(pr):
    """watch mode: a build depends on a service; the service's input changes while the build runs - the build still
    ends up done (repeated or completed), with the last input"""
    pr.write("server.conf", "1")
    pr.write("src/in.txt", "v1")
    t = _copy_target(sleep=1.5)
    t["dependencies"] = ["server"]
    ts = {"server": {"input": [{"paths": ["server.conf"]}], "service": SVC}, "t": t}
    pr.write("zinoma.yml", yml(ts))
    p = pr.spawn("--watch", "t")
    if not pr.wait_for(lambda: pr.count("s t") >= 1, WAIT):
        return None
    time.sleep(0.4)
    pr.edit("server.conf", "2-longer")          # while t is building
    if not pr.wait_for(lambda: (pr.read("out.txt") or "").strip() == "v1", WAIT):
        return {"property": "C06", "expected": "the service's input changed while the dependent build was running: the build is completed or repeated, out.txt = v1", "observed": "out.txt = %r; log %s" % (pr.read("out.txt"), pr.log()[-8:]), "output": pr.output_of(p)[-500:]}
    time.sleep(0.5)
    pr.edit("src/in.txt", "v2")
    if not pr.wait_for(lambda: (pr.read("out.txt") or "").strip() == "v2", WAIT):
        return {"property": "C06", "expected": "a later change of the build's own input is built: out.txt = v2", "observed": "out.txt = %r; log %s" % (pr.read("out.txt"), pr.log()[-8:]), "output": pr.output_of(p)[-500:]}
    return None


def signal_during_input_command_case(how):
    """the termination signal (or another target's failure) arrives while a slow `cmd_stdout` input is being evaluated"""
    def fn(pr):
        slow = 'echo "pid inputcmd $$" >> "$ZLOG"; sleep 6; echo v1'
        ts = {"t": {"input": [{"cmd_stdout": slow}], "build": logging_build("t")}}
        roots = ["t"]
        if how == "failure":
            ts["bad"] = {"build": 'while ! grep -q "pid inputcmd" "$ZLOG"; do sleep 0.05; done\nexit 1'}
            roots = ["t", "bad"]
        pr.write("zinoma.yml", yml(ts))
        p = pr.spawn(*roots)
        if not pr.wait_for(lambda: _pids(pr, "inputcmd"), WAIT):
            return None
        if how == "signal":
            time.sleep(0.3)
            os.kill(p.pid, signal.SIGTERM)
        if not pr.wait_exit(p, 20):
            return {"property": "C10", "expected": "zinoma exits", "observed": "still running after 20 s", "output": pr.output_of(p)[-300:]}
        time.sleep(0.3)
        left = [q for q in _pids(pr, "inputcmd") if _alive(q)]
        if left:
            return {"property": "C10", "expected": "every shell zinoma spawned (here: for a cmd_stdout input) is gone when it exits", "observed": "shell pid(s) %s still alive" % left}
        return None
    return fn


def service_and_dependent_requested_case(order):
    def fn(pr):
        ts = {"db": {"service": SVC}, "migrate": {"dependencies": ["db"], "build": logging_build("migrate")}}
        pr.write("zinoma.yml", yml(ts))
        p = pr.spawn(*order)
        if not pr.wait_for(lambda: "e migrate" in pr.log(), WAIT):
            return None
        time.sleep(2.0)
        if p.poll() is not None:
            return {"property": "C11", "expected": "`zinoma %s`: the service db is requested on the command line, so zinoma keeps running after migrate is built" % " ".join(order), "observed": "zinoma exited with %s" % p.returncode, "output": pr.output_of(p)[-400:]}
        os.kill(p.pid, signal.SIGTERM)
        pr.wait_exit(p, 8)
        return None
    return fn


def watch_sibling_xoutput_case(pr):
    """watch mode, producer in a sibling project: an out-of-band edit of its output re-runs the consumer"""
    pr.write("lib/psrc/p.txt", "p0")
    pr.write("lib/zinoma.yml", yml({"gen": {"input": [{"paths": ["psrc"]}], "output": [{"paths": ["gen.txt"]}], "build": logging_build("gen", body="cat psrc/p.txt > gen.txt")}}, name="lib"))
    pr.write("app/own.txt", "o0")
    pr.write("app/zinoma.yml", yml({"bundle": {"input": [{"paths": ["own.txt"]}, "lib::gen.output"], "output": [{"paths": ["bundle.txt"]}], "build": logging_build("bundle", body="cat ../lib/gen.txt own.txt > bundle.txt")}}, name="app", imports={"lib": "../lib"}))
    r = pr.run("bundle", cwd=pr.path("app"))      # so that every declared path exists when watching begins
    if r.rc != 0:
        return None
    pr.clear_log()
    p = pr.spawn("--watch", "bundle", cwd=pr.path("app"))
    time.sleep(1.5)
    if p.poll() is not None:
        return None
    time.sleep(0.4)
    n = pr.count("s bundle")
    pr.edit("app/own.txt", "o1")
    if not pr.wait_for(lambda: pr.count("e bundle") > n, WAIT):
        return {"property": "C06", "expected": "a change of the consumer's own input re-runs it", "observed": "no re-run", "output": pr.output_of(p)[-300:]}
    time.sleep(0.4)
    n = pr.count("s bundle")
    pr.edit("lib/gen.txt", "edited-by-hand")
    if not pr.wait_for(lambda: pr.count("s bundle") > n, WAIT):
        return {"property": ["C13", "C16", "C06"], "expected": "lib::gen's output (an input of bundle through lib::gen.output) was edited: bundle re-runs", "observed": "no re-run in %ss; log %s" % (WAIT, pr.log()[-6:]), "output": pr.output_of(p)[-400:]}
    return None


def wide_aggregate_equiv_case(pr):
    """a wide, build-only aggregate behaves like its dependencies: in particular it exits"""
    ts = dict(("step%d" % i, {"build": "true"}) for i in range(60))
    ts["all"] = {"dependencies": sorted(k for k in ts)}
    ts["outer"] = {"dependencies": ["all"]}
    pr.write("zinoma.yml", yml(ts), record=False)
    pr.files["zinoma.yml"] = "step0..step59: build `true`; all -> every step; outer -> all"
    for rep in range(3):
        r = pr.run("outer", timeout=30)
        if r.timed_out or r.rc != 0:
            return {"property": ["C20", "C11", "C04"], "expected": "requesting an aggregate over 60 builds exits 0 like requesting the builds (no service anywhere)", "observed": "exit %s, timed out: %s (run %d)" % (r.rc, r.timed_out, rep), "zinoma": r.brief()}
        pr.remove(".zinoma")
    return None


def service_up_on_every_rebuild_case(pr):
    """watch mode: a build depending on a service (directly and through an aggregate) finds it up on every re-build"""
    pr.write("src/in.txt", "v0")
    probe = 'echo "s t" >> "$ZLOG"\nsleep 0.6\nif kill -0 "$(cat svc.pid)" 2>/dev/null; then echo "up t" >> "$ZLOG"; else echo "down t" >> "$ZLOG"; fi\ncat src/in.txt > out.txt\necho "e t" >> "$ZLOG"'
    ts = {"svc": {"service": SVC}, "g": {"dependencies": ["svc"]}, "t": {"dependencies": ["g"], "input": [{"paths": ["src"]}], "output": [{"paths": ["out.txt"]}], "build": probe}}
    pr.write("zinoma.yml", yml(ts))
    p = pr.spawn("--watch", "t")
    if not _wait_builds(pr, "t", 1):
        return None
    for k in (1, 2):
        time.sleep(0.6)
        pr.edit("src/in.txt", "v%d" % k)
        if not _wait_builds(pr, "t", k + 1):
            return {"property": "C06", "expected": "an edit re-runs t", "observed": "log %s" % pr.log()[-6:], "output": pr.output_of(p)[-300:]}
    if "down t" in pr.log():
        return {"property": ["C11", "C01"], "expected": "the service t depends on is up during every (re-)build of t", "observed": "log %s" % [l for l in pr.log() if l.endswith(" t") or "svc" in l], "output": pr.output_of(p)[-400:]}
    return None


def service_beside_nested_aggregate_case(pr):
    """all -> [srv (service), nest]; nest -> 40 levels of aggregates over two builds: `zinoma all` keeps running"""
    ts = {"srv": {"service": SVC}, "b1": {"build": logging_build("b1")}, "b2": {"build": logging_build("b2")}}
    prev = ["b1", "b2"]
    for i in range(40):
        ts["n%d" % i] = {"dependencies": prev}
        prev = ["n%d" % i]
    ts["all"] = {"dependencies": ["srv"] + prev}
    ts["all_rev"] = {"dependencies": prev + ["srv"]}
    pr.write("zinoma.yml", yml(ts), record=False)
    pr.files["zinoma.yml"] = "srv: service; b1, b2: builds; n0 -> [b1, b2]; n_i -> n_(i-1) (40 levels); all -> [srv, n39]; all_rev -> [n39, srv]"
    for root in ("all", "all_rev"):
        p = pr.spawn(root)
        if not pr.wait_for(lambda: pr.count("e b1") >= 1 and pr.count("e b2") >= 1 and _pids(pr, "svc"), WAIT):
            pr.kill(p)
            return None
        time.sleep(2.0)
        alive = p.poll() is None
        if alive:
            os.kill(p.pid, signal.SIGTERM)
            pr.wait_exit(p, 8)
        pr.kill(p)
        if not alive:
            return {"property": ["C20", "C11"], "expected": "`zinoma %s`: a service sits behind the aggregate (next to a deep aggregate over builds): zinoma stays alive like `zinoma srv b1 b2` does" % root, "observed": "zinoma exited with %s" % p.returncode, "output": pr.output_of(p)[-300:]}
        pr.clear_log()
        pr.remove(".zinoma")
    return None


def watch_dot_path_case(pr):
    """watch mode, `paths: [.]` without filter, no .zinoma directory yet: zinoma's own state writes trigger nothing"""
    pr.write("in.txt", "v0")
    pr.write("zinoma.yml", yml({"t": {"input": [{"paths": ["."]}], "build": logging_build("t")}}))
    p = pr.spawn("--watch", "t")
    if not _wait_builds(pr, "t", 1):
        return None
    time.sleep(2.5)
    n = pr.output_of(p).count(" t - Build")
    starts = pr.count("s t")
    if n > 2 or starts > 1:
        # (`Building` + `Build success` = 2 lines for the one evaluation)
        return {"property": "C16", "expected": "after the first build nothing changed but zinoma's own .zinoma directory and state file: t is not evaluated again", "observed": "%d `t - Build...` lines, %d starts" % (n, starts), "output": pr.output_of(p)[-500:]}
    return None


def watch_unfiltered_resource_case(pr):
    """a target with filtered resources and one without filter: a change to a file of the unfiltered one triggers it"""
    pr.write("src/in.txt", "v0")
    pr.write("conf/settings", "s0")
    pr.write("src/assets/logo.png", "p")
    t = _copy_target(ext=["txt"], extra_inputs=[{"paths": ["src/assets"], "extensions": ["png"]}, {"paths": ["conf"]}])
    pr.write("zinoma.yml", yml({"t": t}))
    p = _start_watch(pr, "t")
    if not _wait_builds(pr, "t", 1):
        return None
    time.sleep(0.5)
    for (f, txt) in (("conf/settings", "s1-longer"), ("src/in.txt", "v1"), ("conf/settings", "s2-longer-still")):
        n = pr.count("s t")
        pr.edit(f, txt)
        if not pr.wait_for(lambda: pr.count("s t") > n, WAIT):
            return {"property": ["C06", "C16", "C15"], "expected": "a change to %s (a declared input; conf has no extension filter) re-runs the target" % f, "observed": "no new start in %ss" % WAIT, "output": pr.output_of(p)[-400:]}
        pr.wait_for(lambda: pr.count("e t") >= pr.count("s t"), WAIT)
        time.sleep(0.5)
    return None


def aggregate_with_slow_service_case(pr):
    """dev -> [assets (build), api (service)], api -> compile (slow build): `zinoma dev` starts api and stays alive"""
    ts = {"assets": {"build": logging_build("assets")}, "compile": {"build": logging_build("compile", sleep=1.5)}, "api": {"dependencies": ["compile"], "service": SVC}, "dev": {"dependencies": ["assets", "api"]}, "outer": {"dependencies": ["dev"]}}
    pr.write("zinoma.yml", yml(ts))
    for root in ("dev", "outer"):
        pr.clear_log()
        p = pr.spawn(root)
        started = pr.wait_for(lambda: _pids(pr, "svc"), WAIT)
        time.sleep(1.5)
        alive = p.poll() is None
        if alive:
            os.kill(p.pid, signal.SIGTERM)
            pr.wait_exit(p, 8)
        pr.kill(p)
        if not started or not alive:
            return {"property": ["C11", "C20"], "expected": "`zinoma %s`: the service api (behind the aggregate, after its slow prerequisite) is started and keeps zinoma running" % root, "observed": "service started: %s; zinoma %s" % (bool(started), "still running" if alive else "exited with %s" % p.returncode), "output": pr.output_of(p)[-300:]}
        pr.remove(".zinoma")
    return None


def mixed_aggregate_failure_case(pr):
    """test -> backend (aggregate) -> [db (service), migrations (build, fails after 1 s)]: test never starts"""
    ts = {"db": {"service": SVC}, "migrations": {"build": 'echo "s migrations" >> "$ZLOG"\nsleep 1\nexit 1'}, "backend": {"dependencies": ["db", "migrations"]}, "backend_rev": {"dependencies": ["migrations", "db"]},
          "test": {"dependencies": ["backend"], "build": logging_build("test")}, "test_rev": {"dependencies": ["backend_rev"], "build": logging_build("test_rev")}}
    pr.write("zinoma.yml", yml(ts))
    for root in ("test", "test_rev"):
        pr.clear_log()
        r = pr.run(root, timeout=30)
        if r.timed_out or r.rc == 0:
            return {"property": "C07", "expected": "migrations fails: `zinoma %s` exits non-zero" % root, "observed": "exit %s timed out %s" % (r.rc, r.timed_out), "zinoma": r.brief()}
        if "s " + root in pr.log():
            return {"property": ["C07", "C01"], "expected": "%s depends, through an aggregate that also holds a service, on migrations, which fails: it never starts" % root, "observed": "log %s" % pr.log(), "zinoma": r.brief()}
    return None


def crashing_service_case(pr):
    """a service whose process exits non-zero while a build of the same one-shot run is still going: started once"""
    ts = {"db": {"service": 'echo "pid svc $$" >> "$ZLOG"\nsleep 0.3\nexit 1'}, "slow": {"build": logging_build("slow", sleep=1.5)}, "app": {"dependencies": ["db", "slow"], "build": logging_build("app")}}
    pr.write("zinoma.yml", yml(ts))
    r = pr.run("app", timeout=30)
    n = max(len(_pids(pr, "svc")), r.out.count("db - Starting service"))
    if r.timed_out:
        return {"property": "C04", "expected": "the run ends", "observed": "no exit in 30 s", "zinoma": r.brief()}
    if n > 1:
        return {"property": ["C08", "C11"], "expected": "in one one-shot invocation the service db is started at most once, also when its process dies", "observed": "%d starts" % n, "zinoma": r.brief()}
    return None


def watch_redundant_edge_case(pr):
    """watch mode: top lists the service svc directly and also depends on mid, which depends on svc; svc waits for a slow
    rebuild of gen; top's own input changes in that window: top does not start before svc has been restarted"""
    pr.write("gsrc/g.txt", "g0")
    pr.write("tsrc/t.txt", "t0")
    svc = 'echo "start svc" >> "$ZLOG"\nsleep 60'
    ts = {"gen": {"input": [{"paths": ["gsrc"]}], "build": logging_build("gen", sleep=2.0)}, "svc": {"dependencies": ["gen"], "service": svc},
          "mid": {"dependencies": ["svc"], "build": logging_build("mid")}, "top": {"dependencies": ["svc", "mid"], "input": [{"paths": ["tsrc"]}], "build": logging_build("top")}}
    pr.write("zinoma.yml", yml(ts))
    p = pr.spawn("--watch", "top")
    if not _wait_builds(pr, "top", 1):
        return None
    time.sleep(0.5)
    pr.clear_log()
    pr.edit("gsrc/g.txt", "g1")            # gen rebuilds for 2 s; svc is out of date meanwhile
    if not pr.wait_for(lambda: "s gen" in pr.log(), WAIT):
        return None
    time.sleep(0.5)
    pr.edit("tsrc/t.txt", "t1")            # top becomes due inside that window
    pr.wait_for(lambda: "e top" in pr.log(), WAIT)
    log = pr.log()
    if "s top" in log and ("e gen" not in log or "start svc" not in log or log.index("s top") < log.index("start svc")):
        return {"property": ["C01", "C11", "C06"], "expected": "top starts only after gen was rebuilt and svc restarted (top lists svc directly, and through mid)", "observed": "log %s" % log, "output": pr.output_of(p)[-400:]}
    return None


def watch_large_input_edit_at_start_case(pr):
    """a large input (256 MiB sparse) edited just after the build script has read it: the change ends up built"""
    os.makedirs(pr.path("data"))
    with open(pr.path("data/big.bin"), "wb") as f:
        f.truncate(256 * 1024 * 1024)
        f.seek(256 * 1024 * 1024 - 10)
        f.write(b"version-01")
    pr.files["data/big.bin"] = "<256 MiB sparse file ending in version-01>"
    t = {"input": [{"paths": ["data"]}], "output": [{"paths": ["out.txt"]}], "build": 'v=$(tail -c 10 data/big.bin)\necho "read $v" >> "$ZLOG"\nsleep 1\necho "$v" > out.txt\necho "e t" >> "$ZLOG"'}
    pr.write("zinoma.yml", yml({"t": t}))
    p = pr.spawn("--watch", "t")
    if not pr.wait_for(lambda: pr.count("e t") >= 1, 60):
        return None
    time.sleep(1.0)
    n = pr.count("read version-01")
    with open(pr.path("data/big.bin"), "r+b") as f:
        f.seek(256 * 1024 * 1024 - 10)
        f.write(b"version-02")
    if not pr.wait_for(lambda: pr.count("read version-02") >= 1, 60):
        return None
    # the moment the script has read version-02, change it again
    with open(pr.path("data/big.bin"), "r+b") as f:
        f.seek(256 * 1024 * 1024 - 10)
        f.write(b"version-03")
    pr.commands.append("rewrite the last bytes of data/big.bin (version-02, then version-03 right after the script read version-02)")
    if not pr.wait_for(lambda: (pr.read("out.txt") or "").strip() == "version-03", 60):
        return {"property": "C06", "expected": "the input was changed right after the build script had read it: once changes stop, out.txt is built from the last content (version-03)", "observed": "out.txt = %r; log %s" % ((pr.read("out.txt") or "").strip(), pr.log()[-6:]), "output": pr.output_of(p)[-400:]}
    return None


def service_restart_by_build_dependency_case(pr):
    """watch mode: a service depends on a build; the build's input changes: the service is restarted, the old instance
    stopped first, nothing left at exit"""
    pr.write("gsrc/g.txt", "g0")
    ts = {"gen": {"input": [{"paths": ["gsrc"]}], "build": logging_build("gen", sleep=0.3)}, "svc": {"dependencies": ["gen"], "service": SVC}}
    pr.write("zinoma.yml", yml(ts))
    p = pr.spawn("--watch", "svc")
    if not pr.wait_for(lambda: len(_pids(pr, "svc")) >= 1, WAIT):
        return None
    time.sleep(0.6)
    for k in range(2):
        n = len(_pids(pr, "svc"))
        pr.edit("gsrc/g.txt", "g%d-longer" % (k + 1))
        if not pr.wait_for(lambda: len(_pids(pr, "svc")) > n, WAIT):
            return {"property": ["C06", "C11"], "expected": "the build the service depends on was rebuilt: the service is restarted", "observed": "no restart in %ss; log %s" % (WAIT, pr.log()[-6:]), "output": pr.output_of(p)[-300:]}
        time.sleep(0.6)
    overlap = "overlap svc" in pr.log()
    alive = [q for q in _pids(pr, "svc") if _alive(q)]
    os.kill(p.pid, signal.SIGTERM)
    pr.wait_exit(p, 8)
    time.sleep(0.3)
    left = [q for q in _pids(pr, "svc") if _alive(q)]
    if overlap or len(alive) > 1:
        return {"property": "C11", "expected": "a restart (caused by a rebuilt build dependency) stops the old instance before starting the new one", "observed": "instances alive together: %s; log %s" % (alive, [l for l in pr.log() if "svc" in l])}
    if left:
        return {"property": ["C10", "C11"], "expected": "no instance of the service left after zinoma exits", "observed": "pid(s) %s alive" % left}
    return None


def aggregate_service_and_its_dependent_case(pr):
    """dev -> [migrate, db], migrate (build) -> db (service): `zinoma dev` keeps running like `zinoma migrate db`"""
    ts = {"db": {"service": SVC}, "migrate": {"dependencies": ["db"], "build": logging_build("migrate")}, "lint": {"build": logging_build("lint")}, "dev": {"dependencies": ["migrate", "db"]}, "dev_rev": {"dependencies": ["db", "migrate"]},
          "checks": {"dependencies": ["lint", "migrate"]}, "all": {"dependencies": ["checks", "db"]}}
    pr.write("zinoma.yml", yml(ts))
    for root in ("dev", "dev_rev", "all"):
        pr.clear_log()
        p = pr.spawn(root)
        if not pr.wait_for(lambda: "e migrate" in pr.log(), WAIT):
            pr.kill(p)
            return None
        time.sleep(1.5)
        alive = p.poll() is None
        if alive:
            os.kill(p.pid, signal.SIGTERM)
            pr.wait_exit(p, 8)
        pr.kill(p)
        if not alive:
            return {"property": ["C20", "C11"], "expected": "`zinoma %s`: the aggregate lists the service db (and a build that depends on db): zinoma keeps running" % root, "observed": "zinoma exited with %s" % p.returncode, "output": pr.output_of(p)[-300:]}
    return None


def watch_nested_project_state_case(pr):
    """watch mode: app::pack watches `vendor` (no filter); another zinoma builds a target of the project nested there: the
    state it writes below vendor/lib/.zinoma does not trigger pack"""
    pr.write("vendor/lib/src/l.txt", "l1")
    pr.write("vendor/lib/zinoma.yml", yml({"gen": {"input": [{"paths": ["src"]}], "build": logging_build("gen")}}, name="lib"))
    pr.write("zinoma.yml", yml({"pack": {"input": [{"paths": ["vendor"]}], "build": logging_build("pack")}}, name="app", imports={"lib": "vendor/lib"}))
    r = pr.run("lib::gen")
    pr.remove("vendor/lib/.zinoma")
    pr.mkdir("vendor/lib/.zinoma")
    p = pr.spawn("--watch", "pack")
    if not _wait_builds(pr, "pack", 1):
        return None
    time.sleep(0.8)
    n = pr.output_of(p).count("pack - Build")
    pr.run("gen", cwd=pr.path("vendor/lib"))        # writes vendor/lib/.zinoma/gen.checksums
    time.sleep(QUIET)
    if pr.output_of(p).count("pack - Build") != n:
        return {"property": ["C16", "C15"], "expected": "a state file written below vendor/lib/.zinoma (a directory named .zinoma under pack's input path) does not trigger pack", "observed": "%d more evaluation line(s) of pack" % (pr.output_of(p).count("pack - Build") - n), "output": pr.output_of(p)[-400:]}
    return None


def watch_touch_then_change_during_skip_case(pr):
    """watch mode: an identical rewrite leads to a (slow) skip evaluation; a real change lands while it is evaluated"""
    pr.write("src/in.txt", "v1")
    t = _copy_target(extra_inputs=[{"cmd_stdout": "sleep 1.5; echo probe"}])
    pr.write("zinoma.yml", yml({"t": t}))
    p = _start_watch(pr, "t")
    if not pr.wait_for(lambda: pr.count("e t") >= 1, 30):
        return None
    time.sleep(2.5)
    with open(pr.path("src/in.txt"), "w") as f:
        f.write("v1")                       # identical content, new modification time
    st = os.stat(pr.path("src/in.txt"))
    os.utime(pr.path("src/in.txt"), ns=(st.st_atime_ns, st.st_mtime_ns + 9_000_000))
    pr.commands.append("rewrite src/in.txt identically")
    time.sleep(0.7)                         # the skip is being evaluated (the probe command sleeps 1.5 s)
    pr.edit("src/in.txt", "v2")
    if not pr.wait_for(lambda: (pr.read("out.txt") or "").strip() == "v2", 30):
        return {"property": "C06", "expected": "a real change made while an identical rewrite was being evaluated (and skipped) ends up built: out.txt = v2", "observed": "out.txt = %r; log %s" % ((pr.read("out.txt") or "").strip(), pr.log()[-6:]), "output": pr.output_of(p)[-500:]}
    return None


def watch_failed_rebuild_blocks_dependents_case(pr):
    """watch mode: lib built fine, then its own input changes and the rebuild fails; app's own input changes afterwards:
    app stays blocked"""
    pr.write("lsrc/in.txt", "good")
    pr.write("asrc/a.txt", "a0")
    lib = {"input": [{"paths": ["lsrc"]}], "build": 'echo "s lib" >> "$ZLOG"\nif [ "$(cat lsrc/in.txt)" = bad ]; then echo "f lib" >> "$ZLOG"; exit 1; fi\necho "e lib" >> "$ZLOG"'}
    app = {"dependencies": ["lib"], "input": [{"paths": ["asrc"]}], "build": logging_build("app")}
    pr.write("zinoma.yml", yml({"lib": lib, "app": app}))
    p = pr.spawn("--watch", "app")
    if not _wait_builds(pr, "app", 1):
        return None
    time.sleep(0.5)
    pr.edit("lsrc/in.txt", "bad")
    if not pr.wait_for(lambda: "f lib" in pr.log(), WAIT):
        return None
    time.sleep(0.7)
    n = pr.count("s app")
    pr.edit("asrc/a.txt", "a1")
    time.sleep(2.5)
    if pr.count("s app") > n:
        return {"property": ["C07", "C01"], "expected": "lib's rebuild failed: app, which depends on it, stays blocked also when its own input changes", "observed": "app started again; log %s" % pr.log(), "output": pr.output_of(p)[-400:]}
    pr.edit("lsrc/in.txt", "fixed")
    if not pr.wait_for(lambda: pr.count("e app") > n, WAIT):
        return {"property": "C06", "expected": "once lib is repaired and rebuilt, app (whose input changed meanwhile) is rebuilt", "observed": "log %s" % pr.log()[-8:], "output": pr.output_of(p)[-400:]}
    return None


def service_with_input_second_run_case(pr):
    """a service that declares inputs, in a second and third invocation on an untouched tree: it is started each time"""
    pr.write("conf/db.conf", "1")
    ts = {"db": {"input": [{"paths": ["conf"]}], "service": SVC}, "migrate": {"dependencies": ["db"], "build": 'echo "s migrate" >> "$ZLOG"\nsleep 0.6\nif kill -0 "$(cat svc.pid)" 2>/dev/null; then echo "up migrate" >> "$ZLOG"; else echo "down migrate" >> "$ZLOG"; fi\necho "e migrate" >> "$ZLOG"'}}
    pr.write("zinoma.yml", yml(ts))
    for rep in (1, 2, 3):
        pr.clear_log()
        if os.path.exists(pr.path("svc.pid")):
            os.remove(pr.path("svc.pid"))
        r = pr.run("migrate", timeout=30)
        if r.timed_out or r.rc != 0:
            return {"property": "C04", "expected": "invocation %d exits 0" % rep, "observed": "exit %s timed out %s" % (r.rc, r.timed_out), "zinoma": r.brief()}
        if "up migrate" not in pr.log():
            return {"property": ["C11", "C01"], "expected": "invocation %d: the service db (which declares inputs, untouched) is started before migrate and is up while it builds" % rep, "observed": "log %s" % pr.log(), "zinoma": r.brief()}
    p = pr.spawn("db")
    ok = pr.wait_for(lambda: any(_alive(q) for q in _pids(pr, "svc")[-1:]), 6)
    time.sleep(0.5)
    alive = p.poll() is None
    if alive:
        os.kill(p.pid, signal.SIGTERM)
        pr.wait_exit(p, 8)
    pr.kill(p)
    if not ok:
        return {"property": "C11", "expected": "`zinoma db` on the untouched tree starts the service", "observed": "no instance; log %s" % pr.log()[-4:], "output": pr.output_of(p)[-300:]}
    return None


def watch_compound_extension_case(pr):
    """watch mode with compound extensions (d.ts, spec.js, tar.gz): a change to a matching file triggers"""
    pr.write("types/a.d.ts", "t0")
    pr.write("types/plain.ts", "p0")
    t = {"input": [{"paths": ["types"], "extensions": ["d.ts", "spec.js"]}], "build": logging_build("t")}
    pr.write("zinoma.yml", yml({"t": t}))
    p = pr.spawn("--watch", "t")
    if not _wait_builds(pr, "t", 1):
        return None
    time.sleep(0.5)
    n = pr.count("s t")
    pr.edit("types/plain.ts", "p1")
    time.sleep(QUIET)
    if pr.count("s t") != n:
        return {"property": ["C16", "C15"], "expected": "types/plain.ts does not end with .d.ts or .spec.js: no run", "observed": "t started", "output": pr.output_of(p)[-300:]}
    pr.edit("types/a.d.ts", "t1-longer")
    if not pr.wait_for(lambda: pr.count("s t") > n, WAIT):
        return {"property": ["C16", "C15"], "expected": "types/a.d.ts ends with the declared extension .d.ts: its change triggers the target", "observed": "no start in %ss" % WAIT, "output": pr.output_of(p)[-300:]}
    return None


def watch_many_failures_case(pr):
    """watch mode: more failing targets than CPUs, next to an unrelated target - every failure is attempted, the unrelated
    target is built, rebuilt on change, and a repaired target builds"""
    n = min((os.cpu_count() or 4) + 2, 40)
    ts = {}
    for i in range(n):
        pr.write("f%d/in.txt" % i, "bad")
        ts["f%d" % i] = {"input": [{"paths": ["f%d" % i]}], "build": 'echo "s f%d" >> "$ZLOG"\nif [ "$(cat f%d/in.txt)" = bad ]; then echo "x f%d" >> "$ZLOG"; exit 1; fi\necho "e f%d" >> "$ZLOG"' % (i, i, i, i)}
    pr.write("src/in.txt", "v1")
    ts["t"] = _copy_target()
    pr.write("zinoma.yml", yml(ts))
    p = _start_watch(pr, *(["f%d" % i for i in range(n)] + ["t"]))
    if not pr.wait_for(lambda: sum(1 for l in pr.log() if l.startswith("x f")) >= n and pr.count("e t") >= 1, 25):
        failed = sorted(l for l in pr.log() if l.startswith("x f"))
        return {"property": "C07", "expected": "watch mode: all %d failing targets are attempted (and reported) and the unrelated target t is built" % n, "observed": "%d failures attempted, t built %d time(s)" % (len(failed), pr.count("e t")), "output": pr.output_of(p)[-400:]}
    time.sleep(0.5)
    if p.poll() is not None:
        return {"property": "C07", "expected": "in watch mode failures are reported and zinoma keeps watching", "observed": "zinoma exited with %s" % p.returncode, "output": pr.output_of(p)[-400:]}
    pr.edit("src/in.txt", "v2")
    if not pr.wait_for(lambda: (pr.read("out.txt") or "").strip() == "v2", WAIT):
        return {"property": ["C07", "C06"], "expected": "after %d failed builds the unrelated target t is still rebuilt when its input changes" % n, "observed": "out.txt = %r" % (pr.read("out.txt") or "").strip(), "output": pr.output_of(p)[-400:]}
    pr.edit("f1/in.txt", "good now")
    if not pr.wait_for(lambda: pr.count("e f1") >= 1, WAIT):
        return {"property": ["C07", "C06"], "expected": "a failed target whose input is repaired builds", "observed": "log tail %s" % pr.log()[-6:], "output": pr.output_of(p)[-400:]}
    return None


def watch_mixed_aggregate_invalidated_case(late):
    """watch mode, e2e -> aggregate stack -> [slow (build), server (service)], both behind gen: one edit puts both out of date;
    e2e re-runs only after both are fresh again, whichever of the two comes back last"""
    def fn(pr):
        pr.write("src.txt", "1")
        gen = {"input": [{"paths": ["src.txt"]}], "output": [{"paths": ["gen.txt"]}], "build": logging_build("gen", body="cat src.txt > gen.txt")}
        slow = {"dependencies": ["gen"], "input": ["gen.output"], "build": logging_build("slow", sleep=2.0 if late == "build" else 0.2)}
        prep = {"dependencies": ["gen"], "input": ["gen.output"], "build": logging_build("prep", sleep=2.0 if late == "service" else 0.0)}
        server = {"dependencies": ["prep"], "input": ["gen.output"], "service": SVC}
        e2e = {"dependencies": ["stack"], "build": 'echo "s e2e" >> "$ZLOG"\nif kill -0 "$(cat svc.pid)" 2>/dev/null; then echo "up e2e" >> "$ZLOG"; else echo "down e2e" >> "$ZLOG"; fi\nsleep 0.3\necho "e e2e" >> "$ZLOG"'}
        pr.write("zinoma.yml", yml({"gen": gen, "slow": slow, "prep": prep, "server": server, "stack": {"dependencies": ["slow", "server"]}, "e2e": e2e}))
        p = _start_watch(pr, "e2e")
        if not _wait_builds(pr, "e2e", 1):
            return None
        time.sleep(0.5)
        pr.edit("src.txt", "2-longer")
        if not pr.wait_for(lambda: pr.count("e slow") >= 2 and pr.count("e prep") >= 2 and len(_pids(pr, "svc")) >= 2, WAIT):
            return None
        pr.wait_for(lambda: pr.count("e e2e") >= 2, 6)
        time.sleep(0.8)
        log = pr.log()
        out = [l for l in pr.output_of(p).split("\n") if l.rstrip().endswith(("e2e - Building", "server - Starting service"))]
        # zinoma's own output orders the service starts against e2e's builds (the scripts' log lines of two processes race)
        svc2 = [i for i, l in enumerate(out) if "Starting service" in l][1:2]
        e2e_after_edit = [i for i, l in enumerate(out) if "e2e - Building" in l][1:]
        slow2 = [i for i, l in enumerate(log) if l == "e slow"][1]
        starts_after_edit = [i for i, l in enumerate(log) if l == "s e2e"][1:]
        if not svc2:
            return None
        if not e2e_after_edit or not starts_after_edit or max(e2e_after_edit) < svc2[0] or max(starts_after_edit) < slow2:
            return {"property": ["C01", "C20"], "expected": "after the edit e2e runs again once slow has been rebuilt and the service restarted (it reaches both only through the aggregate)", "observed": "log %s; zinoma printed %s" % (log, out), "output": pr.output_of(p)[-400:]}
        if min(e2e_after_edit) < svc2[0] or min(starts_after_edit) < slow2:
            return {"property": ["C01", "C20"], "expected": "e2e does not start while slow or the service behind the aggregate is still out of date", "observed": "log %s; zinoma printed %s" % (log, out), "output": pr.output_of(p)[-400:]}
        return None
    return fn


def cases(seed, tier="quick"):
    C = lambda n, fn, what: Case("live", n, fn, what)
    return [
        C("watch-two-edits-250ms", watch_edits_case(0.25, False), "two edits 250 ms apart: the last one ends up built"),
        C("watch-two-edits-50ms", watch_edits_case(0.05, False), "two edits 50 ms apart"),
        C("watch-edit-during-rebuild", watch_edits_case(0, True), "edit while the rebuild runs"),
        C("watch-chain", watch_chain_case, "dependency's rebuilt outputs re-run the consumer, clean tree at start"),
        C("watch-failure-keeps-watching", watch_failure_case, "failure in watch mode: reported, keeps watching"),
        C("watch-edit-during-failing-build", watch_edit_during_failing_build_case, "change during a failing build is not forgotten"),
        C("watch-fail-while-other-dep-building", watch_fail_while_other_dep_building_case, "a dependency fails its rebuild while the dependent waits for another one"),
        C("watch-failed-dep-late-requester", watch_failed_dep_late_requester_case, "a late requester of a failed dependency is not acknowledged"),
        C("watch-unfiltered-resource", watch_unfiltered_resource_case, "an unfiltered resource next to filtered ones"),
        C("watcher-filter", watcher_filter_case, "irrelevant changes never trigger; unusual names do not stop the watcher; nested filtered path and removals trigger"),
        C("sigterm-during-build", signal_during_build_case(signal.SIGTERM, False), "SIGTERM during a 60 s build"),
        C("sigint-during-build", signal_during_build_case(signal.SIGINT, False), "SIGINT during a 60 s build"),
        C("sigterm-during-watch-build", signal_during_build_case(signal.SIGTERM, True), "SIGTERM during a build in watch mode"),
        C("failure-with-running-sibling", failure_with_running_sibling_case, "failed target while a sibling builds"),
        C("wide-failure", wide_failure_case, "failure with thousands of messages in flight"),
        C("many-roots", many_roots_case, "100 targets on the command line"),
        C("watch-rename-over-input", watch_rename_over_input_case, "an input replaced by rename"),
        C("watch-repeated-failure-reported", watch_repeated_failure_reported_case, "the same failure twice is reported twice"),
        C("signal-with-several-actors", signal_with_several_actors_case, "signal while one build runs among several actors"),
        C("watch-edit-long-build-then-sigterm", watch_edit_long_build_then_sigterm_case, "edits during a long build, then SIGTERM"),
        C("sigterm-during-wide-run", sigterm_during_wide_run_case, "SIGTERM with many messages in flight"),
        C("service-requested", service_requested_case(False), "requested service keeps zinoma alive, stopped at SIGTERM"),
        C("service-requested-via-aggregate", service_requested_case(True), "service requested through an aggregate"),
        C("service-dependency", service_dependency_case, "service only depended on: up during the build, stopped at exit"),
        C("service-shared-deep", service_shared_deep_case, "service shared by a shallow and a deep dependent"),
        C("service-restart", service_restart_case, "restart stops the old instance first"),
        C("service-with-input-second-run", service_with_input_second_run_case, "a service with inputs on an untouched tree is started by every invocation"),
        C("watch-compound-extension", watch_compound_extension_case, "compound extensions in the watcher"),
        C("watch-touch-then-change-during-skip", watch_touch_then_change_during_skip_case, "a change landing while a skip is evaluated"),
        C("watch-failed-rebuild-blocks-dependents", watch_failed_rebuild_blocks_dependents_case, "a failed rebuild keeps dependents blocked"),
        C("service-restart-by-build-dependency", service_restart_by_build_dependency_case, "restart caused by a rebuilt build dependency"),
        C("aggregate-service-and-its-dependent", aggregate_service_and_its_dependent_case, "an aggregate listing a service and a build that depends on it"),
        C("watch-nested-project-state", watch_nested_project_state_case, "state writes of a nested project do not trigger the outer watcher"),
        C("mixed-aggregate-failure", mixed_aggregate_failure_case, "a failing build next to a service behind an aggregate"),
        C("crashing-service", crashing_service_case, "a service that dies during a one-shot run"),
        C("watch-redundant-edge", watch_redundant_edge_case, "a direct dependency that is also reachable through another one, in watch mode"),
        C("watch-large-input-edit-at-start", watch_large_input_edit_at_start_case, "a large input edited right after the script read it"),
        C("aggregate-with-slow-service", aggregate_with_slow_service_case, "a service with a slow prerequisite behind an aggregate with builds"),
        C("service-up-on-every-rebuild", service_up_on_every_rebuild_case, "the service is up on every re-build of its dependent"),
        C("service-beside-nested-aggregate", service_beside_nested_aggregate_case, "keep-alive with a service next to a deep aggregate"),
        C("watch-dot-path", watch_dot_path_case, "own state writes do not trigger (paths: [.])"),
        C("mixed-aggregate", mixed_aggregate_case, "dependent of an aggregate mixing a build and a service"),
        C("service-invalidated-during-dependent-build", service_invalidated_during_dependent_build_case, "service input changes while its dependent builds"),
        C("signal-during-input-command", signal_during_input_command_case("signal"), "SIGTERM while a slow cmd_stdout input runs"),
        C("failure-during-input-command", signal_during_input_command_case("failure"), "a failure elsewhere while a slow cmd_stdout input runs"),
        C("service-and-dependent-requested", service_and_dependent_requested_case(["migrate", "db"]), "service requested together with a build that depends on it"),
        C("service-and-dependent-requested-rev", service_and_dependent_requested_case(["db", "migrate"]), "the same, other order"),
        C("watch-sibling-xoutput", watch_sibling_xoutput_case, "out-of-band edit of a sibling project's output"),
        C("wide-aggregate-equiv", wide_aggregate_equiv_case, "wide build-only aggregate exits"),
        C("watch-many-failures", watch_many_failures_case, "more failed builds than CPUs in one watch session"),
        C("watch-mixed-aggregate-invalidated-build-late", watch_mixed_aggregate_invalidated_case("build"), "a build and a service behind an aggregate both out of date, the build comes back last"),
        C("watch-mixed-aggregate-invalidated-service-late", watch_mixed_aggregate_invalidated_case("service"), "the same, the service comes back last"),
    ]
