"""bounded family for configuration loading and resolution (C09, C14, C19): a fixed list of broken and valid
project files; a rejected configuration must exit non-zero quickly, run no script and delete nothing."""
import os
from core import Case, yml, logging_build


def B(name, **kw):
    d = dict(kw)
    d["build"] = logging_build(name)
    return d


def _snapshot(root):
    out = set()
    for d, dirs, files in os.walk(root, followlinks=False):
        for n in dirs + files:
            out.add(os.path.relpath(os.path.join(d, n), root))
    return out


def rejected(prop, files, requests, why):
    """every request (argument list) must be refused: exit != 0 within 10 s, no script, nothing deleted"""
    def fn(pr):
        for f, t in files.items():
            pr.write(f, t)
        pr.write("precious_output.txt", "x")
        # state and outputs left by an earlier, successful run of a (then valid) project: a refused run deletes none of it
        for d in sorted(set(os.path.dirname(f) for f in files)):
            pr.write(os.path.join(d, ".zinoma/earlier.checksums"), "state", record=False)
            pr.write(os.path.join(d, "o.txt"), "output of an earlier run", record=False)
            pr.write(os.path.join(d, "p.txt"), "output of an earlier run", record=False)
        before = _snapshot(pr.root)
        for args in requests:
            verdicts = []
            for rep in range(2):
                pr.clear_log()
                r = pr.run(*args, timeout=10)
                verdicts.append((r.rc != 0, r.timed_out))
                if r.timed_out:
                    return {"property": prop, "expected": "%s: `zinoma %s` refuses to start (and never hangs)" % (why, " ".join(args)), "observed": "no exit within 10 s; scripts run: %s" % pr.log(), "zinoma": r.brief()}
                if r.rc == 0:
                    return {"property": prop, "expected": "%s: `zinoma %s` exits non-zero" % (why, " ".join(args)), "observed": "exit 0; scripts run: %s" % pr.log(), "zinoma": r.brief()}
                if pr.log():
                    return {"property": prop, "expected": "%s: no script runs" % why, "observed": "log %s" % pr.log(), "zinoma": r.brief()}
                if "panicked" in r.out:
                    return {"property": "C14", "expected": "%s: an error, never a panic" % why, "observed": r.out[-300:], "zinoma": r.brief()}
            gone = before - _snapshot(pr.root)
            if gone:
                return {"property": prop, "expected": "%s: nothing is deleted" % why, "observed": "deleted %s" % sorted(gone)}
        return None
    return fn


def no_panic(prop, files, requests, why):
    """whatever zinoma decides about this document, it decides the same every time, within 10 s, and never by panicking"""
    def fn(pr):
        for f, t in files.items():
            pr.write(f, t)
        for args in requests:
            verdicts = []
            for rep in range(3):
                pr.remove(".zinoma")
                r = pr.run(*args, timeout=10)
                if r.timed_out:
                    return {"property": prop, "expected": "%s: `zinoma %s` ends" % (why, " ".join(args)), "observed": "no exit within 10 s", "zinoma": r.brief()}
                if "panicked" in r.out or r.rc not in (0, 1, 2):
                    return {"property": prop, "expected": "%s: accepted or rejected with an error message, never a panic" % why, "observed": "exit %s: %s" % (r.rc, r.out[-300:]), "zinoma": r.brief()}
                verdicts.append(r.rc == 0)
            if len(set(verdicts)) != 1:
                return {"property": prop, "expected": "%s: the same verdict on every invocation" % why, "observed": "accepted: %s" % verdicts}
        return None
    return fn


def rejected_in(prop, files, cwd, requests, why):
    """like `rejected`, with zinoma started in the sub-directory `cwd` of the scratch tree"""
    inner = rejected(prop, files, requests, why)

    def fn(pr):
        orig = pr.run
        pr.run = lambda *a, **k: orig(*a, **dict(k, cwd=pr.path(cwd)))
        return inner(pr)
    return fn


def accepted_runs(prop, files, args, expect_started, why, cwd=None):
    def fn(pr):
        for f, t in files.items():
            pr.write(f, t)
        r = pr.run(*args, timeout=30, cwd=(pr.path(cwd) if cwd else None))
        started = sorted(l[2:] for l in pr.log() if l.startswith("s "))
        if r.timed_out or r.rc != 0 or started != sorted(expect_started):
            return {"property": prop, "expected": "%s: `zinoma %s` exits 0 having started exactly %s (each once)" % (why, " ".join(args), sorted(expect_started)), "observed": "exit %s timed_out %s started %s" % (r.rc, r.timed_out, started), "zinoma": r.brief()}
        return None
    return fn


OUT = [{"paths": ["o.txt"]}]


def cases(seed, tier="quick"):
    C = lambda n, fn, what: Case("config", n, fn, what)
    out = []
    # ---- C09: broken graphs ---------------------------------------------------------------------------
    rej9 = [
        ("unknown-target", {"zinoma.yml": yml({"a": B("a", dependencies=["nope"]), "ok": B("ok")})}, [["a"], ["--clean", "a"], ["--clean"]], "a reachable reference names an unknown target"),
        ("unknown-project", {"zinoma.yml": yml({"a": B("a", dependencies=["ghost::t"])})}, [["a"], ["--clean", "a"]], "a reachable reference names an unknown project"),
        ("unknown-output-ref", {"zinoma.yml": yml({"a": B("a", input=["nope.output"])})}, [["a"]], "X.output of an unknown target"),
        ("cycle-2", {"zinoma.yml": yml({"a": B("a", dependencies=["b"]), "b": B("b", dependencies=["a"])})}, [["a"], ["b"], ["--clean", "a"], ["--clean"]], "a reachable reference closes a cycle"),
        ("cycle-self", {"zinoma.yml": yml({"a": B("a", dependencies=["a"])})}, [["a"]], "a target depends on itself"),
        ("cycle-3-agg", {"zinoma.yml": yml({"a": B("a", dependencies=["g"]), "g": {"dependencies": ["c"]}, "c": B("c", dependencies=["a"])})}, [["a"], ["g"]], "a cycle through an aggregate"),
        ("cycle-via-output", {"zinoma.yml": yml({"a": B("a", input=["b.output"], output=OUT), "b": B("b", input=["a.output"], output=[{"paths": ["p.txt"]}])})}, [["a"]], "a cycle closed by X.output references"),
        ("cycle-dup-ref", {"zinoma.yml": yml({"gen": B("gen", output=OUT), "compile": B("compile", dependencies=["gen", "package"], input=["gen.output"]), "package": B("package", dependencies=["compile"])})}, [["package"], ["compile"], ["--clean", "package"]], "a cycle whose member references an acyclic target twice (dependencies and X.output)"),
        ("cycle-deep", {"zinoma.yml": yml(dict([("t0", B("t0", dependencies=["t9"]))] + [("t%d" % i, B("t%d" % i, dependencies=["t%d" % (i - 1)])) for i in range(1, 10)]))}, [["t5"]], "a 10-cycle"),
        ("output-of-service", {"zinoma.yml": yml({"s": {"service": "sleep 30"}, "a": B("a", input=["s.output"])})}, [["a"]], "X.output of a service"),
        ("output-of-aggregate", {"zinoma.yml": yml({"x": B("x", output=OUT), "g": {"dependencies": ["x"]}, "a": B("a", input=["g.output"])})}, [["a"]], "X.output of an aggregate"),
        ("output-of-service-also-dep", {"zinoma.yml": yml({"s": {"service": "sleep 30"}, "a": B("a", dependencies=["s"], input=["s.output"])})}, [["a"]], "X.output of a service that is also listed under dependencies"),
        ("output-of-aggregate-reached-first", {"zinoma.yml": yml({"x": B("x", output=OUT), "group": {"dependencies": ["x"]}, "report": B("report", input=["group.output"]), "all": {"dependencies": ["group", "report"]}})}, [["all"], ["group", "report"], ["--clean", "all"]], "X.output of an aggregate that was already reached through a plain dependency"),
        ("output-of-service-reached-first", {"zinoma.yml": yml({"srv": {"service": "sleep 30"}, "user": B("user", dependencies=["srv"]), "report": B("report", input=["srv.output"]), "all": {"dependencies": ["user", "report"]}})}, [["all"], ["user", "report"]], "X.output of a service that was already reached through a plain dependency"),
        ("broken-in-import", {"zinoma.yml": yml({"a": B("a", dependencies=["lib::l"])}, name="root", imports={"lib": "lib"}), "lib/zinoma.yml": yml({"l": B("l", dependencies=["missing"])}, name="lib")}, [["a"]], "an unknown target referenced from an imported project"),
    ]
    for (n, files, reqs, why) in rej9:
        out.append(C("c09-" + n, rejected(["C09", "C14"], files, reqs, why), why))
    out.append(C("c09-unreachable-cycle-ok", accepted_runs("C09", {"zinoma.yml": yml({"ok": B("ok"), "a": B("a", dependencies=["b"]), "b": B("b", dependencies=["a"])})}, ["ok"], ["ok"], "a cycle that is not reachable from the request does not matter"), "only reachable references matter"))
    wip = {"zinoma.yml": yml({"ok": B("ok", dependencies=["lib::fine"]), "wip1": B("wip1", dependencies=["nope"]), "wip2": B("wip2", dependencies=["ghost::t"]), "wip3": B("wip3", input=["nope.output"]), "svc": {"service": "sleep 30"}, "wip4": B("wip4", input=["svc.output"])}, name="root", imports={"lib": "lib"}), "lib/zinoma.yml": yml({"fine": B("fine"), "broken": B("broken", dependencies=["missing"])}, name="lib")}
    out.append(C("c09-unreachable-broken-refs-ok", accepted_runs("C09", wip, ["ok"], ["ok", "fine"], "broken references in targets that are not reachable from the request (also in an imported project) do not matter"), "only reachable references matter"))
    out.append(C("c09-closure-exact", accepted_runs("C09", {"zinoma.yml": yml({"p": B("p", output=OUT), "c": B("c", input=["p.output"]), "d": B("d", dependencies=["c"]), "u": B("u"), "v": B("v", dependencies=["u"])})}, ["d"], ["p", "c", "d"], "closure through dependencies and X.output"), "exactly the reachable targets run"))
    out.append(C("c09-ref-in-own-project", accepted_runs(["C09", "C19"], {"zinoma.yml": yml({"t": B("root-t"), "top": B("top", dependencies=["lib::entry"])}, name="root", imports={"lib": "lib"}), "lib/zinoma.yml": yml({"entry": B("entry", dependencies=["t"]), "t": B("lib-t")}, name="lib")}, ["top"], ["top", "entry", "lib-t"], "a bare reference in lib's file means lib's own target"), "references resolve in the project of the referencing target"))
    dia = {"zinoma.yml": yml({"gen": B("root-gen"), "top": B("top", dependencies=["lib::a"])}, name="root", imports={"lib": "lib"}), "lib/zinoma.yml": yml({"a": B("a", dependencies=["b", "c"]), "b": B("b", dependencies=["gen"]), "c": B("c", dependencies=["gen"], input=["gen.output"]), "gen": B("lib-gen", output=OUT)}, name="lib")}
    out.append(C("c09-diamond-in-import", accepted_runs(["C09", "C19"], dia, ["top"], ["top", "a", "b", "c", "lib-gen"], "several bare references to gen inside lib all mean lib's gen, although the root has a gen too"), "diamond of bare references in an imported project"))
    dia2 = dict(dia)
    dia2["zinoma.yml"] = yml({"gen": B("root-gen"), "top": B("top", dependencies=["lib::a"])}, imports={"lib": "lib"})
    out.append(C("c09-diamond-in-import-unnamed-root", accepted_runs(["C09", "C19"], dia2, ["top"], ["top", "a", "b", "c", "lib-gen"], "the same with an unnamed root project"), "diamond, unnamed root"))
    out.append(C("c09-output-ref-in-own-project", accepted_runs(["C09", "C19", "C13"], {"zinoma.yml": yml({"gen": B("root-gen", output=OUT), "top": B("top", dependencies=["lib::use"])}, name="root", imports={"lib": "lib"}), "lib/zinoma.yml": yml({"use": B("use", input=["gen.output"]), "gen": B("lib-gen", output=OUT)}, name="lib")}, ["top"], ["top", "use", "lib-gen"], "a bare X.output reference in lib's file means lib's own target"), "X.output resolves in the project of the referencing target"))
    out.append(C("c09-qualified-output-ref", accepted_runs(["C09", "C19", "C13"], {"zinoma.yml": yml({"gen": B("root-gen", output=OUT), "top": B("top", input=["lib::gen.output"])}, name="root", imports={"lib": "lib"}), "lib/zinoma.yml": yml({"gen": B("lib-gen", output=OUT)}, name="lib")}, ["top"], ["top", "lib-gen"], "a qualified X.output reference names the other project's target"), "qualified X.output"))
    # ---- C14: strict validation ------------------------------------------------------------------------
    rej14 = [
        ("unknown-target-key", {"zinoma.yml": "targets:\n  a:\n    build: echo hi >> \"$ZLOG\"\n    colour: blue\n"}, "an unknown key in a target"),
        ("unknown-top-key", {"zinoma.yml": "nmae: x\ntargets:\n  a:\n    build: echo hi >> \"$ZLOG\"\n"}, "an unknown top-level key"),
        ("build-and-service", {"zinoma.yml": "targets:\n  a:\n    build: echo hi >> \"$ZLOG\"\n    service: sleep 1\n"}, "a target that is both build and service"),
        ("unknown-input-key", {"zinoma.yml": "targets:\n  a:\n    input:\n      - paths: [src]\n        extnsions: [c]\n    build: echo hi >> \"$ZLOG\"\n"}, "an unknown key in a resource"),
        ("bad-project-name", {"zinoma.yml": "name: my project\ntargets:\n  a:\n    build: echo hi >> \"$ZLOG\"\n"}, "an invalid project name"),
        ("bad-project-name-colons", {"zinoma.yml": "name: a::b\ntargets:\n  a:\n    build: echo hi >> \"$ZLOG\"\n"}, "a project name containing `::`"),
        ("bad-target-name", {"zinoma.yml": "targets:\n  a b:\n    build: echo hi >> \"$ZLOG\"\n  a:\n    build: echo hi >> \"$ZLOG\"\n"}, "an invalid target name"),
        ("bad-target-name-dot", {"zinoma.yml": "targets:\n  a.output:\n    build: echo hi >> \"$ZLOG\"\n  a:\n    build: echo hi >> \"$ZLOG\"\n"}, "a target name containing a dot"),
        ("import-name-mismatch", {"zinoma.yml": "name: root\nimports:\n  libx: lib\ntargets:\n  a:\n    build: echo hi >> \"$ZLOG\"\n", "lib/zinoma.yml": "name: lib\ntargets:\n  l:\n    build: echo hi >> \"$ZLOG\"\n"}, "an import key that differs from the imported project's name"),
        ("import-no-name", {"zinoma.yml": "name: root\nimports:\n  lib: lib\ntargets:\n  a:\n    build: echo hi >> \"$ZLOG\"\n", "lib/zinoma.yml": "targets:\n  l:\n    build: echo hi >> \"$ZLOG\"\n"}, "an imported project without a name"),
        ("import-mismatch-second-edge", {"zinoma.yml": "name: root\nimports:\n  lib: lib\n  mid: mid\ntargets:\n  a:\n    build: echo hi >> \"$ZLOG\"\n", "lib/zinoma.yml": "name: lib\ntargets:\n  l:\n    build: echo hi >> \"$ZLOG\"\n", "mid/zinoma.yml": "name: mid\nimports:\n  other: ../lib\ntargets:\n  m:\n    build: echo hi >> \"$ZLOG\"\n"}, "a second import edge reaching an already loaded project under a wrong key"),
        ("duplicate-project-names", {"zinoma.yml": "name: root\nimports:\n  x: d1\ntargets:\n  a:\n    build: echo hi >> \"$ZLOG\"\n", "d1/zinoma.yml": "name: x\nimports:\n  x: ../d2\ntargets:\n  t:\n    build: echo d1 >> \"$ZLOG\"\n", "d2/zinoma.yml": "name: x\ntargets:\n  t:\n    build: echo d2 >> \"$ZLOG\"\n"}, "two loaded projects with the same name"),
        ("root-name-duplicated-by-import", {"zinoma.yml": "name: x\nimports:\n  x: d1\ntargets:\n  a:\n    build: echo hi >> \"$ZLOG\"\n", "d1/zinoma.yml": "name: x\ntargets:\n  t:\n    build: echo d1 >> \"$ZLOG\"\n"}, "an imported project carrying the root project's name"),
        ("aggregate-with-input", {"zinoma.yml": "targets:\n  dep:\n    build: echo hi >> \"$ZLOG\"\n  a:\n    dependencies: [dep]\n    input:\n      - paths: [src]\n"}, "a target with dependencies and input but neither build nor service"),
        ("aggregate-with-output", {"zinoma.yml": "targets:\n  dep:\n    build: echo hi >> \"$ZLOG\"\n  a:\n    dependencies: [dep]\n    output:\n      - paths: [out]\n"}, "a target with dependencies and output but neither build nor service"),
        ("service-with-output", {"zinoma.yml": "targets:\n  a:\n    service: sleep 1\n    output:\n      - paths: [out]\n"}, "a service declaring outputs"),
        ("build-not-a-string", {"zinoma.yml": "targets:\n  a:\n    build: [1, 2]\n"}, "a build script that is not a string"),
        ("dependencies-not-a-list", {"zinoma.yml": "targets:\n  a:\n    dependencies: dep\n    build: echo hi >> \"$ZLOG\"\n  dep:\n    build: echo hi >> \"$ZLOG\"\n"}, "dependencies that are not a list"),
        ("root-name-duplicated-transitively", {"zinoma.yml": "name: app\nimports:\n  tools: tools\ntargets:\n  a:\n    build: echo hi >> \"$ZLOG\"\n", "tools/zinoma.yml": "name: tools\nimports:\n  app: ../vendor/app\ntargets:\n  gen:\n    build: echo tools >> \"$ZLOG\"\n", "vendor/app/zinoma.yml": "name: app\ntargets:\n  a:\n    build: echo vendored >> \"$ZLOG\"\n"}, "a transitively imported project carrying the root project's name (duplicate)"),
        ("same-import-key-two-projects", {"zinoma.yml": "name: root\nimports:\n  a: a\n  b: b\ntargets:\n  a:\n    build: echo hi >> \"$ZLOG\"\n", "a/zinoma.yml": "name: a\ntargets:\n  hello:\n    build: echo a >> \"$ZLOG\"\n", "b/zinoma.yml": "name: b\nimports:\n  a: ../other_a\ntargets:\n  t:\n    build: echo b >> \"$ZLOG\"\n", "other_a/zinoma.yml": "name: a\ntargets:\n  hello:\n    build: echo other >> \"$ZLOG\"\n"}, "two different projects imported under the same key `a` by different importers (duplicate name)"),
        ("import-of-missing-dir-second-importer", {"zinoma.yml": "name: root\nimports:\n  a: a\n  b: b\ntargets:\n  a:\n    build: echo hi >> \"$ZLOG\"\n", "a/zinoma.yml": "name: a\ntargets:\n  hello:\n    build: echo a >> \"$ZLOG\"\n", "b/zinoma.yml": "name: b\nimports:\n  a: ../nowhere\ntargets:\n  t:\n    build: echo b >> \"$ZLOG\"\n"}, "an import of a missing directory under a key another importer uses validly"),
        ("not-yaml", {"zinoma.yml": "targets: [\n"}, "a file that is not YAML"),
        ("targets-not-map", {"zinoma.yml": "targets: 3\n"}, "targets of the wrong type"),
        ("empty-file", {"zinoma.yml": ""}, "an empty file"),
    ]
    # odd spellings of references: whatever the verdict, it is the same every time and never a panic
    for (n, ref) in (("empty-project", "::a"), ("empty-target", "root::"), ("three-parts", "a::b::c"), ("empty", ""), ("colons-only", "::::"), ("dot-output-only", ".output"), ("space", "a b")):
        for named in (True, False):
            doc = ("name: root\n" if named else "") + "targets:\n  a:\n    build: echo hi >> \"$ZLOG\"\n  t:\n    dependencies: [\"%s\"]\n    build: echo hi >> \"$ZLOG\"\n" % ref
            out.append(C("c14-odd-ref-%s-%s" % (n, "named" if named else "unnamed"), no_panic("C14", {"zinoma.yml": doc}, [["t"], ["--clean"]], "a dependency spelled %r" % ref), "odd reference spelling %r" % ref))
    for (n, files, why) in rej14:
        out.append(C("c14-" + n, rejected(["C14", "C09", "C19"] if "duplicate" in n or "duplicated" in n else "C14", files, [["a"], ["--clean"]], why), why))
    # the same defects in a project imported from outside the root project's tree (sibling directory)
    ok_app = "name: app\nimports:\n  lib: ../lib\ntargets:\n  a:\n    dependencies: [lib::l]\n    build: echo hi >> \"$ZLOG\"\n"
    for (n, libyml, why) in (("unknown-key", "name: lib\ntargets:\n  l:\n    build: echo l >> \"$ZLOG\"\n    colour: blue\n", "an unknown key"), ("two-kinds", "name: lib\ntargets:\n  l:\n    build: echo l >> \"$ZLOG\"\n    service: sleep 1\n", "a target that is both build and service"), ("bad-target-name", "name: lib\ntargets:\n  l:\n    build: echo l >> \"$ZLOG\"\n  b d:\n    build: echo l >> \"$ZLOG\"\n", "an invalid target name"), ("bad-project-name", "name: li b\ntargets:\n  l:\n    build: echo l >> \"$ZLOG\"\n", "an invalid project name"), ("not-yaml", "targets: [\n", "a file that is not YAML"), ("missing-file", None, "a missing zinoma.yml")):
        files = {"app/zinoma.yml": ok_app}
        if libyml is not None:
            files["lib/zinoma.yml"] = libyml
        else:
            files["lib/readme"] = "no project file here"
        out.append(C("c14-sibling-import-" + n, rejected_in("C14", files, "app", [["a"], ["--clean"]], "%s in a project imported from a sibling directory" % why), why))
    cyc = {"zinoma.yml": yml({"a": B("a", dependencies=["sub::s"])}, name="root", imports={"sub": "sub"}), "sub/zinoma.yml": yml({"s": B("s", dependencies=["root::leaf"])}, name="sub", imports={"root": ".."})}
    cyc["zinoma.yml"] = yml({"a": B("a", dependencies=["sub::s"]), "leaf": B("leaf")}, name="root", imports={"sub": "sub"})
    out.append(C("c14-import-cycle-ok", accepted_runs(["C14", "C09"], cyc, ["a"], ["a", "s", "leaf"], "projects importing each other are loaded once each"), "import cycle is not an error and never a crash"))
    out.append(C("c14-import-cycle-from-sub", accepted_runs(["C14", "C09"], cyc, ["s"], ["s", "leaf"], "the same configuration entered from the sub-project", cwd="sub"), "import cycle from the other end"))
    out.append(C("c14-self-import", accepted_runs("C14", {"zinoma.yml": yml({"a": B("a", dependencies=["me::b"]), "b": B("b")}, name="me", imports={"me": "."})}, ["a"], ["a", "b"], "a project importing itself under its own name"), "self import"))
    # ---- C19: names -----------------------------------------------------------------------------------
    two = {"zinoma.yml": yml({"t": B("root-t"), "only_root": B("only_root")}, name="root", imports={"lib": "lib"}), "lib/zinoma.yml": yml({"t": B("lib-t", dependencies=["helper"]), "helper": B("lib-helper")}, name="lib")}
    out.append(C("c19-bare", accepted_runs("C19", two, ["t"], ["root-t"], "a bare name means the root project's target"), "bare root name"))
    out.append(C("c19-qualified-root", accepted_runs("C19", two, ["root::t"], ["root-t"], "root targets can be requested qualified"), "qualified root name"))
    out.append(C("c19-both-spellings-once", accepted_runs("C19", two, ["t", "root::t"], ["root-t"], "both spellings denote the same target: it runs once"), "both spellings"))
    out.append(C("c19-imported", accepted_runs("C19", two, ["lib::t"], ["lib-t", "lib-helper"], "lib::t is lib's target and its bare dependency is lib's"), "imported qualified name"))
    out.append(C("c19-same-name-two-projects", accepted_runs("C19", two, ["lib::t", "root::t"], ["lib-t", "lib-helper", "root-t"], "equal target names in different projects are different targets: both run"), "same name in two projects"))
    out.append(C("c19-same-name-two-projects-bare", accepted_runs("C19", two, ["t", "lib::t"], ["lib-t", "lib-helper", "root-t"], "equal target names in different projects are different targets: both run"), "same name, bare + qualified"))
    three = {"zinoma.yml": yml({"all": {"dependencies": ["liba::build", "libb::build"]}}, name="root", imports={"liba": "liba", "libb": "libb"}), "liba/zinoma.yml": yml({"build": B("a-build")}, name="liba"), "libb/zinoma.yml": yml({"build": B("b-build")}, name="libb")}
    out.append(C("c19-two-imports-same-target-name", accepted_runs("C19", three, ["liba::build", "libb::build"], ["a-build", "b-build"], "liba::build and libb::build are different targets"), "two imports with equal target names"))
    out.append(C("c19-unnamed-root-bare", accepted_runs("C19", {"zinoma.yml": yml({"t": B("t")})}, ["t"], ["t"], "an unnamed root project works with bare names"), "unnamed root"))
    chain = {"zinoma.yml": yml({"top": B("top", dependencies=["app::mid"])}, name="root", imports={"app": "app"}), "app/zinoma.yml": yml({"mid": B("mid", dependencies=["lib::low"])}, name="app", imports={"lib": "../vendor/lib"}), "vendor/lib/zinoma.yml": yml({"low": B("low"), "extra": B("extra")}, name="lib")}
    out.append(C("c19-transitive-import-qualified", accepted_runs("C19", chain, ["lib::extra"], ["extra"], "a target of a project that is only imported by an imported project can be requested as project::target"), "every target of every loaded project can be requested"))
    out.append(C("c19-transitive-import-all", accepted_runs("C19", chain, ["top", "lib::low", "app::mid"], ["top", "mid", "low"], "qualified names of three loaded projects in one request"), "names across an import chain"))
    same = {"zinoma.yml": yml({"build": B("root-build"), "test": B("root-test", dependencies=["build"])}, name="app", imports={"lib": "lib"}), "lib/zinoma.yml": yml({"build": B("lib-build", output=OUT), "test": B("lib-test", dependencies=["build"], input=["build.output"])}, name="lib")}
    out.append(C("c19-same-spelling-two-projects", accepted_runs(["C19", "C09"], same, ["test", "lib::test"], ["root-build", "root-test", "lib-build", "lib-test"], "the bare reference `build` is written in the root and in lib: each means its own project's target"), "same bare spelling in two projects of one run"))
    same2 = dict(same)
    same2["zinoma.yml"] = yml({"build": B("root-build"), "test": B("root-test", dependencies=["build"])}, imports={"lib": "lib"})
    out.append(C("c19-same-spelling-two-projects-unnamed-root", accepted_runs(["C19", "C09"], same2, ["lib::test", "test"], ["root-build", "root-test", "lib-build", "lib-test"], "the same with an unnamed root, the imported project requested first"), "same bare spelling, unnamed root"))
    nest = {"zinoma.yml": yml({"check": {"dependencies": ["api::check"]}, "test": B("root-test"), "lint": B("root-lint")}, name="root", imports={"api": "api"}), "api/zinoma.yml": yml({"check": {"dependencies": ["test", "lint"]}, "test": B("api-test"), "lint": B("api-lint")}, name="api")}
    out.append(C("c20-nested-aggregate-across-projects", accepted_runs(["C20", "C19", "C09"], nest, ["check"], ["api-test", "api-lint"], "root aggregate of an imported aggregate whose dependencies are spelled bare: they are api's targets"), "aggregate of an aggregate across projects"))
    clash = {"zinoma.yml": yml({"gen": B("gen"), "api": B("root-api", dependencies=["gen", "api::build"])}, name="app", imports={"api": "api"}), "api/zinoma.yml": yml({"build": B("api-build"), "deploy": B("api-deploy")}, name="api")}
    out.append(C("c19-target-named-like-project", accepted_runs("C19", clash, ["api"], ["root-api", "gen", "api-build"], "the bare name `api` means the root target api (a loaded project happens to be called api too)"), "a root target named like an imported project"))
    out.append(C("c19-target-named-like-project-both", accepted_runs("C19", clash, ["api", "app::api"], ["root-api", "gen", "api-build"], "`api` and `app::api` are the same target"), "both spellings of it"))
    samename = {"zinoma.yml": yml({"build": B("root-build", dependencies=["lib::build"]), "test": B("root-test", input=["lib::build.output"])}, imports={"lib": "lib"}), "lib/zinoma.yml": yml({"build": B("lib-build", output=OUT)}, name="lib")}
    out.append(C("c19-unnamed-root-depends-on-same-name", accepted_runs("C19", samename, ["build"], ["root-build", "lib-build"], "an unnamed root's `build` depends on lib::build: two different targets"), "unnamed root, same target name in the import"))
    out.append(C("c19-unnamed-root-output-of-same-name", accepted_runs("C19", samename, ["test"], ["root-test", "lib-build"], "an unnamed root's target takes lib::build.output"), "unnamed root, X.output of a same-named imported target"))
    out.append(C("c19-from-own-dir", accepted_runs("C19", two, ["t"], ["lib-t", "lib-helper"], "from lib's own directory the bare name is lib's target", cwd="lib"), "imported project as root"))
    # one target referencing equally named targets of different projects (the README's `test_all: [api::test, webapp::test]`)
    out.append(C("c09-same-name-deps-of-aggregate", accepted_runs(["C09", "C19", "C20"], three, ["all"], ["a-build", "b-build"], "an aggregate over liba::build and libb::build runs both"), "one aggregate over two same-named targets"))
    fan = {"zinoma.yml": yml({"all": B("all", dependencies=["liba::build", "libb::build", "build"], input=["libb::gen.output", "liba::gen.output"]), "build": B("root-build")}, name="root", imports={"liba": "liba", "libb": "libb"}), "liba/zinoma.yml": yml({"build": B("a-build"), "gen": B("a-gen", output=OUT)}, name="liba"), "libb/zinoma.yml": yml({"build": B("b-build"), "gen": B("b-gen", output=OUT)}, name="libb")}
    out.append(C("c09-same-name-deps-of-build", accepted_runs(["C09", "C19"], fan, ["all"], ["all", "a-build", "b-build", "root-build", "a-gen", "b-gen"], "a build target depending on three targets called build and taking the output of two targets called gen"), "same-named references of one build target"))
    for (n, extra, why) in (("unknown", "docs::build", "the second of two same-named references names an unknown project"), ("unknown-target", "libb::nope", "a reference after a same-named pair names an unknown target")):
        bad = dict(three)
        bad["zinoma.yml"] = yml({"a": {"dependencies": ["liba::build", extra, "libb::build"]}}, name="root", imports={"liba": "liba", "libb": "libb"})
        out.append(C("c09-same-name-then-" + n, rejected(["C09", "C14"], bad, [["a"], ["--clean", "a"]], why), why))
    cyc2 = {"zinoma.yml": yml({"a": B("a", dependencies=["liba::step", "libb::step"])}, name="root", imports={"liba": "liba", "libb": "libb"}), "liba/zinoma.yml": yml({"step": B("a-step")}, name="liba"), "libb/zinoma.yml": yml({"step": B("b-step", dependencies=["root::a"])}, name="libb", imports={"root": ".."})}
    out.append(C("c09-cycle-through-second-same-name", rejected(["C09", "C14"], cyc2, [["a"], ["libb::step"]], "a cycle closed through the second of two same-named references"), "cycle behind a same-named reference"))
    # names that differ only by letter case are different names
    case = {"zinoma.yml": yml({"release": B("root-release"), "Release": B("root-Release"), "RELEASE": B("root-RELEASE", dependencies=["lib::Build"])}, name="app", imports={"lib": "lib"}), "lib/zinoma.yml": yml({"build": B("lib-build"), "Build": B("lib-Build"), "all": {"dependencies": ["build", "Build"]}}, name="lib")}
    for (n, args, exp) in (("lower", ["release"], ["root-release"]), ("capital", ["Release"], ["root-Release"]), ("qualified-capital", ["app::Release"], ["root-Release"]), ("upper", ["RELEASE"], ["root-RELEASE", "lib-Build"]), ("both", ["release", "Release"], ["root-release", "root-Release"]), ("imported-lower", ["lib::build"], ["lib-build"]), ("imported-capital", ["lib::Build"], ["lib-Build"]), ("imported-both", ["lib::Build", "lib::build"], ["lib-build", "lib-Build"]), ("imported-aggregate", ["lib::all"], ["lib-build", "lib-Build"])):
        out.append(C("c19-letter-case-" + n, accepted_runs(["C19", "C09"], case, args, exp, "target names differing only by letter case are different targets; the request means exactly the spelling given"), "letter case of names: " + n))
    out.append(C("c19-letter-case-unknown", rejected(["C19", "C09", "C14"], {"zinoma.yml": yml({"release": B("release"), "a": B("a")}, name="app")}, [["Release"], ["APP::release"], ["app::RELEASE"]], "a request spelled in another letter case names no target"), "a differently cased spelling is an unknown target"))
    # malformed documents with multi-byte text before the defect
    for (i, head) in enumerate(("# \u8a2d\u5b9a\n", "# \u00e9\n", "# \U0001f980 x\n", "# \u8a2d\u5b9a\u30d5\u30a1\u30a4\u30eb abc\n", "")):
        for (n, body) in (("unknown-key", "targets:\n  a:\n    build: echo hi\n    colo\u00fbr: bl\u00e5\n"), ("service-type", "targets:\n  \u00e4:\n    service: [1]\n"), ("truncated", "targets:\n  a:\n    dependencies: [b, \u00e7\n"), ("bad-name", "name: \u043f\u0440\u043e\u0435\u043a\u0442\ntargets:\n  a:\n    build: echo hi\n"), ("tab", "targets:\n\t\u00e9: 1\n")):
            out.append(C("c14-multibyte-%d-%s" % (i, n), no_panic("C14", {"zinoma.yml": head + body}, [["a"], ["--clean"]], "a malformed document containing multi-byte characters"), "malformed document with non-ASCII text"))
    return out
