} // verus!
// `Result::unwrap` needs `E: Debug` to type-check
impl std::fmt::Debug for Error {
    fn fmt(&self, _f: &mut std::fmt::Formatter<'_>) -> std::fmt::Result { Ok(()) }
}
fn main() {}
