} // verus!
fn main() {}
