// ---- assumed std contracts not shipped with vstd (A-std) ----
/// `kk` is the key that `k` denotes through `Borrow` (for Q = K: equality)
pub uninterp spec fn key_borrows_as<K, Q: ?Sized>(kk: K, k: &Q) -> bool;
pub broadcast axiom fn axiom_key_borrows_self<K>(kk: K, k: &K)
    ensures #[trigger] key_borrows_as::<K, K>(kk, k) == (kk == *k);

/// `HashMap::get_mut`: a mutable borrow of the value stored under `k`; every other entry is untouched
pub assume_specification<'a, K, V, S, A, Q> [std::collections::HashMap::<K, V, S, A>::get_mut]
    (m: &'a mut std::collections::HashMap<K, V, S, A>, k: &Q) -> (r: std::option::Option<&'a mut V>)
    where
        A: std::alloc::Allocator,
        K: std::cmp::Eq + std::hash::Hash + std::borrow::Borrow<Q>,
        Q: std::marker::MetaSized + std::hash::Hash + std::cmp::Eq + ?Sized,
        S: std::hash::BuildHasher
    ensures
        obeys_key_model::<K>() && builds_valid_hashers::<S>() ==> match r {
            Some(v) => contains_borrowed_key(old(m)@, k) && maps_borrowed_key_to_value(old(m)@, k, *v)
                && final(m)@.dom() == old(m)@.dom()
                && maps_borrowed_key_to_value(final(m)@, k, *final(v))
                && (forall|kk: K| #![trigger final(m)@[kk]] #![trigger old(m)@[kk]] old(m)@.contains_key(kk) && !key_borrows_as(kk, k) ==> final(m)@[kk] == old(m)@[kk]),
            None => !contains_borrowed_key(old(m)@, k) && final(m)@ == old(m)@,
        };

/// `HashSet::clone` has the same elements (A-std; vstd ships no spec for it)
pub assume_specification<T: Clone, S: Clone, A: std::alloc::Allocator + Clone> [<HashSet<T, S, A> as Clone>::clone] (x: &HashSet<T, S, A>) -> (r: HashSet<T, S, A>)
    ensures r@ == x@;

// ---- opaque third-party types shared by the units (R11) ----
/// anyhow::Error — its text is not part of any contract
#[verifier::external_body]
pub struct Error { _p: () }
pub type Result<T> = std::result::Result<T, Error>;

/// `anyhow!(..)` with its text dropped (R12)
#[verifier::external_body]
pub fn anyhow_error() -> Error { unimplemented!() }

/// `X.with_context(..)` / `X.context(..)` on a Result with the text dropped (R12): Ok stays Ok with the same value, Err stays Err
#[verifier::external_body]
pub fn ctx<T, E>(r: std::result::Result<T, E>) -> (o: Result<T>)
    ensures r is Ok ==> o is Ok && o->Ok_0 == r->Ok_0,
            r is Err ==> o is Err,
{ unimplemented!() }

/// `e.context(..)` on an Error (R12)
#[verifier::external_body]
pub fn ctx_e(e: Error) -> Error { unimplemented!() }

/// `opt.ok_or_else(|| anyhow!(..))` with the text dropped (R12)
#[verifier::external_body]
pub fn ok_or_err<T>(o: Option<T>) -> (r: Result<T>)
    ensures o is Some ==> r is Ok && r->Ok_0 == o->Some_0,
            o is None ==> r is Err,
{ unimplemented!() }

/// async_std::path::PathBuf
#[verifier::external_body]
pub struct PathBuf { _p: () }
impl Clone for PathBuf {
    #[verifier::external_body]
    fn clone(&self) -> (r: PathBuf)
        ensures r == *self,
    { unimplemented!() }
}
