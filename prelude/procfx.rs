// ---- effects of async_process on the ghost process table (A-proc); the including unit's `Trace`
// must have the fields spawn_calls, spawned, killed, waited ----
/// `run_script::build_command(script, dir)` (A-proc)
#[verifier::external_body]
pub fn build_command(script: &String, dir: &PathBuf) -> (r: Command)
    ensures r.script() == *script, r.dir() == *dir,
{ unimplemented!() }

impl Command {
    pub uninterp spec fn script(&self) -> String;
    pub uninterp spec fn dir(&self) -> PathBuf;
    #[verifier::external_body]
    pub fn stdout(&mut self, s: Stdio) -> (r: CmdChain)
        ensures final(self).script() == old(self).script(), final(self).dir() == old(self).dir(),
    { unimplemented!() }
    /// either fails, or adds exactly one new live child (A-proc)
    #[verifier::external_body]
    pub fn spawn(&mut self, Tracked(tr): Tracked<&mut Trace>) -> (r: std::result::Result<Child, IoError>)
        ensures
            r matches Ok(c) ==> !old(tr).spawned.contains(c.id()) && !old(tr).waited.contains(c.id())
                && *final(tr) == (Trace { spawn_calls: old(tr).spawn_calls + 1, spawned: old(tr).spawned.insert(c.id()), ..*old(tr) }),
            r is Err ==> *final(tr) == (Trace { spawn_calls: old(tr).spawn_calls + 1, ..*old(tr) }),
    { unimplemented!() }
}
impl Child {
    #[verifier::external_body]
    pub fn kill(&mut self, Tracked(tr): Tracked<&mut Trace>) -> (r: std::result::Result<(), IoError>)
        ensures final(self).id() == old(self).id(),
            *final(tr) == (Trace { killed: old(tr).killed.insert(old(self).id()), ..*old(tr) }),
    { unimplemented!() }
    /// `status().await`: the child has been waited for (reaped when Ok)
    #[verifier::external_body]
    pub fn status(&mut self, Tracked(tr): Tracked<&mut Trace>) -> (r: std::result::Result<ExitStatus, IoError>)
        ensures final(self).id() == old(self).id(),
            *final(tr) == (Trace { waited: old(tr).waited.insert(old(self).id()), ..*old(tr) }),
    { unimplemented!() }
}

