#[cfg(kani)]
mod harnesses {
    use super::*;
    use std::ffi::OsStr;
    use std::os::unix::ffi::OsStrExt;

    fn ascii_byte(choices: &[u8]) -> u8 {
        let i: usize = kani::any();
        kani::assume(i < choices.len());
        choices[i]
    }

    /// [C16.total] is_tmp_editor_file never panics, for every file name of up to 3 arbitrary bytes
    /// (including bytes that are not valid UTF-8)
    #[kani::proof]
    #[kani::unwind(12)]
    fn tmp_file_total_3_bytes() {
        let bytes: [u8; 3] = kani::any();
        let len: usize = kani::any();
        kani::assume(len <= 3);
        let p = Path::new(OsStr::from_bytes(&bytes[..len]));
        let _ = is_tmp_editor_file(p);
    }

    /// [C16.tmp] on ASCII names of 4 or 5 characters over {'.','~','s','w','p','x'} the result is
    /// `*~` or (`.*` and (`*.swp` or `*.swx`))
    #[kani::proof]
    #[kani::unwind(12)]
    fn tmp_file_spec_ascii() {
        let mut bytes = [0u8; 5];
        let len: usize = kani::any();
        kani::assume(4 <= len && len <= 5);
        for i in 0..5 {
            bytes[i] = ascii_byte(b".~swpx");
        }
        let name = &bytes[..len];
        let p = Path::new(OsStr::from_bytes(name));
        let got = is_tmp_editor_file(p);
        let ends = |s: &[u8]| name.len() >= s.len() && &name[name.len() - s.len()..] == s;
        let want = ends(b"~") || (name[0] == b'.' && (ends(b".swp") || ends(b".swx")));
        assert!(got == want);
    }

    /// [C15.ext-match] matches_extensions: None matches everything; otherwise the (lossy) file name must
    /// end with one of the extensions.  Names of up to 4 arbitrary bytes never panic; on ASCII names the
    /// result is the suffix test.
    #[kani::proof]
    #[kani::unwind(12)]
    fn matches_extensions_total() {
        let bytes: [u8; 3] = kani::any();
        let len: usize = kani::any();
        kani::assume(len <= 3);
        let p = Path::new(OsStr::from_bytes(&bytes[..len]));
        let mut set = BTreeSet::new();
        set.insert(".a".to_string());
        let _ = matches_extensions(p, &Some(set));
        assert!(matches_extensions(p, &None));
    }

    #[kani::proof]
    #[kani::unwind(12)]
    fn matches_extensions_spec_ascii() {
        let mut bytes = [0u8; 4];
        let len: usize = kani::any();
        kani::assume(1 <= len && len <= 4);
        for i in 0..4 {
            bytes[i] = ascii_byte(b".ab");
        }
        let name = &bytes[..len];
        kani::assume(name != b"." && name != b".." );
        let p = Path::new(OsStr::from_bytes(name));
        let mut set = BTreeSet::new();
        set.insert(".a".to_string());
        set.insert(".ab".to_string());
        let got = matches_extensions(p, &Some(set));
        let ends = |s: &[u8]| name.len() >= s.len() && &name[name.len() - s.len()..] == s;
        assert!(got == (ends(b".a") || ends(b".ab")));
    }

    /// [C15.ext-normalise] transform_extensions: a missing leading dot is added, empty entries are
    /// ignored, an empty list means no filter (up to 2 entries of up to 2 characters over {'.','a'})
    #[kani::proof]
    #[kani::unwind(8)]
    fn transform_extensions_spec() {
        let n: usize = kani::any();
        kani::assume(n <= 2);
        let mut v: Vec<String> = Vec::new();
        let mut want: BTreeSet<String> = BTreeSet::new();
        for _ in 0..n {
            let l: usize = kani::any();
            kani::assume(l <= 2);
            let mut s = String::new();
            for _ in 0..l {
                s.push(ascii_byte(b".a") as char);
            }
            if !s.is_empty() {
                if s.starts_with('.') { want.insert(s.clone()); } else { let mut d = String::from("."); d.push_str(&s); want.insert(d); }
            }
            v.push(s);
        }
        let got = transform_extensions(Some(v));
        if want.is_empty() { assert!(got.is_none()); } else { assert!(got == Some(want)); }
        assert!(transform_extensions(None).is_none());
    }

    /// [C15.workdir] is_in_work_dir: true iff some component is exactly `.zinoma` (paths of up to 3
    /// components drawn from {".zinoma", ".zinomb", "x", ".."}; absolute or relative)
    #[kani::proof]
    #[kani::unwind(8)]
    fn is_in_work_dir_spec() {
        let comps = [".zinoma", ".zinomb", "x", ".."];
        let n: usize = kani::any();
        kani::assume(1 <= n && n <= 3);
        let abs: bool = kani::any();
        let mut s = String::new();
        if abs { s.push('/'); }
        let mut want = false;
        for i in 0..n {
            let c: usize = kani::any();
            kani::assume(c < comps.len());
            if i > 0 { s.push('/'); }
            s.push_str(comps[c]);
            if c == 0 { want = true; }
        }
        assert!(is_in_work_dir(Path::new(&s)) == want);
    }

    /// [C19.parse] TargetId::try_parse on names of up to 5 characters over {'a', ':'}: no `::` -> the
    /// current project; exactly one -> the named project; more -> Err.  Never panics.
    #[kani::proof]
    #[kani::unwind(10)]
    fn try_parse_spec() {
        let mut bytes = [0u8; 5];
        let len: usize = kani::any();
        kani::assume(len <= 5);
        for i in 0..5 {
            bytes[i] = ascii_byte(b"a:");
        }
        let s = std::str::from_utf8(&bytes[..len]).unwrap();
        let cur: Option<String> = if kani::any() { Some("p".to_string()) } else { None };
        // independent count of non-overlapping "::" (left to right)
        let mut i = 0;
        let mut seps = 0;
        while i + 1 < len {
            if bytes[i] == b':' && bytes[i + 1] == b':' { seps += 1; i += 2; } else { i += 1; }
        }
        match TargetId::try_parse(s, &cur) {
            Ok(id) => {
                assert!(seps <= 1);
                if seps == 0 { assert!(id.project_name == cur && id.target_name == s); } else { assert!(id.project_name.is_some()); }
            }
            Err(_) => assert!(seps >= 2),
        }
    }
}
