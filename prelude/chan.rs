// ---- async_std::channel (A-chan): opaque endpoints; effects are given per unit on concrete message types ----
#[verifier::external_body]
#[verifier::reject_recursive_types(T)]
pub struct Sender<T> { _p: std::marker::PhantomData<T> }
#[verifier::external_body]
#[verifier::reject_recursive_types(T)]
pub struct Receiver<T> { _p: std::marker::PhantomData<T> }
#[verifier::external_body]
pub struct SendError { _p: () }

impl<T> Sender<T> {
    /// identity of the underlying channel
    pub uninterp spec fn chan(&self) -> int;
    /// created by `channel::bounded` (a `send` on it may block) rather than `channel::unbounded`
    pub uninterp spec fn bounded(&self) -> bool;
}
impl<T> Receiver<T> {
    pub uninterp spec fn chan(&self) -> int;
}

/// `channel::bounded(cap)`
#[verifier::external_body]
pub fn bounded<T>(cap: usize) -> (r: (Sender<T>, Receiver<T>))
    ensures r.0.chan() == r.1.chan(), r.0.bounded(),
{ unimplemented!() }

/// `channel::unbounded()`
#[verifier::external_body]
pub fn unbounded<T>() -> (r: (Sender<T>, Receiver<T>))
    ensures r.0.chan() == r.1.chan(), !r.0.bounded(),
{ unimplemented!() }
