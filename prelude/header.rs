#![feature(allocator_api)]
#![feature(pattern)]
#![allow(unused)]
#![allow(dead_code)]
use vstd::prelude::*;
use vstd::std_specs::hash::*;
use std::collections::{HashMap, HashSet};
verus! {
