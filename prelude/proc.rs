// ---- async_process (A-proc) ----
#[verifier::external_body]
pub struct Command { _p: () }
#[verifier::external_body]
pub struct CmdChain { _p: () }
#[verifier::external_body]
pub struct Child { _p: () }
#[verifier::external_body]
pub struct Stdio { _p: () }
#[verifier::external_body]
pub struct IoError { _p: () }
#[verifier::external_body]
pub struct ExitStatus { _p: () }

impl Stdio {
    #[verifier::external_body]
    pub fn inherit() -> Stdio { unimplemented!() }
}
impl CmdChain {
    #[verifier::external_body]
    pub fn stderr(self, s: Stdio) { unimplemented!() }
}
impl Child {
    pub uninterp spec fn id(&self) -> int;
}
impl ExitStatus {
    pub uninterp spec fn ok(&self) -> bool;
    #[verifier::external_body]
    pub fn success(&self) -> (r: bool)
        ensures r == self.ok(),
    { unimplemented!() }
    /// `code()`: Some(0) exactly for success; None when the process was terminated by a signal
    #[verifier::external_body]
    pub fn code(&self) -> (r: Option<i32>)
        ensures r matches Some(c) ==> (c == 0) == self.ok(), r is None ==> !self.ok(),
    { unimplemented!() }
}
