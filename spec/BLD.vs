//@unit BLD
//@ghost tr Trace seeds=spawn,kill,status
//@dropderive Debug,Serialize,Deserialize,Clone,Copy
//@include header.rs
//@include std_ext.rs
//@include chan.rs
//@include proc.rs

// ===========================================================================
// domain types (verbatim from /repo)
// ===========================================================================
//@item src/domain.rs TargetId
//@item src/domain.rs TargetMetadata
//@item src/domain.rs BuildTarget
//@item src/engine/builder.rs BuildTerminationReport
//@item src/engine/builder.rs BuildCancellationMessage

/// domain::Resources is opaque in this unit
#[verifier::external_body]
pub struct Resources { _p: () }

/// std::time::Instant (only used for a log line)
#[verifier::external_body]
pub struct Instant { _p: () }
#[verifier::external_body]
pub struct Duration { _p: () }
impl Instant {
    #[verifier::external_body]
    pub fn now() -> Instant { unimplemented!() }
    #[verifier::external_body]
    pub fn elapsed(&self) -> Duration { unimplemented!() }
}

// ===========================================================================
// ghost state
// ===========================================================================
pub tracked struct Trace {
    // process table (A-proc)
    pub ghost spawn_calls: nat,
    pub ghost spawned: Set<int>,
    pub ghost killed: Set<int>,
    pub ghost waited: Set<int>,
    /// the script and directory of the last command spawned
    /// a cancellation message was delivered
    pub ghost cancel_seen: bool,
    /// the exit status the script's shell returned, once it has been awaited
    pub ghost exit_ok: Option<bool>,
}

//@include procfx.rs

pub enum EvB {
    Cancel(Option<BuildCancellationMessage>),
    Exited(Result<ExitStatus>),
}

/// one firing of `build_target`'s `select!` (R3): either a cancellation message arrives, or the
/// `status()` future of the child completes — then the child has been waited for (A-proc) and, when
/// Ok, `exit_ok` records what the script's shell returned.
#[verifier::external_body]
pub fn select_bld(child: &mut Child, cancel: &Receiver<BuildCancellationMessage>, Tracked(tr): Tracked<&mut Trace>) -> (e: EvB)
    ensures
        final(child).id() == old(child).id(),
        e is Cancel ==> *final(tr) == (Trace { cancel_seen: true, ..*old(tr) }),
        e matches EvB::Exited(r) ==> *final(tr) == (Trace {
            waited: old(tr).waited.insert(old(child).id()),
            exit_ok: match r { Ok(st) => Some(st.ok()), Err(_) => old(tr).exit_ok },
            ..*old(tr) }),
{ unimplemented!() }

//@fn src/engine/builder.rs build_target ret=r
//@replace `mut build_cancellation_events: Receiver<BuildCancellationMessage>` => `build_cancellation_events: Receiver<BuildCancellationMessage>` rule=R15 why=`the receiver is only polled inside the select! (R3), so the binding needs no mut`
//@contract
    requires
        old(tr).exit_ok is None, !old(tr).cancel_seen,
    ensures
        /*[C05.fail-is-err,C07.fail-is-err,C01.ok-genuine]*/ r matches Ok(BuildTerminationReport::Completed) ==> final(tr).exit_ok == Some(true),
        /*[C05.fail-is-err,C07.fail-is-err,C01.ok-genuine]*/ final(tr).exit_ok == Some(false) ==> r is Err,
        /*[C05.fail-is-err,C10.cancel-on-term,C01.ok-genuine]*/ r matches Ok(BuildTerminationReport::Cancelled) ==> final(tr).cancel_seen,
        /*[C05.fail-is-err,C01.ok-genuine]*/ r matches Ok(BuildTerminationReport::Completed) ==> !final(tr).cancel_seen,
        /*[C07.fail-is-err,C01.ok-genuine]*/ final(tr).spawned == old(tr).spawned ==> r is Err,
        /*[C08.single-inflight]*/ final(tr).spawn_calls == old(tr).spawn_calls + 1,
        /*[C10.reap-build]*/ forall|id: int| final(tr).spawned.contains(id) && !old(tr).spawned.contains(id) ==> final(tr).waited.contains(id),
        /*[C10.reap-build]*/ r matches Ok(BuildTerminationReport::Cancelled) ==> forall|id: int| final(tr).spawned.contains(id) && !old(tr).spawned.contains(id) ==> final(tr).killed.contains(id),
//@before 0 `let mut build_process = command`
    assert(/*[C08.script]*/ command.script() == target.build_script && command.dir() == target.metadata.project_dir);
//@select 0 enum=EvB oracle=`select_bld(&mut build_process, &build_cancellation_events)`
//@arm Cancel `build_cancellation_events.next().fuse()`
//@arm Exited `build_process.status().fuse()`
//@end

//@include footer.rs
