//@unit UTIL
//@awaitvars
//@subst futures::future::select => select
//@subst futures::stream::iter => stream_iter
//@include header.rs
//@include std_ext.rs

// async_utils.rs: `both` and `all` — the combinators the incremental comparison is built from.  Futures
// are values here (R1): a future of a bool is an opaque object with the bool it resolves to.
#[verifier::external_body]
pub struct BoolFuture { _p: () }
impl BoolFuture {
    pub uninterp spec fn val(&self) -> bool;
}
/// `f.await` on a future variable (R1b)
#[verifier::external_body]
pub fn await_value(f: BoolFuture) -> (r: bool) ensures r == f.val() { unimplemented!() }

pub enum Either<A, B> { Left(A), Right(B) }
/// `futures::future::select(a, b).await`: whichever completes first, with its value and the other future
#[verifier::external_body]
pub fn select(a: BoolFuture, b: BoolFuture) -> (r: Either<(bool, BoolFuture), (bool, BoolFuture)>)
    ensures r matches Either::Left((v, f)) ==> v == a.val() && f == b,
            r matches Either::Right((v, f)) ==> v == b.val() && f == a,
{ unimplemented!() }

/// `futures::stream::iter(i).buffer_unordered(n)`: yields the values of the futures in some order
#[verifier::external_body]
pub struct Stream { _p: () }
pub open spec fn vals(v: Seq<BoolFuture>) -> Seq<bool> { v.map_values(|f: BoolFuture| f.val()) }
impl Stream {
    /// the values not yielded yet
    pub uninterp spec fn rest(&self) -> vstd::multiset::Multiset<bool>;
    #[verifier::external_body]
    pub fn buffer_unordered(self, n: usize) -> (r: Stream) ensures r.rest() == self.rest() { unimplemented!() }
    /// `s.next().await`: some not-yet-yielded value, None exactly when nothing is left
    #[verifier::external_body]
    pub fn next(&mut self) -> (r: Option<bool>)
        ensures r matches Some(x) ==> old(self).rest().count(x) > 0 && final(self).rest() == old(self).rest().remove(x),
                r is None ==> old(self).rest().len() == 0 && final(self).rest() == old(self).rest(),
    { unimplemented!() }
}
#[verifier::external_body]
pub fn stream_iter(i: Vec<BoolFuture>) -> (r: Stream) ensures r.rest() == vals(i@).to_multiset() { unimplemented!() }

//@fn src/async_utils.rs both ret=r
//@replace `pub async fn both<L, R>(future1: L, future2: R) -> bool\nwhere\n    L: Future<Output = bool>,\n    R: Future<Output = bool>,\n{` => `pub async fn both(future1: BoolFuture, future2: BoolFuture) -> bool\n\n\n\n{` rule=R5 pre why=`generic futures of bool become the prelude type BoolFuture`
//@contract
    ensures /*[C02.both,C03.both]*/ r == (future1.val() && future2.val()),
//@end

//@fn src/async_utils.rs all ret=r
//@replace `pub async fn all<I>(i: I) -> bool\nwhere\n    I: IntoIterator,\n    I::Item: Future<Output = bool>,\n{` => `pub async fn all(i: Vec<BoolFuture>) -> bool\n\n\n\n{` rule=R5 pre why=`the generic iterator of futures becomes a Vec of the prelude type BoolFuture`
//@contract
    ensures /*[C02.all,C03.all]*/ r == !vals(i@).contains(false),
//@pre
        broadcast use vstd::multiset::group_multiset_axioms;
        let ghost m0 = vals(i@).to_multiset();
        proof { vals(i@).to_multiset_ensures(); }
//@loop 0
        invariant
            m0 == vals(i@).to_multiset(),
            s.rest().subset_of(m0),
            s.rest().count(false) == m0.count(false),
            vals(i@).contains(false) <==> m0.count(false) > 0,
        ensures
            s.rest().len() == 0,
        decreases s.rest().len(),
//@after 0 `while let Some(r) = s.next().await`
    proof {
        assert(s.rest().len() == 0);
        assert(s.rest().count(false) <= s.rest().len()) by { vstd::multiset::axiom_count_le_len(s.rest(), false); }
    }
//@end

//@include footer.rs
