//@unit RELAY
//@ghost tr Trace seeds=send,recv,spawn_task,join_all,watcher_new,bounded_ch,unbounded_ch
//@dropderive Debug,Serialize,Deserialize,Clone,Copy
//@subst TargetWatcher::new => watcher_new
//@subst task::spawn => spawn_task
//@subst future::join_all => join_all
//@subst channel::bounded => bounded_ch
//@subst channel::unbounded => unbounded_ch
//@include header.rs
//@include std_ext.rs
//@include chan.rs

// ===========================================================================
// domain and message types (verbatim from /repo)
// ===========================================================================
//@item src/domain.rs TargetId
//@item src/domain.rs TargetMetadata
//@item src/domain.rs BuildTarget
//@item src/domain.rs ServiceTarget
//@item src/domain.rs AggregateTarget
//@item src/domain.rs Target
//@item src/engine/target_actor/mod.rs ActorInputMessage
//@item src/engine/target_actor/mod.rs TargetActorOutputMessage
//@item src/engine/target_actor/mod.rs ActorId
//@item src/engine/target_actor/mod.rs ExecutionKind
//@item src/engine/target_actor/mod.rs TargetActorHandleSet pubfields
//@item src/main.rs TerminationMessage
//@item src/main.rs DEFAULT_CHANNEL_CAP
//@item src/engine/watcher.rs TargetInvalidatedMessage
//@item src/engine/mod.rs WatchOption
//@item src/engine/target_actors.rs TargetActors pubfields

/// domain::Resources is opaque in this unit
#[verifier::external_body]
pub struct Resources { _p: () }

pub broadcast axiom fn axiom_tid_key_model()
    ensures #[trigger] obeys_key_model::<TargetId>();
pub broadcast group group_keys {
    axiom_tid_key_model, axiom_key_borrows_self,
}

impl Clone for TargetId {
    #[verifier::external_body]
    fn clone(&self) -> (r: Self) ensures r == *self { unimplemented!() }
}
impl Clone for ExecutionKind {
    #[verifier::external_body]
    fn clone(&self) -> (r: Self) ensures r == *self { unimplemented!() }
}
impl Copy for ExecutionKind {}
impl Clone for WatchOption {
    #[verifier::external_body]
    fn clone(&self) -> (r: Self) ensures r == *self { unimplemented!() }
}
impl Copy for WatchOption {}

impl Target {
//@fn src/domain.rs Target::metadata ret=r
//@contract
    ensures /*[C08.launch-wiring]*/ *r == self.meta(),
//@end
//@fn src/domain.rs Target::id ret=r
//@contract
    ensures /*[C08.launch-wiring,C01.relay]*/ *r == self.meta().id,
//@end
//@fn src/domain.rs Target::input ret=r
//@contract
    ensures /*[C06.watch-inputs]*/ r is Some <==> !(self is Aggregate),
//@end
    pub open spec fn meta(&self) -> TargetMetadata {
        match self {
            Target::Build(t) => t.metadata,
            Target::Service(t) => t.metadata,
            Target::Aggregate(t) => t.metadata,
        }
    }
    /// 0 = build, 1 = service, 2 = aggregate
    pub open spec fn kind_no(&self) -> int {
        match self { Target::Build(_) => 0, Target::Service(_) => 1, Target::Aggregate(_) => 2 }
    }
}

// ===========================================================================
// ghost state of the relay (DESIGN §5)
// ===========================================================================
pub ghost struct LaunchRec {
    pub id: TargetId,
    /// 0 = build actor, 1 = service actor, 2 = aggregate actor
    pub kind: int,
    /// metadata the helper was built from
    pub helper_meta: TargetMetadata,
    pub inbox: int,
    pub term: int,
    pub inval: int,
    pub out: int,
    pub task: int,
}

pub enum REv {
    Term(Option<TerminationMessage>),
    Out(Option<TargetActorOutputMessage>),
}

pub tracked struct Trace {
    /// events delivered to the relay loops
    pub ghost inlog: Seq<REv>,
    /// actor tasks spawned, in order
    pub ghost launched: Seq<LaunchRec>,
    /// inbox channel -> the target whose actor reads it
    pub ghost inbox_of: Map<int, TargetId>,
    /// termination channel -> task
    pub ghost term_of: Map<int, int>,
    /// messages put into actor inboxes, in order: (actor, message)
    pub ghost delivered: Seq<(TargetId, ActorInputMessage)>,
    /// tasks whose termination channel got the message
    pub ghost term_sent: Set<int>,
    /// tasks that were joined
    pub ghost joined: Set<int>,
    /// `termination_events.recv()` was awaited after the one-shot loop (keep-alive for root services)
    pub ghost awaited_signal: bool,
    pub ghost term_seen: bool,
    /// watcher creations: (target, inval channel)
    pub ghost watchers: Seq<(TargetId, int)>,
    pub ghost next_id: int,
    /// channel identities allocated so far
    pub ghost chans: Set<int>,
    /// ids of the resolved target map handed to `TargetActors::new` (constant)
    pub ghost all: Set<TargetId>,
}

/// the inbox deliveries that forwarding every `MessageActor { dest: Target(t), msg }` of `log` produces
pub open spec fn forwards_of(log: Seq<REv>) -> Seq<(TargetId, ActorInputMessage)>
    decreases log.len()
{
    if log.len() == 0 {
        Seq::empty()
    } else {
        let p = forwards_of(log.drop_last());
        match log.last() {
            REv::Out(Some(TargetActorOutputMessage::MessageActor { dest: ActorId::Target(t), msg })) => p.push((t, msg)),
            _ => p,
        }
    }
}

/// root targets that have not yet acknowledged kind `k` to the root
pub open spec fn roots_left(roots: Set<TargetId>, log: Seq<REv>, k: ExecutionKind) -> Set<TargetId>
    decreases log.len()
{
    if log.len() == 0 {
        roots
    } else {
        let p = roots_left(roots, log.drop_last(), k);
        match log.last() {
            REv::Out(Some(TargetActorOutputMessage::MessageActor { dest: ActorId::Root, msg: ActorInputMessage::Ok { kind, target_id, .. } })) =>
                if kind == k { p.remove(target_id) } else { p },
            _ => p,
        }
    }
}

/// roots behind which an actual service stands
pub open spec fn actual_roots(log: Seq<REv>) -> Set<TargetId>
    decreases log.len()
{
    if log.len() == 0 {
        Set::empty()
    } else {
        let p = actual_roots(log.drop_last());
        match log.last() {
            REv::Out(Some(TargetActorOutputMessage::MessageActor { dest: ActorId::Root, msg: ActorInputMessage::Ok { kind: ExecutionKind::Service, target_id, actual } })) =>
                if actual { p.insert(target_id) } else { p },
            _ => p,
        }
    }
}

pub open spec fn saw_error(log: Seq<REv>) -> bool
    decreases log.len()
{
    if log.len() == 0 { false } else {
        saw_error(log.drop_last()) || (log.last() matches REv::Out(Some(TargetActorOutputMessage::TargetExecutionError(_, _))))
    }
}

pub open spec fn saw_term(log: Seq<REv>) -> bool
    decreases log.len()
{
    if log.len() == 0 { false } else { saw_term(log.drop_last()) || log.last() is Term }
}

// ===========================================================================
// channel effects seen from the relay (A-chan)
// ===========================================================================
impl Sender<ActorInputMessage> {
    /// putting a message into an actor's inbox.  [C04.nonblocking] (DESIGN §5.5): in the cycle
    /// relay -> inbox -> actor -> relay channel one edge must never block, otherwise a full inbox plus
    /// a full relay channel is a deadlock that also swallows the termination signal; it is this one.
    #[verifier::external_body]
    pub fn send(&self, msg: ActorInputMessage, Tracked(tr): Tracked<&mut Trace>) -> (r: std::result::Result<(), SendError>)
        requires
            /*[C04.nonblocking,C10.signal]*/ !self.bounded(),
            old(tr).inbox_of.contains_key(self.chan()),
        ensures
            *final(tr) == (Trace { delivered: old(tr).delivered.push((old(tr).inbox_of[self.chan()], msg)), ..*old(tr) }),
    { unimplemented!() }
}
impl Sender<TerminationMessage> {
    #[verifier::external_body]
    pub fn send(&self, msg: TerminationMessage, Tracked(tr): Tracked<&mut Trace>) -> (r: std::result::Result<(), SendError>)
        requires old(tr).term_of.contains_key(self.chan()),
        ensures *final(tr) == (Trace { term_sent: old(tr).term_sent.insert(old(tr).term_of[self.chan()]), ..*old(tr) }),
    { unimplemented!() }
}
impl Receiver<TerminationMessage> {
    /// `recv().await` on the signal channel: returns once a termination signal (or the closing of the channel) arrived
    #[verifier::external_body]
    pub fn recv(&self, Tracked(tr): Tracked<&mut Trace>) -> (r: std::result::Result<TerminationMessage, RecvError>)
        requires
            // once a termination signal has been received the engine never sits down to wait for another one
            /*[C10.signal]*/ !old(tr).term_seen,
        ensures *final(tr) == (Trace { awaited_signal: true, term_seen: true, ..*old(tr) }),
    { unimplemented!() }
}
#[verifier::external_body]
pub struct RecvError { _p: () }

impl Clone for Sender<TargetActorOutputMessage> {
    #[verifier::external_body]
    fn clone(&self) -> (r: Self) ensures r.chan() == self.chan() { unimplemented!() }
}

// ===========================================================================
// actors, watcher, tasks — opaque in this unit; their own code is verified in ACT / WCH
// ===========================================================================
#[verifier::external_body]
pub struct TargetWatcher { _p: () }
#[verifier::external_body]
pub struct TargetActorHelper { _p: () }
#[verifier::external_body]
pub struct BuildTargetActor { _p: () }
#[verifier::external_body]
pub struct ServiceTargetActor { _p: () }
#[verifier::external_body]
pub struct AggregateTargetActor { _p: () }
#[verifier::external_body]
pub struct ActorFuture { _p: () }
#[verifier::external_body]
#[verifier::reject_recursive_types(T)]
pub struct JoinHandle<T> { _p: std::marker::PhantomData<T> }
impl<T> JoinHandle<T> {
    pub uninterp spec fn task(&self) -> int;
}

pub ghost struct HelperRec { pub meta: TargetMetadata, pub term: int, pub inval: int, pub inbox: int, pub out: int }
impl TargetActorHelper {
    pub uninterp spec fn rec(&self) -> HelperRec;
    /// contract of `TargetActorHelper::new` as far as wiring goes (its state contract is verified in ACT)
    #[verifier::external_body]
    pub fn new(target_metadata: &TargetMetadata, termination_events: Receiver<TerminationMessage>,
        target_invalidated_events: Receiver<TargetInvalidatedMessage>, target_actor_input_receiver: Receiver<ActorInputMessage>,
        target_actor_output_sender: Sender<TargetActorOutputMessage>) -> (r: Self)
        ensures r.rec() == (HelperRec { meta: *target_metadata, term: termination_events.chan(), inval: target_invalidated_events.chan(),
            inbox: target_actor_input_receiver.chan(), out: target_actor_output_sender.chan() }),
    { unimplemented!() }
}
pub ghost struct ActorRec { pub kind: int, pub id: TargetId, pub helper: HelperRec }
impl ActorFuture { pub uninterp spec fn rec(&self) -> ActorRec; }
impl BuildTargetActor {
    pub uninterp spec fn rec(&self) -> ActorRec;
    #[verifier::external_body]
    pub fn new(target: BuildTarget, h: TargetActorHelper) -> (r: Self)
        ensures r.rec() == (ActorRec { kind: 0, id: target.metadata.id, helper: h.rec() }),
    { unimplemented!() }
    #[verifier::external_body]
    pub fn run(self) -> (f: ActorFuture) ensures f.rec() == self.rec() { unimplemented!() }
}
impl ServiceTargetActor {
    pub uninterp spec fn rec(&self) -> ActorRec;
    #[verifier::external_body]
    pub fn new(target: ServiceTarget, h: TargetActorHelper) -> (r: Self)
        ensures r.rec() == (ActorRec { kind: 1, id: target.metadata.id, helper: h.rec() }),
    { unimplemented!() }
    #[verifier::external_body]
    pub fn run(self) -> (f: ActorFuture) ensures f.rec() == self.rec() { unimplemented!() }
}
impl AggregateTargetActor {
    pub uninterp spec fn rec(&self) -> ActorRec;
    #[verifier::external_body]
    pub fn new(target: AggregateTarget, h: TargetActorHelper) -> (r: Self)
        ensures r.rec() == (ActorRec { kind: 2, id: target.metadata.id, helper: h.rec() }),
    { unimplemented!() }
    #[verifier::external_body]
    pub fn run(self) -> (f: ActorFuture) ensures f.rec() == self.rec() { unimplemented!() }
}

/// `task::spawn(actor.run())`: the actor task exists from now on (A-exec)
#[verifier::external_body]
pub fn spawn_task(f: ActorFuture, Tracked(tr): Tracked<&mut Trace>) -> (j: JoinHandle<()>)
    ensures
        j.task() == old(tr).next_id,
        *final(tr) == (Trace {
            launched: old(tr).launched.push(LaunchRec { id: f.rec().id, kind: f.rec().kind, helper_meta: f.rec().helper.meta,
                inbox: f.rec().helper.inbox, term: f.rec().helper.term, inval: f.rec().helper.inval, out: f.rec().helper.out, task: old(tr).next_id }),
            inbox_of: old(tr).inbox_of.insert(f.rec().helper.inbox, f.rec().id),
            term_of: old(tr).term_of.insert(f.rec().helper.term, old(tr).next_id),
            next_id: old(tr).next_id + 1,
            ..*old(tr) }),
{ unimplemented!() }

/// `TargetWatcher::new` (verified in WCH): `Some` exactly when the target has inputs
#[verifier::external_body]
pub fn watcher_new(target_id: &TargetId, target_input: Option<&Resources>, sender: &Sender<TargetInvalidatedMessage>, Tracked(tr): Tracked<&mut Trace>) -> (r: Result<Option<TargetWatcher>>)
    ensures
        r matches Ok(w) ==> (w is Some <==> target_input is Some)
            && *final(tr) == (Trace { watchers: old(tr).watchers.push((*target_id, sender.chan())), ..*old(tr) }),
        r is Err ==> *final(tr) == *old(tr),
{ unimplemented!() }

/// `future::join_all(handles).await`
#[verifier::external_body]
pub fn join_all(v: Vec<JoinHandle<()>>, Tracked(tr): Tracked<&mut Trace>)
    ensures
        *final(tr) == (Trace { joined: old(tr).joined.union(v@.map_values(|h: JoinHandle<()>| h.task()).to_set()), ..*old(tr) }),
{ unimplemented!() }

/// `channel::bounded(cap)` / `channel::unbounded()` with a fresh channel identity
#[verifier::external_body]
pub fn bounded_ch<T>(cap: usize, Tracked(tr): Tracked<&mut Trace>) -> (r: (Sender<T>, Receiver<T>))
    ensures r.0.chan() == r.1.chan(), r.0.bounded(), !old(tr).chans.contains(r.0.chan()),
        *final(tr) == (Trace { chans: old(tr).chans.insert(r.0.chan()), ..*old(tr) }),
{ unimplemented!() }
#[verifier::external_body]
pub fn unbounded_ch<T>(Tracked(tr): Tracked<&mut Trace>) -> (r: (Sender<T>, Receiver<T>))
    ensures r.0.chan() == r.1.chan(), !r.0.bounded(), !old(tr).chans.contains(r.0.chan()),
        *final(tr) == (Trace { chans: old(tr).chans.insert(r.0.chan()), ..*old(tr) }),
{ unimplemented!() }

// ===========================================================================
// launch_target_actor
/// the trace effect of one successful launch: one more task, its inbox and termination channel are
/// fresh and registered, nothing delivered / terminated / joined
pub open spec fn launched_one(t0: Trace, t1: Trace, j: JoinHandle<()>, h: TargetActorHandleSet) -> bool {
    &&& t1 == (Trace {
            launched: t0.launched.push(t1.launched.last()),
            inbox_of: t0.inbox_of.insert(h.target_actor_input_sender.chan(), t1.launched.last().id),
            term_of: t0.term_of.insert(h.termination_sender.chan(), j.task()),
            next_id: t0.next_id + 1,
            chans: t1.chans,
            watchers: t1.watchers,
            ..t0 })
    &&& t1.launched.len() == t0.launched.len() + 1
    &&& j.task() == t0.next_id
    &&& !t0.chans.contains(h.target_actor_input_sender.chan()) && !t0.chans.contains(h.termination_sender.chan())
    &&& h.target_actor_input_sender.chan() != h.termination_sender.chan()
    &&& t0.chans.subset_of(t1.chans) && t1.chans.contains(h.target_actor_input_sender.chan()) && t1.chans.contains(h.termination_sender.chan())
}
// ===========================================================================
//@fn src/engine/target_actor/mod.rs launch_target_actor ret=r
//@contract
    ensures
        r matches Ok((j, h)) ==> launched_one(*old(tr), *final(tr), j, h),
        /*[C08.launch-wiring,C01.relay]*/ r matches Ok((j, h)) ==> final(tr).launched.last().id == target.meta().id,
        /*[C08.launch-wiring]*/ r matches Ok((j, h)) ==> final(tr).launched.last().helper_meta == target.meta(),
        /*[C08.launch-wiring]*/ r matches Ok((j, h)) ==> final(tr).launched.last().kind == target.kind_no(),
        /*[C08.launch-wiring,C01.relay]*/ r matches Ok((j, h)) ==> final(tr).launched.last().inbox == h.target_actor_input_sender.chan(),
        /*[C08.launch-wiring,C10.terminate-all,C11.stop-at-exit]*/ r matches Ok((j, h)) ==> final(tr).launched.last().term == h.termination_sender.chan(),
        /*[C08.launch-wiring]*/ r matches Ok((j, h)) ==> final(tr).launched.last().out == target_actor_output_sender.chan(),
        /*[C08.launch-wiring,C10.terminate-all,C11.stop-at-exit]*/ r matches Ok((j, h)) ==> final(tr).launched.last().task == j.task(),
        /*[C04.nonblocking,C10.signal]*/ r matches Ok((j, h)) ==> !h.target_actor_input_sender.bounded(),
        /*[C08.no-inval-oneshot]*/ r matches Ok((j, h)) ==> (watch_option is Disabled ==> h._watcher is None && final(tr).watchers == old(tr).watchers),
        /*[C06.watch-inputs]*/ r matches Ok((j, h)) ==> (watch_option is Enabled ==> (h._watcher is Some <==> !(target is Aggregate))),
        /*[C06.watch-inputs,C16.wiring]*/ r matches Ok((j, h)) ==> (h._watcher is Some ==> final(tr).watchers.len() > 0 && final(tr).watchers.last() == (target.meta().id, final(tr).launched.last().inval) && h._target_invalidated_sender.chan() == final(tr).launched.last().inval),
        /*[C08.launch-once]*/ r is Err ==> *final(tr) == (Trace { chans: final(tr).chans, watchers: final(tr).watchers, ..*old(tr) }) && old(tr).chans.subset_of(final(tr).chans),
        /*[C08.no-inval-oneshot]*/ r is Err && watch_option is Disabled ==> final(tr).watchers == old(tr).watchers,
//@end

// ===========================================================================
// TargetActors
// ===========================================================================
pub open spec fn handle_ok(h: TargetActorHandleSet, id: TargetId, tr: Trace) -> bool {
    &&& tr.inbox_of.contains_key(h.target_actor_input_sender.chan())
    &&& /*C01.relay*/ tr.inbox_of[h.target_actor_input_sender.chan()] == id
    &&& /*C04.nonblocking*/ !h.target_actor_input_sender.bounded()
    &&& tr.term_of.contains_key(h.termination_sender.chan())
    &&& tr.chans.contains(h.target_actor_input_sender.chan()) && tr.chans.contains(h.termination_sender.chan())
}

impl TargetActors {
    /// what `terminate` needs: every launched task has its handle set and its join handle
    pub open spec fn wf_handles(&self, tr: Trace) -> bool {
        &&& forall|id: TargetId| #![trigger self.target_actor_handles@.contains_key(id)] #![trigger self.target_actor_handles@[id]]
                self.target_actor_handles@.contains_key(id) ==> handle_ok(self.target_actor_handles@[id], id, tr)
        &&& tr.launched.len() == self.target_actor_handles@.len()
        &&& tr.launched.len() == self.target_actor_join_handles@.len()
        &&& forall|i: int| #![trigger tr.launched[i]] 0 <= i < tr.launched.len() ==> {
                &&& self.target_actor_handles@.contains_key(tr.launched[i].id)
                &&& tr.term_of.contains_key(tr.launched[i].term) && tr.term_of[tr.launched[i].term] == tr.launched[i].task
                &&& self.target_actor_handles@[tr.launched[i].id].termination_sender.chan() == tr.launched[i].term
                &&& self.target_actor_join_handles@[i].task() == tr.launched[i].task
                &&& tr.launched[i].out == self.target_actor_output_sender.chan()
                &&& tr.launched[i].task < tr.next_id
            }
        &&& forall|c: int| #![trigger tr.inbox_of.contains_key(c)] tr.inbox_of.contains_key(c) ==> tr.chans.contains(c)
        &&& forall|c: int| #![trigger tr.term_of.contains_key(c)] tr.term_of.contains_key(c) ==> tr.chans.contains(c)
    }
    /// the resolved targets are partitioned into "not launched yet" and "launched" [C08.launch-once]
    pub open spec fn wf(&self, tr: Trace) -> bool {
        let all = tr.all;
        &&& self.wf_handles(tr)
        &&& forall|id: TargetId| #![trigger self.targets@.contains_key(id)] self.targets@.contains_key(id) ==> !self.target_actor_handles@.contains_key(id) && all.contains(id) && self.targets@[id].meta().id == id
        &&& forall|id: TargetId| #![trigger all.contains(id)] all.contains(id) ==> self.targets@.contains_key(id) || self.target_actor_handles@.contains_key(id)
        &&& forall|id: TargetId| #![trigger self.target_actor_handles@.contains_key(id)] self.target_actor_handles@.contains_key(id) ==> all.contains(id)
    }
    pub open spec fn same_config(&self, o: &TargetActors) -> bool {
        self.watch_option == o.watch_option && self.target_actor_output_sender.chan() == o.target_actor_output_sender.chan()
    }

//@fn src/engine/target_actors.rs TargetActors::new ret=r
//@contract
    ensures
        /*[C08.launch-once]*/ r.targets == targets && r.target_actor_handles@ == Map::<TargetId, TargetActorHandleSet>::empty() && r.target_actor_join_handles@ == Seq::<JoinHandle<()>>::empty(),
        r.watch_option == watch_option, r.target_actor_output_sender == target_actor_output_sender,
//@pre
        broadcast use group_keys;
        broadcast use vstd::std_specs::hash::group_hash_axioms;
//@end

//@fn src/engine/target_actors.rs TargetActors::get_target_actor_handles ret=r
//@contract
    requires
        old(self).wf(*old(tr)),
        /*[C04.nopanic]*/ old(tr).all.contains(*target_id),
    ensures
        final(self).same_config(old(self)),
        r is Ok ==> final(self).wf(*final(tr)),
        /*[C10.terminate-all,C11.stop-at-exit]*/ final(self).wf_handles(*final(tr)),
        r matches Ok(h) ==> final(self).target_actor_handles@.contains_key(*target_id) && *h == final(self).target_actor_handles@[*target_id],
        /*[C08.launch-once]*/ old(self).target_actor_handles@.contains_key(*target_id) ==> *final(tr) == *old(tr) && final(self).target_actor_handles == old(self).target_actor_handles && r is Ok,
        /*[C08.launch-once]*/ !old(self).target_actor_handles@.contains_key(*target_id) && r is Ok ==> final(tr).launched.len() == old(tr).launched.len() + 1 && final(tr).launched.last().id == *target_id,
        final(tr).delivered == old(tr).delivered, final(tr).inlog == old(tr).inlog, final(tr).term_sent == old(tr).term_sent, final(tr).joined == old(tr).joined,
        final(tr).awaited_signal == old(tr).awaited_signal, final(tr).term_seen == old(tr).term_seen, final(tr).all == old(tr).all,
        /*[C08.no-inval-oneshot]*/ old(self).watch_option is Disabled ==> final(tr).watchers == old(tr).watchers,
//@pre
        broadcast use group_keys;
        broadcast use vstd::std_specs::hash::group_hash_axioms;
//@end

//@fn src/engine/target_actors.rs TargetActors::send ret=r
//@contract
    requires
        old(self).wf(*old(tr)),
        /*[C04.nopanic]*/ old(tr).all.contains(*target_id),
    ensures
        final(self).same_config(old(self)),
        r is Ok ==> final(self).wf(*final(tr)),
        final(self).wf_handles(*final(tr)),
        /*[C01.relay,C04.relay-forward,C06.relay-watch]*/ r is Ok ==> final(tr).delivered == old(tr).delivered.push((*target_id, msg)),
        r is Err ==> final(tr).delivered == old(tr).delivered,
        final(tr).inlog == old(tr).inlog, final(tr).term_sent == old(tr).term_sent, final(tr).joined == old(tr).joined,
        final(tr).awaited_signal == old(tr).awaited_signal, final(tr).term_seen == old(tr).term_seen, final(tr).all == old(tr).all,
        /*[C08.no-inval-oneshot]*/ old(self).watch_option is Disabled ==> final(tr).watchers == old(tr).watchers,
//@end

//@fn src/engine/target_actors.rs TargetActors::request_target ret=r
//@contract
    requires
        old(self).wf(*old(tr)),
        /*[C04.nopanic]*/ old(tr).all.contains(*target_id),
    ensures
        final(self).same_config(old(self)),
        r is Ok ==> final(self).wf(*final(tr)),
        final(self).wf_handles(*final(tr)),
        /*[C04.root-request]*/ r is Ok ==> final(tr).delivered == old(tr).delivered
            .push((*target_id, ActorInputMessage::Requested { kind: ExecutionKind::Build, requester: ActorId::Root }))
            .push((*target_id, ActorInputMessage::Requested { kind: ExecutionKind::Service, requester: ActorId::Root })),
        final(tr).inlog == old(tr).inlog, final(tr).term_sent == old(tr).term_sent, final(tr).joined == old(tr).joined,
        final(tr).awaited_signal == old(tr).awaited_signal, final(tr).term_seen == old(tr).term_seen, final(tr).all == old(tr).all,
        /*[C08.no-inval-oneshot]*/ old(self).watch_option is Disabled ==> final(tr).watchers == old(tr).watchers,
//@pre
        let ghost tid = *target_id;
//@after 0 `let handles = self.get_target_actor_handles(`
        let ghost t1 = *tr;
        let ghost d0 = tr.delivered;
//@loop 0 binder=it
            invariant
                it.seq().len() == 2 && *it.seq()[0] == ExecutionKind::Build && *it.seq()[1] == ExecutionKind::Service,
                handle_ok(*handles, tid, t1),
                *tr == (Trace { delivered: tr.delivered, ..t1 }),
                it.index@ == 0 ==> tr.delivered == d0,
                it.index@ == 1 ==> tr.delivered == d0.push((tid, ActorInputMessage::Requested { kind: ExecutionKind::Build, requester: ActorId::Root })),
                it.index@ == 2 ==> tr.delivered == d0.push((tid, ActorInputMessage::Requested { kind: ExecutionKind::Build, requester: ActorId::Root })).push((tid, ActorInputMessage::Requested { kind: ExecutionKind::Service, requester: ActorId::Root })),
//@end

//@fn src/engine/target_actors.rs TargetActors::terminate
//@contract
    requires
        self.wf_handles(*old(tr)),
    ensures
        final(tr).launched == old(tr).launched,
        /*[C10.terminate-all,C11.stop-at-exit]*/ forall|i: int| #![trigger final(tr).launched[i]] 0 <= i < final(tr).launched.len() ==> final(tr).term_sent.contains(final(tr).launched[i].task),
        /*[C10.terminate-all,C11.stop-at-exit]*/ forall|i: int| #![trigger final(tr).launched[i]] 0 <= i < final(tr).launched.len() ==> final(tr).joined.contains(final(tr).launched[i].task),
//@pre
        broadcast use group_keys;
        broadcast use vstd::std_specs::hash::group_hash_axioms;
        let ghost jh = self.target_actor_join_handles@;
        let ghost hs = self.target_actor_handles@;
//@after 0 `future::join_all(self.target_actor_join_handles)`
        proof {
            assert forall|i: int| 0 <= i < tr.launched.len() implies tr.joined.contains(#[trigger] tr.launched[i].task) by {
                assert(jh.map_values(|h: JoinHandle<()>| h.task())[i] == tr.launched[i].task);
            }
            assert forall|i: int| 0 <= i < tr.launched.len() implies tr.term_sent.contains(#[trigger] tr.launched[i].task) by {
                assert(hs.contains_key(tr.launched[i].id));
            }
        }
//@end

//@fn src/engine/target_actors.rs TargetActors::send_termination_message
//@contract
    requires
        forall|id: TargetId| #![trigger target_actor_handles@[id]] target_actor_handles@.contains_key(id) ==> old(tr).term_of.contains_key(target_actor_handles@[id].termination_sender.chan()),
    ensures
        *final(tr) == (Trace { term_sent: final(tr).term_sent, ..*old(tr) }),
        /*[C10.terminate-all,C11.stop-at-exit]*/ forall|id: TargetId| #![trigger target_actor_handles@[id]] target_actor_handles@.contains_key(id) ==> final(tr).term_sent.contains(old(tr).term_of[target_actor_handles@[id].termination_sender.chan()]),
//@pre
        broadcast use group_keys;
        broadcast use vstd::std_specs::hash::group_hash_axioms;
        broadcast use lemma_take_all;
//@loop 0 binder=it
            invariant
                it.seq().unref().to_set() == target_actor_handles@.values(),
                *tr == (Trace { term_sent: tr.term_sent, ..*old(tr) }),
                forall|i: int| #![trigger it.seq()[i]] 0 <= i < it.index@ ==> tr.term_sent.contains(old(tr).term_of[it.seq()[i].termination_sender.chan()]),
                forall|id: TargetId| #![trigger target_actor_handles@[id]] target_actor_handles@.contains_key(id) ==> old(tr).term_of.contains_key(target_actor_handles@[id].termination_sender.chan()),
//@loopbody
            proof {
                assert(it.seq().unref().to_set().contains(*handles)) by {
                    assert(it.seq().unref()[it.index@ as int] == *handles);
                }
                assert(target_actor_handles@.values().contains(*handles));
            }
//@after 0 `for handles in target_actor_handles.values()`
        proof {
            assert forall|id: TargetId| target_actor_handles@.contains_key(id) implies tr.term_sent.contains(old(tr).term_of[(#[trigger] target_actor_handles@[id]).termination_sender.chan()]) by {
                let v = target_actor_handles@[id];
                assert(target_actor_handles@.values().contains(v));
            }
        }
//@end
}

// ===========================================================================
// the relay loops
// ===========================================================================
/// one firing of a relay `select!` (R3): a termination signal, or the next message of the targets'
/// output channel.  Assumed (A-chan): the channel yields `Some` (TargetActors holds a sender);
/// assumed (closure, DESIGN §8 / C09.closed): an actor only addresses targets of the resolved map.
#[verifier::external_body]
pub fn select_relay(term: &Receiver<TerminationMessage>, out: &Receiver<TargetActorOutputMessage>, Tracked(tr): Tracked<&mut Trace>) -> (e: REv)
    ensures
        *final(tr) == (Trace { inlog: old(tr).inlog.push(e), term_seen: old(tr).term_seen || e is Term, ..*old(tr) }),
        e matches REv::Out(m) ==> m is Some,
        e matches REv::Out(Some(TargetActorOutputMessage::MessageActor { dest: ActorId::Target(t), .. })) ==> old(tr).all.contains(t),
{ unimplemented!() }

#[verifier::external_body]
pub fn slice_to_set(v: &[TargetId]) -> (r: HashSet<TargetId>)
    ensures r@ == v@.to_set(),
{ unimplemented!() }

//@fn src/engine/mod.rs watch ret=r
//@split-arms
//@attr #[verifier::exec_allows_no_decreases_clause]
//@replace `mut termination_events: Receiver<TerminationMessage>` => `termination_events: Receiver<TerminationMessage>` rule=R15 why=`receiver only polled inside select! (R3)`
//@replace `mut target_actor_output_events: Receiver<TargetActorOutputMessage>` => `target_actor_output_events: Receiver<TargetActorOutputMessage>` rule=R15 why=`receiver only polled inside select! (R3)`
//@contract
    requires
        old(target_actors).wf(*old(tr)),
        old(tr).inlog.len() == 0, !old(tr).term_seen,
    ensures
        final(target_actors).wf_handles(*final(tr)),
        /*[C10.signal,C07.watch]*/ r is Ok ==> final(tr).term_seen,
        /*[C06.relay-watch,C04.relay-forward]*/ r is Ok ==> final(tr).delivered == old(tr).delivered + forwards_of(final(tr).inlog),
//@pre
        let ghost d0 = tr.delivered;
//@loop 0
            invariant_except_break
                // partial correctness says nothing about a loop that never exits: the signal must end *this* iteration
                /*[C10.signal]*/ !tr.term_seen,
            invariant
                target_actors.wf(*tr),
                /*[C06.relay-watch,C04.relay-forward,C01.relay]*/ tr.delivered == d0 + forwards_of(tr.inlog),
            ensures
                /*[C10.signal]*/ tr.term_seen,
//@select 0 enum=REv oracle=`select_relay(&termination_events, &target_actor_output_events)`
//@arm Term `termination_events.next().fuse()`
//@arm Out `target_actor_output_events.next().fuse()`
            let ghost log0 = tr.inlog;
            //---
            proof {
                assert(tr.inlog.drop_last() == log0);
                reveal_with_fuel(forwards_of, 2);
            }
//@end

//@fn src/engine/mod.rs execute_once ret=r
//@split-arms
//@replace `mut termination_events: Receiver<TerminationMessage>` => `termination_events: Receiver<TerminationMessage>` rule=R15 why=`receiver only polled inside select! (R3)`
//@replace `mut target_actor_output_events: Receiver<TargetActorOutputMessage>` => `target_actor_output_events: Receiver<TargetActorOutputMessage>` rule=R15 why=`receiver only polled inside select! (R3)`
//@replace `root_target_ids.iter().cloned().collect::<HashSet<_>>()` => `slice_to_set(root_target_ids)` rule=R13 why=`iterator adapter chain iter().cloned().collect() into a HashSet -> prelude stub slice_to_set (ensures r@ == v@.to_set())`
//@attr #[verifier::exec_allows_no_decreases_clause]
//@contract
    requires
        old(target_actors).wf(*old(tr)),
        old(tr).inlog.len() == 0, !old(tr).term_seen, !old(tr).awaited_signal,
    ensures
        final(target_actors).wf_handles(*final(tr)),
        /*[C04.relay-forward,C01.relay]*/ r is Ok ==> final(tr).delivered == old(tr).delivered + forwards_of(final(tr).inlog),
        /*[C07.once]*/ saw_error(final(tr).inlog) ==> r is Err,
        /*[C04.exit,C11.keepalive-roots]*/ r is Ok ==> final(tr).term_seen || (roots_left(root_target_ids@.to_set(), final(tr).inlog, ExecutionKind::Build).len() == 0 && roots_left(root_target_ids@.to_set(), final(tr).inlog, ExecutionKind::Service).len() == 0),
        /*[C11.keepalive]*/ r is Ok && !final(tr).term_seen ==> actual_roots(final(tr).inlog).len() == 0,
        /*[C11.keepalive]*/ final(tr).awaited_signal ==> actual_roots(final(tr).inlog).len() > 0,
//@pre
        broadcast use group_keys;
        broadcast use vstd::std_specs::hash::group_hash_axioms;
        let ghost d0 = tr.delivered;
        let ghost roots = root_target_ids@.to_set();
//@loop 0
            invariant
                target_actors.wf(*tr),
                roots == root_target_ids@.to_set(),
                /*[C04.relay-forward,C01.relay]*/ tr.delivered == d0 + forwards_of(tr.inlog),
                /*[C04.root,C11.keepalive-roots]*/ unavailable_root_builds@ == roots_left(roots, tr.inlog, ExecutionKind::Build),
                /*[C04.root,C11.keepalive-roots]*/ unavailable_root_services@ == roots_left(roots, tr.inlog, ExecutionKind::Service),
                /*[C11.actual-root]*/ service_root_targets@ == actual_roots(tr.inlog),
                /*[C10.signal]*/ termination_event_received == tr.term_seen,
                /*[C07.once]*/ !saw_error(tr.inlog),
                !tr.awaited_signal,
//@loopbody
            broadcast use group_keys;
            broadcast use vstd::std_specs::hash::group_hash_axioms;
//@select 0 enum=REv oracle=`select_relay(&termination_events, &target_actor_output_events)`
//@arm Term `termination_events.next().fuse()`
//@arm Out `target_actor_output_events.next().fuse()`
            let ghost log0 = tr.inlog;
            //---
            proof {
                assert(tr.inlog.drop_last() == log0);
                reveal_with_fuel(forwards_of, 2);
                reveal_with_fuel(roots_left, 2);
                reveal_with_fuel(actual_roots, 2);
                reveal_with_fuel(saw_error, 2);
            }
//@end

//@fn src/engine/mod.rs run ret=r
//@contract
    requires
        old(target_actors).wf(*old(tr)),
        old(tr).inlog.len() == 0, !old(tr).term_seen, !old(tr).awaited_signal,
        /*[C04.nopanic]*/ forall|i: int| 0 <= i < root_target_ids@.len() ==> old(tr).all.contains(#[trigger] root_target_ids@[i]),
    ensures
        final(target_actors).wf_handles(*final(tr)),
        /*[C07.once]*/ watch_option is Disabled && saw_error(final(tr).inlog) ==> r is Err,
        /*[C07.watch,C10.signal]*/ watch_option is Enabled && r is Ok ==> final(tr).term_seen,
        /*[C11.keepalive]*/ watch_option is Disabled && r is Ok && !final(tr).term_seen ==> actual_roots(final(tr).inlog).len() == 0,
//@loop 0 binder=it
        invariant
            target_actors.wf(*tr),
            tr.inlog.len() == 0, !tr.term_seen, !tr.awaited_signal,
            tr.all == old(tr).all,
            it.seq().unref() == root_target_ids@,
            forall|i: int| 0 <= i < root_target_ids@.len() ==> tr.all.contains(#[trigger] root_target_ids@[i]),
//@loopbody
        proof { assert(it.seq().unref()[it.index@ as int] == *target_id); }
//@end

pub broadcast proof fn lemma_take_all<A>(s: Seq<A>)
    ensures #[trigger] s.take(s.len() as int) == s
{
    assert(s.take(s.len() as int) =~= s);
}

//@include footer.rs
