//@unit RELAY
//@ghost tr Trace seeds=send,recv,spawn_task,join_all,watcher_new,bounded_ch,unbounded_ch
//@dropderive Debug,Serialize,Deserialize,Clone,Copy
//@subst TargetWatcher::new => watcher_new
//@subst task::spawn => spawn_task
//@subst future::join_all => join_all
//@subst channel::bounded => bounded_ch
//@subst channel::unbounded => unbounded_ch
//@include header.rs
//@include std_ext.rs
//@include chan.rs

// ===========================================================================
// domain and message types (verbatim from /repo)
// ===========================================================================
//@item src/domain.rs TargetId
//@item src/domain.rs TargetMetadata
//@item src/domain.rs BuildTarget
//@item src/domain.rs ServiceTarget
//@item src/domain.rs AggregateTarget
//@item src/domain.rs Target
//@item src/engine/target_actor/mod.rs ActorInputMessage
//@item src/engine/target_actor/mod.rs TargetActorOutputMessage
//@item src/engine/target_actor/mod.rs ActorId
//@item src/engine/target_actor/mod.rs ExecutionKind
//@item src/engine/target_actor/mod.rs TargetActorHandleSet pubfields
//@item src/main.rs TerminationMessage
//@item src/main.rs DEFAULT_CHANNEL_CAP
//@item src/engine/watcher.rs TargetInvalidatedMessage
//@item src/engine/mod.rs WatchOption
//@item src/engine/target_actors.rs TargetActors pubfields

/// domain::Resources is opaque in this unit
#[verifier::external_body]
pub struct Resources { _p: () }

pub broadcast axiom fn axiom_tid_key_model()
    ensures #[trigger] obeys_key_model::<TargetId>();
pub broadcast group group_keys {
    axiom_tid_key_model, axiom_key_borrows_self,
}

impl Clone for TargetId {
    #[verifier::external_body]
    fn clone(&self) -> (r: Self) ensures r == *self { unimplemented!() }
}
impl Clone for ExecutionKind {
    #[verifier::external_body]
    fn clone(&self) -> (r: Self) ensures r == *self { unimplemented!() }
}
impl Copy for ExecutionKind {}
impl Clone for WatchOption {
    #[verifier::external_body]
    fn clone(&self) -> (r: Self) ensures r == *self { unimplemented!() }
}
impl Copy for WatchOption {}

impl Target {
//@fn src/domain.rs Target::metadata ret=r
//@contract
    ensures *r == self.meta(),
//@end
//@fn src/domain.rs Target::id ret=r
//@contract
    ensures *r == self.meta().id,
//@end
//@fn src/domain.rs Target::input ret=r
//@contract
    ensures r is Some <==> !(self is Aggregate),
//@end
    pub open spec fn meta(&self) -> TargetMetadata {
        match self {
            Target::Build(t) => t.metadata,
            Target::Service(t) => t.metadata,
            Target::Aggregate(t) => t.metadata,
        }
    }
    /// 0 = build, 1 = service, 2 = aggregate
    pub open spec fn kind_no(&self) -> int {
        match self { Target::Build(_) => 0, Target::Service(_) => 1, Target::Aggregate(_) => 2 }
    }
}

// ===========================================================================
// ghost state of the relay (DESIGN §5)
// ===========================================================================
pub ghost struct LaunchRec {
    pub id: TargetId,
    /// 0 = build actor, 1 = service actor, 2 = aggregate actor
    pub kind: int,
    /// metadata the helper was built from
    pub helper_meta: TargetMetadata,
    pub inbox: int,
    pub term: int,
    pub inval: int,
    pub out: int,
    pub task: int,
}

pub enum REv {
    Term(Option<TerminationMessage>),
    Out(Option<TargetActorOutputMessage>),
}

pub tracked struct Trace {
    /// events delivered to the relay loops
    pub ghost inlog: Seq<REv>,
    /// actor tasks spawned, in order
    pub ghost launched: Seq<LaunchRec>,
    /// inbox channel -> the target whose actor reads it
    pub ghost inbox_of: Map<int, TargetId>,
    /// termination channel -> task
    pub ghost term_of: Map<int, int>,
    /// messages put into actor inboxes, in order: (actor, message)
    pub ghost delivered: Seq<(TargetId, ActorInputMessage)>,
    /// tasks whose termination channel got the message
    pub ghost term_sent: Set<int>,
    /// tasks that were joined
    pub ghost joined: Set<int>,
    /// `termination_events.recv()` was awaited after the one-shot loop (keep-alive for root services)
    pub ghost awaited_signal: bool,
    pub ghost term_seen: bool,
    /// watcher creations: (target, inval channel)
    pub ghost watchers: Seq<(TargetId, int)>,
    pub ghost next_id: int,
    /// channel identities allocated so far
    pub ghost chans: Set<int>,
}

/// the inbox deliveries that forwarding every `MessageActor { dest: Target(t), msg }` of `log` produces
pub open spec fn forwards_of(log: Seq<REv>) -> Seq<(TargetId, ActorInputMessage)>
    decreases log.len()
{
    if log.len() == 0 {
        Seq::empty()
    } else {
        let p = forwards_of(log.drop_last());
        match log.last() {
            REv::Out(Some(TargetActorOutputMessage::MessageActor { dest: ActorId::Target(t), msg })) => p.push((t, msg)),
            _ => p,
        }
    }
}

/// root targets that have not yet acknowledged kind `k` to the root
pub open spec fn roots_left(roots: Set<TargetId>, log: Seq<REv>, k: ExecutionKind) -> Set<TargetId>
    decreases log.len()
{
    if log.len() == 0 {
        roots
    } else {
        let p = roots_left(roots, log.drop_last(), k);
        match log.last() {
            REv::Out(Some(TargetActorOutputMessage::MessageActor { dest: ActorId::Root, msg: ActorInputMessage::Ok { kind, target_id, .. } })) =>
                if kind == k { p.remove(target_id) } else { p },
            _ => p,
        }
    }
}

/// roots behind which an actual service stands
pub open spec fn actual_roots(log: Seq<REv>) -> Set<TargetId>
    decreases log.len()
{
    if log.len() == 0 {
        Set::empty()
    } else {
        let p = actual_roots(log.drop_last());
        match log.last() {
            REv::Out(Some(TargetActorOutputMessage::MessageActor { dest: ActorId::Root, msg: ActorInputMessage::Ok { kind: ExecutionKind::Service, target_id, actual } })) =>
                if actual { p.insert(target_id) } else { p },
            _ => p,
        }
    }
}

pub open spec fn saw_error(log: Seq<REv>) -> bool
    decreases log.len()
{
    if log.len() == 0 { false } else {
        saw_error(log.drop_last()) || (log.last() matches REv::Out(Some(TargetActorOutputMessage::TargetExecutionError(_, _))))
    }
}

pub open spec fn saw_term(log: Seq<REv>) -> bool
    decreases log.len()
{
    if log.len() == 0 { false } else { saw_term(log.drop_last()) || log.last() is Term }
}

// ===========================================================================
// channel effects seen from the relay (A-chan)
// ===========================================================================
impl Sender<ActorInputMessage> {
    /// putting a message into an actor's inbox.  [C04.nonblocking] (DESIGN §5.5): in the cycle
    /// relay -> inbox -> actor -> relay channel one edge must never block, otherwise a full inbox plus
    /// a full relay channel is a deadlock that also swallows the termination signal; it is this one.
    #[verifier::external_body]
    pub fn send(&self, msg: ActorInputMessage, Tracked(tr): Tracked<&mut Trace>) -> (r: std::result::Result<(), SendError>)
        requires
            /*[C04.nonblocking,C10.signal]*/ !self.bounded(),
            old(tr).inbox_of.contains_key(self.chan()),
        ensures
            *final(tr) == (Trace { delivered: old(tr).delivered.push((old(tr).inbox_of[self.chan()], msg)), ..*old(tr) }),
    { unimplemented!() }
}
impl Sender<TerminationMessage> {
    #[verifier::external_body]
    pub fn send(&self, msg: TerminationMessage, Tracked(tr): Tracked<&mut Trace>) -> (r: std::result::Result<(), SendError>)
        requires old(tr).term_of.contains_key(self.chan()),
        ensures *final(tr) == (Trace { term_sent: old(tr).term_sent.insert(old(tr).term_of[self.chan()]), ..*old(tr) }),
    { unimplemented!() }
}
impl Receiver<TerminationMessage> {
    /// `recv().await` on the signal channel: returns once a termination signal (or the closing of the channel) arrived
    #[verifier::external_body]
    pub fn recv(&self, Tracked(tr): Tracked<&mut Trace>) -> (r: std::result::Result<TerminationMessage, RecvError>)
        ensures *final(tr) == (Trace { awaited_signal: true, term_seen: true, ..*old(tr) }),
    { unimplemented!() }
}
#[verifier::external_body]
pub struct RecvError { _p: () }

impl Clone for Sender<TargetActorOutputMessage> {
    #[verifier::external_body]
    fn clone(&self) -> (r: Self) ensures r.chan() == self.chan() { unimplemented!() }
}

// ===========================================================================
// actors, watcher, tasks — opaque in this unit; their own code is verified in ACT / WCH
// ===========================================================================
#[verifier::external_body]
pub struct TargetWatcher { _p: () }
#[verifier::external_body]
pub struct TargetActorHelper { _p: () }
#[verifier::external_body]
pub struct BuildTargetActor { _p: () }
#[verifier::external_body]
pub struct ServiceTargetActor { _p: () }
#[verifier::external_body]
pub struct AggregateTargetActor { _p: () }
#[verifier::external_body]
pub struct ActorFuture { _p: () }
#[verifier::external_body]
#[verifier::reject_recursive_types(T)]
pub struct JoinHandle<T> { _p: std::marker::PhantomData<T> }
impl<T> JoinHandle<T> {
    pub uninterp spec fn task(&self) -> int;
}

pub ghost struct HelperRec { pub meta: TargetMetadata, pub term: int, pub inval: int, pub inbox: int, pub out: int }
impl TargetActorHelper {
    pub uninterp spec fn rec(&self) -> HelperRec;
    /// contract of `TargetActorHelper::new` as far as wiring goes (its state contract is verified in ACT)
    #[verifier::external_body]
    pub fn new(target_metadata: &TargetMetadata, termination_events: Receiver<TerminationMessage>,
        target_invalidated_events: Receiver<TargetInvalidatedMessage>, target_actor_input_receiver: Receiver<ActorInputMessage>,
        target_actor_output_sender: Sender<TargetActorOutputMessage>) -> (r: Self)
        ensures r.rec() == (HelperRec { meta: *target_metadata, term: termination_events.chan(), inval: target_invalidated_events.chan(),
            inbox: target_actor_input_receiver.chan(), out: target_actor_output_sender.chan() }),
    { unimplemented!() }
}
pub ghost struct ActorRec { pub kind: int, pub id: TargetId, pub helper: HelperRec }
impl ActorFuture { pub uninterp spec fn rec(&self) -> ActorRec; }
impl BuildTargetActor {
    pub uninterp spec fn rec(&self) -> ActorRec;
    #[verifier::external_body]
    pub fn new(target: BuildTarget, h: TargetActorHelper) -> (r: Self)
        ensures r.rec() == (ActorRec { kind: 0, id: target.metadata.id, helper: h.rec() }),
    { unimplemented!() }
    #[verifier::external_body]
    pub fn run(self) -> (f: ActorFuture) ensures f.rec() == self.rec() { unimplemented!() }
}
impl ServiceTargetActor {
    pub uninterp spec fn rec(&self) -> ActorRec;
    #[verifier::external_body]
    pub fn new(target: ServiceTarget, h: TargetActorHelper) -> (r: Self)
        ensures r.rec() == (ActorRec { kind: 1, id: target.metadata.id, helper: h.rec() }),
    { unimplemented!() }
    #[verifier::external_body]
    pub fn run(self) -> (f: ActorFuture) ensures f.rec() == self.rec() { unimplemented!() }
}
impl AggregateTargetActor {
    pub uninterp spec fn rec(&self) -> ActorRec;
    #[verifier::external_body]
    pub fn new(target: AggregateTarget, h: TargetActorHelper) -> (r: Self)
        ensures r.rec() == (ActorRec { kind: 2, id: target.metadata.id, helper: h.rec() }),
    { unimplemented!() }
    #[verifier::external_body]
    pub fn run(self) -> (f: ActorFuture) ensures f.rec() == self.rec() { unimplemented!() }
}

/// `task::spawn(actor.run())`: the actor task exists from now on (A-exec)
#[verifier::external_body]
pub fn spawn_task(f: ActorFuture, Tracked(tr): Tracked<&mut Trace>) -> (j: JoinHandle<()>)
    ensures
        j.task() == old(tr).next_id,
        *final(tr) == (Trace {
            launched: old(tr).launched.push(LaunchRec { id: f.rec().id, kind: f.rec().kind, helper_meta: f.rec().helper.meta,
                inbox: f.rec().helper.inbox, term: f.rec().helper.term, inval: f.rec().helper.inval, out: f.rec().helper.out, task: old(tr).next_id }),
            inbox_of: old(tr).inbox_of.insert(f.rec().helper.inbox, f.rec().id),
            term_of: old(tr).term_of.insert(f.rec().helper.term, old(tr).next_id),
            next_id: old(tr).next_id + 1,
            ..*old(tr) }),
{ unimplemented!() }

/// `TargetWatcher::new` (verified in WCH): `Some` exactly when the target has inputs
#[verifier::external_body]
pub fn watcher_new(target_id: &TargetId, target_input: Option<&Resources>, sender: &Sender<TargetInvalidatedMessage>, Tracked(tr): Tracked<&mut Trace>) -> (r: Result<Option<TargetWatcher>>)
    ensures
        r matches Ok(w) ==> (w is Some <==> target_input is Some)
            && *final(tr) == (Trace { watchers: old(tr).watchers.push((*target_id, sender.chan())), ..*old(tr) }),
        r is Err ==> *final(tr) == *old(tr),
{ unimplemented!() }

/// `future::join_all(handles).await`
#[verifier::external_body]
pub fn join_all(v: Vec<JoinHandle<()>>, Tracked(tr): Tracked<&mut Trace>)
    ensures
        *final(tr) == (Trace { joined: old(tr).joined.union(v@.map_values(|h: JoinHandle<()>| h.task()).to_set()), ..*old(tr) }),
{ unimplemented!() }

/// `channel::bounded(cap)` / `channel::unbounded()` with a fresh channel identity
#[verifier::external_body]
pub fn bounded_ch<T>(cap: usize, Tracked(tr): Tracked<&mut Trace>) -> (r: (Sender<T>, Receiver<T>))
    ensures r.0.chan() == r.1.chan(), r.0.bounded(), !old(tr).chans.contains(r.0.chan()),
        *final(tr) == (Trace { chans: old(tr).chans.insert(r.0.chan()), ..*old(tr) }),
{ unimplemented!() }
#[verifier::external_body]
pub fn unbounded_ch<T>(Tracked(tr): Tracked<&mut Trace>) -> (r: (Sender<T>, Receiver<T>))
    ensures r.0.chan() == r.1.chan(), !r.0.bounded(), !old(tr).chans.contains(r.0.chan()),
        *final(tr) == (Trace { chans: old(tr).chans.insert(r.0.chan()), ..*old(tr) }),
{ unimplemented!() }

// ===========================================================================
// launch_target_actor
// ===========================================================================
//@fn src/engine/target_actor/mod.rs launch_target_actor ret=r
//@contract
    ensures
        r matches Ok((j, h)) ==> final(tr).launched == old(tr).launched.push(final(tr).launched.last()),
        r matches Ok((j, h)) ==> final(tr).launched.len() == old(tr).launched.len() + 1,
        /*[C08.launch-wiring,C01.relay]*/ r matches Ok((j, h)) ==> final(tr).launched.last().id == target.meta().id,
        /*[C08.launch-wiring]*/ r matches Ok((j, h)) ==> final(tr).launched.last().helper_meta == target.meta(),
        /*[C08.launch-wiring]*/ r matches Ok((j, h)) ==> final(tr).launched.last().kind == target.kind_no(),
        /*[C08.launch-wiring,C01.relay]*/ r matches Ok((j, h)) ==> final(tr).launched.last().inbox == h.target_actor_input_sender.chan(),
        /*[C08.launch-wiring,C10.terminate-all]*/ r matches Ok((j, h)) ==> final(tr).launched.last().term == h.termination_sender.chan(),
        /*[C08.launch-wiring]*/ r matches Ok((j, h)) ==> final(tr).launched.last().out == target_actor_output_sender.chan(),
        /*[C08.launch-wiring,C10.terminate-all]*/ r matches Ok((j, h)) ==> final(tr).launched.last().task == j.task(),
        /*[C04.nonblocking,C10.signal]*/ r matches Ok((j, h)) ==> !h.target_actor_input_sender.bounded(),
        r matches Ok((j, h)) ==> final(tr).inbox_of == old(tr).inbox_of.insert(h.target_actor_input_sender.chan(), target.meta().id),
        r matches Ok((j, h)) ==> final(tr).term_of == old(tr).term_of.insert(h.termination_sender.chan(), j.task()),
        /*[C08.no-inval-oneshot]*/ r matches Ok((j, h)) ==> (watch_option is Disabled ==> h._watcher is None && final(tr).watchers == old(tr).watchers),
        /*[C06.watch-inputs]*/ r matches Ok((j, h)) ==> (watch_option is Enabled ==> (h._watcher is Some <==> !(target is Aggregate))),
        /*[C06.watch-inputs]*/ r matches Ok((j, h)) ==> (h._watcher is Some ==> final(tr).watchers.len() > 0 && final(tr).watchers.last() == (target.meta().id, final(tr).launched.last().inval) && h._target_invalidated_sender.chan() == final(tr).launched.last().inval),
        r matches Ok((j, h)) ==> final(tr).delivered == old(tr).delivered && final(tr).term_sent == old(tr).term_sent && final(tr).joined == old(tr).joined,
        r matches Ok((j, h)) ==> final(tr).inlog == old(tr).inlog && final(tr).awaited_signal == old(tr).awaited_signal && final(tr).term_seen == old(tr).term_seen,
        r matches Ok((j, h)) ==> final(tr).next_id == old(tr).next_id + 1,
        r matches Ok((j, h)) ==> !old(tr).chans.contains(h.target_actor_input_sender.chan()) && !old(tr).chans.contains(h.termination_sender.chan()),
        r matches Ok((j, h)) ==> h.target_actor_input_sender.chan() != h.termination_sender.chan(),
        r matches Ok((j, h)) ==> old(tr).chans.subset_of(final(tr).chans) && final(tr).chans.contains(h.target_actor_input_sender.chan()) && final(tr).chans.contains(h.termination_sender.chan()),
        /*[C08.launch-once]*/ r is Err ==> final(tr).launched == old(tr).launched && final(tr).inbox_of == old(tr).inbox_of && final(tr).term_of == old(tr).term_of
            && final(tr).delivered == old(tr).delivered && final(tr).term_sent == old(tr).term_sent && final(tr).joined == old(tr).joined
            && final(tr).inlog == old(tr).inlog && final(tr).next_id == old(tr).next_id && old(tr).chans.subset_of(final(tr).chans),
//@end

//@include footer.rs
