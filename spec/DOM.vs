//@unit DOM
//@dropderive Debug,Serialize,Deserialize,Clone,Copy,PartialEq,Eq,Hash
//@include header.rs
//@include std_ext.rs

// ===========================================================================
// DOM unit (C19.parse): domain::TargetId::try_parse and try_parse_many on the text of /repo, over strings
// as character sequences.
//
// Assumed (A-str): `str::split(sep).collect::<Vec<_>>()` returns the pieces `split_spec(s, sep)`, of which
// only this is used: there is at least one piece, joining the pieces with the separator gives the text back,
// and no piece contains the separator (the documented meaning of `split` for a non-empty separator);
// `to_owned` copies the text.  Rule R20 turns the slice-pattern `match parts[..]` into a match on the length.
// ===========================================================================
pub type Text = Seq<char>;
/// "::"
pub open spec fn sep() -> Text { seq![':', ':'] }
pub open spec fn has_at(s: Text, p: Text, i: int) -> bool { 0 <= i && i + p.len() <= s.len() && s.subrange(i, i + p.len()) == p }
pub open spec fn contains_text(s: Text, p: Text) -> bool { exists|i: int| has_at(s, p, i) }
pub open spec fn join(parts: Seq<Text>, p: Text) -> Text
    decreases parts.len(),
{
    if parts.len() == 0 { Seq::empty() } else if parts.len() == 1 { parts[0] } else { join(parts.drop_last(), p) + p + parts.last() }
}
/// `s.split(p)` as the sequence of its pieces
pub uninterp spec fn split_spec(s: Text, p: Text) -> Seq<Text>;
/// A-str: the defining facts of `str::split` for a non-empty separator
pub broadcast axiom fn axiom_split(s: Text, p: Text)
    requires p.len() > 0,
    ensures
        (#[trigger] split_spec(s, p)).len() >= 1,
        join(split_spec(s, p), p) == s,
        forall|i: int| 0 <= i < split_spec(s, p).len() ==> !contains_text(#[trigger] split_spec(s, p)[i], p);

pub open spec fn texts(v: Seq<&str>) -> Seq<Text> { Seq::new(v.len(), |i: int| v[i]@) }
/// `target_name.split("::").collect::<Vec<_>>()` (A-str)
#[verifier::external_body]
pub fn split_collect<'a>(s: &'a str, p: &str) -> (r: Vec<&'a str>)
    ensures texts(r@) == split_spec(s@, p@),
{ unimplemented!() }

//@item src/domain.rs TargetId pubfields
impl Clone for TargetId {
    #[verifier::external_body]
    fn clone(&self) -> (r: Self) ensures r == *self { unimplemented!() }
}

/// [C19.parse] what a reference text denotes: no `::` -> the current project; one -> the named project;
/// more -> rejected
pub open spec fn parse_ref(text: Text, current: Option<String>) -> Option<(Option<Text>, Text)> {
    let parts = split_spec(text, sep());
    if parts.len() == 1 {
        Some((match current { Some(c) => Some(c@), None => None }, parts[0]))
    } else if parts.len() == 2 {
        Some((Some(parts[0]), parts[1]))
    } else {
        None
    }
}
pub open spec fn id_view(id: TargetId) -> (Option<Text>, Text) {
    (match id.project_name { Some(c) => Some(c@), None => None }, id.target_name@)
}

impl TargetId {
//@fn src/domain.rs TargetId::try_parse ret=r
//@lsubst Self => TargetId
//@replace `target_name.split("::").collect::<Vec<_>>()` => `split_collect(target_name, "::")` rule=R13 why=`str::split(..).collect() -> prelude stub returning the pieces (A-str)`
//@contract
    ensures
        /*[C19.parse,C09.ref-parse,C18.identity]*/ r matches Ok(id) ==> parse_ref(target_name@, *current_project) == Some(id_view(id)),
        /*[C19.parse,C09.ref-parse]*/ r is Err ==> parse_ref(target_name@, *current_project) is None,
//@pre
        broadcast use axiom_split;
        proof { reveal_strlit("::"); assert("::"@ =~= sep()); }
//@after 0 `let parts = `
        proof {
            assert(texts(parts@) == split_spec(target_name@, sep()));
            assert(parts@.len() == split_spec(target_name@, sep()).len());
            if parts@.len() >= 1 { assert(texts(parts@)[0] == parts@[0]@); }
            if parts@.len() >= 2 { assert(texts(parts@)[1] == parts@[1]@); }
        }
//@end
}

/// [C19.parse] consequences of the split facts, in the property's words
/// a name without `::` is a target of the current project, whatever that is
pub proof fn lemma_bare_name(text: Text, current: Option<String>)
    requires !contains_text(text, sep()),
    ensures /*[C19.parse]*/ parse_ref(text, current) == Some((match current { Some(c) => Some(c@), None => None }, text)),
{
    broadcast use axiom_split;
    let parts = split_spec(text, sep());
    if parts.len() >= 2 {
        lemma_join_contains(parts, sep());
        assert(contains_text(join(parts, sep()), sep()));
    }
    assert(join(parts, sep()) == parts[0]);
}
/// joining two or more pieces puts the separator into the result
pub proof fn lemma_join_contains(parts: Seq<Text>, p: Text)
    requires parts.len() >= 2,
    ensures contains_text(join(parts, p), p),
{
    let a = join(parts.drop_last(), p);
    let j = join(parts, p);
    assert(j == a + p + parts.last());
    assert(j.subrange(a.len() as int, (a.len() + p.len()) as int) =~= p);
    assert(has_at(j, p, a.len() as int));
}
/// `a::b` with separator-free halves is target b of project a
pub proof fn lemma_qualified_name(a: Text, b: Text, current: Option<String>)
    requires split_spec(a + sep() + b, sep()) == seq![a, b],
    ensures /*[C19.parse]*/ parse_ref(a + sep() + b, current) == Some((Some(a), b)),
{
}

/// vacuity probe for the assumed split facts
pub proof fn split_axiom_probe(text: Text, current: Option<String>)
    requires contains_text(text, sep()),
{
    broadcast use axiom_split;
    let parts = split_spec(text, sep());
    assert(parts.len() >= 1);
    /*VAC-PROBE: split axioms of the DOM unit*/
}

// ===========================================================================
// try_parse_many
// ===========================================================================
pub open spec fn parse_many(names: Seq<String>, current: Option<String>) -> Option<Seq<(Option<Text>, Text)>>
    decreases names.len(),
{
    if names.len() == 0 { Some(Seq::empty()) } else {
        match (parse_many(names.drop_last(), current), parse_ref(names.last()@, current)) {
            (Some(p), Some(id)) => Some(p.push(id)),
            _ => None,
        }
    }
}
pub open spec fn id_views(v: Seq<TargetId>) -> Seq<(Option<Text>, Text)> { Seq::new(v.len(), |i: int| id_view(v[i])) }
/// `names.iter().map(parse_one).collect::<Result<Vec<_>>>()` (A-all): the results in order when every
/// element gives Ok (each satisfying `parse_one`'s contract), the first Err otherwise
#[verifier::external_body]
pub fn map_collect_results(target_names: &[String], current_project: &Option<String>) -> (r: Result<Vec<TargetId>>)
    ensures
        r matches Ok(v) ==> parse_many(target_names@, *current_project) == Some(id_views(v@)),
        r is Err ==> parse_many(target_names@, *current_project) is None,
{ unimplemented!() }

impl TargetId {
//@fn src/domain.rs TargetId::try_parse_many#closure0 as=parse_one params=`target_name: &String, current_project: &Option<String>` bind rty=`Result<TargetId>` ret=r
//@lsubst Self::try_parse => TargetId::try_parse
//@contract
    ensures
        /*[C19.parse,C09.ref-parse,C18.identity]*/ r matches Ok(id) ==> parse_ref(target_name@, *current_project) == Some(id_view(id)),
        /*[C19.parse,C09.ref-parse]*/ r is Err ==> parse_ref(target_name@, *current_project) is None,
//@end
//@fn src/domain.rs TargetId::try_parse_many ret=r
//@lsubst Self => TargetId
//@closure 0 skeleton=`target_names .iter() .map(<CLOSURE>) .collect()` becomes=`map_collect_results(target_names, current_project)`
//@contract
    ensures
        /*[C19.parse,C09.ref-parse,C18.identity]*/ r matches Ok(v) ==> parse_many(target_names@, *current_project) == Some(id_views(v@)),
        /*[C19.parse,C09.ref-parse]*/ r is Err ==> parse_many(target_names@, *current_project) is None,
//@end
}

//@include footer.rs
