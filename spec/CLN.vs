//@unit CLN
//@ghost w World seeds=remove_file,remove_dir_all,exists,is_file,is_dir,list_files_in_paths,delete_saved_env_state,engine_run,terminate,terminate_on_ctrlc
//@dropderive Debug,Serialize,Deserialize,Clone,Copy
//@subst engine::run => engine_run
//@subst channel::bounded => bounded
//@include header.rs
//@include std_ext.rs
//@include chan.rs

// ===========================================================================
// domain types (verbatim from /repo)
// ===========================================================================
//@item src/domain.rs TargetId
//@item src/domain.rs TargetMetadata
//@item src/domain.rs BuildTarget
//@item src/domain.rs ServiceTarget
//@item src/domain.rs AggregateTarget
//@item src/domain.rs Target
//@item src/domain.rs FilesResource dropderive=PartialEq
//@item src/domain.rs FileExtensions
//@item src/domain.rs CmdResource dropderive=PartialEq
//@item src/domain.rs Resources dropderive=PartialEq
//@item src/main.rs TerminationMessage
//@item src/main.rs DEFAULT_CHANNEL_CAP
//@item src/engine/mod.rs WatchOption

#[verifier::external_body]
#[verifier::reject_recursive_types(T)]
pub struct BTreeSet<T> { _p: std::marker::PhantomData<T> }

pub broadcast axiom fn axiom_tid_key_model()
    ensures #[trigger] obeys_key_model::<TargetId>();
pub broadcast axiom fn axiom_path_key_model()
    ensures #[trigger] obeys_key_model::<PathBuf>();

impl Target {
//@fn src/domain.rs Target::metadata ret=r
//@contract
    ensures /*[C12.state]*/ *r == self.meta(),
//@end
//@fn src/domain.rs Target::output ret=r
//@contract
    ensures /*[C12.frame]*/ r == self.out(),
//@end
//@fn src/domain.rs Target::input ret=r
//@contract
    ensures r == self.inp(),
//@end
    pub open spec fn inp(&self) -> Option<&Resources> {
        match self { Target::Build(t) => Some(&t.input), Target::Service(t) => Some(&t.input), _ => None }
    }
    pub open spec fn meta(&self) -> TargetMetadata {
        match self {
            Target::Build(t) => t.metadata,
            Target::Service(t) => t.metadata,
            Target::Aggregate(t) => t.metadata,
        }
    }
    /// only build targets declare outputs
    pub open spec fn out(&self) -> Option<&Resources> {
        match self { Target::Build(t) => Some(&t.output), _ => None }
    }
}

/// async_std::path::Path
#[verifier::external_body]
pub struct Path { _p: () }
/// what a path is on disk (A-fs; links followed): the three probes of `clean_path` see the same answer as long as
/// nothing was deleted in between - the second argument is the number of deletions attempted so far
pub ghost enum PathKind { Absent, File, Dir, Other }
pub uninterp spec fn kind_at(p: PathBuf, deletions_so_far: nat) -> PathKind;
impl Path {
    pub uninterp spec fn buf(&self) -> PathBuf;
    #[verifier::external_body]
    pub fn exists(&self, Tracked(w): Tracked<&mut World>) -> (r: bool)
        ensures *final(w) == (World { probed: old(w).probed.push(self.buf()), ..*old(w) }),
            r == !(kind_at(self.buf(), old(w).deleted.len()) is Absent),
    { unimplemented!() }
    #[verifier::external_body]
    pub fn is_file(&self, Tracked(w): Tracked<&mut World>) -> (r: bool) ensures *final(w) == *old(w), r == (kind_at(self.buf(), old(w).deleted.len()) is File) { unimplemented!() }
    #[verifier::external_body]
    pub fn is_dir(&self, Tracked(w): Tracked<&mut World>) -> (r: bool) ensures *final(w) == *old(w), r == (kind_at(self.buf(), old(w).deleted.len()) is Dir) { unimplemented!() }
    #[verifier::external_body]
    pub fn display(&self) -> u8 { unimplemented!() }
}
impl std::ops::Deref for PathBuf {
    type Target = Path;
    #[verifier::external_body]
    fn deref(&self) -> (r: &Path) ensures r.buf() == *self { unimplemented!() }
}
impl PathBuf {
    #[verifier::external_body]
    pub fn into(self) -> (r: PathBuf) ensures r == self { unimplemented!() }
    #[verifier::external_body]
    pub fn display(&self) -> u8 { unimplemented!() }
}

// ===========================================================================
// ghost world: the deletion log (DESIGN §7 C12)
// ===========================================================================
pub ghost enum Del {
    /// `fs::remove_file(p)`
    File(PathBuf),
    /// `fs::remove_dir_all(p)` (A-fs: removes the tree below p, does not follow symbolic links)
    DirAll(PathBuf),
    /// the state file of a target (`delete_saved_env_state`)
    State(TargetMetadata),
}
pub ghost enum Step { Run, Terminate }
pub tracked struct World {
    pub ghost deleted: Seq<Del>,
    /// paths whose existence was probed by `clean_path`
    pub ghost probed: Seq<PathBuf>,
    /// engine steps of the main block
    pub ghost steps: Seq<Step>,
    pub ghost run_failed: bool,
    /// the configuration was loaded and the requested targets resolved (set by a ghost assignment in `main` right after `try_into_domain_targets` returned Ok)
    pub ghost resolved: bool,
}
/// the files the listing denotes for an output resource with extensions (A-fs; the same function feeds the checksums)
pub uninterp spec fn listing(paths: Seq<PathBuf>, e: FileExtensions) -> Set<PathBuf>;
/// `<project_dir>/.zinoma`
pub uninterp spec fn work_dir_of(project_dir: PathBuf) -> PathBuf;

/// `crate::fs::list_files_in_paths` and the walk behind it (A-fs): real signatures, bodies not verified
//@fn src/fs.rs list_files_in_paths assumed ret=r
//@contract
    ensures *final(w) == *old(w), r@ == listing(paths@, *extensions),
//@end
//@fn src/fs.rs list_files_in_path assumed ret=r
//@lsubst Path => PathBuf
//@contract
    ensures true,
//@end
#[verifier::external_body]
pub struct IoError { _p: () }
pub enum ErrorKind { NotFound, PermissionDenied, Other }
impl PartialEq for ErrorKind {
    #[verifier::external_body]
    fn eq(&self, o: &ErrorKind) -> (r: bool) ensures r == (*self == *o) { unimplemented!() }
}
impl IoError {
    #[verifier::external_body]
    pub fn kind(&self) -> ErrorKind { unimplemented!() }
}
impl Error {
    #[verifier::external_body]
    pub fn new(e: IoError) -> Error { unimplemented!() }
}
/// `async_std::fs::remove_file` — logged whether or not it succeeds
#[verifier::external_body]
pub fn remove_file(p: &Path, Tracked(w): Tracked<&mut World>) -> (r: std::result::Result<(), IoError>)
    ensures *final(w) == (World { deleted: old(w).deleted.push(Del::File(p.buf())), ..*old(w) }),
{ unimplemented!() }
/// `async_std::fs::remove_dir_all`
#[verifier::external_body]
pub fn remove_dir_all(p: &Path, Tracked(w): Tracked<&mut World>) -> (r: std::result::Result<(), IoError>)
    ensures *final(w) == (World { deleted: old(w).deleted.push(Del::DirAll(p.buf())), ..*old(w) }),
{ unimplemented!() }

/// [C12.frame] a deletion allowed while cleaning the outputs of `t`
pub open spec fn allowed_out(t: Target, d: Del) -> bool {
    t.out() matches Some(o) && allowed_in(o.files@, d)
}
pub open spec fn allowed_in(rs: Seq<FilesResource>, d: Del) -> bool {
    exists|i: int| 0 <= i < rs.len() && #[trigger] allowed_res(rs[i], d)
}
pub open spec fn allowed_res(res: FilesResource, d: Del) -> bool {
    if res.extensions is Some {
        // extension-filtered outputs: matching files only
        d matches Del::File(f) && listing(res.paths@, res.extensions).contains(f)
    } else {
        // plain outputs: the declared path itself
        (d matches Del::File(p) && res.paths@.contains(p)) || (d matches Del::DirAll(p) && res.paths@.contains(p))
    }
}
pub open spec fn new_dels_allowed(d0: Seq<Del>, d1: Seq<Del>, t: Target) -> bool {
    &&& d0.len() <= d1.len() && d1.subrange(0, d0.len() as int) =~= d0
    &&& forall|j: int| d0.len() <= j < d1.len() ==> allowed_out(t, #[trigger] d1[j])
}

pub proof fn lemma_push_allowed(d0: Seq<Del>, d1: Seq<Del>, t: Target, x: Del)
    requires new_dels_allowed(d0, d1, t), allowed_out(t, x),
    ensures new_dels_allowed(d0, d1.push(x), t),
{
    assert(d1.push(x).subrange(0, d0.len() as int) =~= d1.subrange(0, d0.len() as int));
}

/// [C12.deletes] the output resource has been dealt with: every file its listing denotes was handed to `remove_file`
/// (extension-filtered outputs); every declared path was probed by `clean_path`, which removes what it finds (plain outputs)
pub open spec fn res_cleaned(res: FilesResource, deleted: Seq<Del>, probed: Seq<PathBuf>) -> bool {
    if res.extensions is Some {
        forall|f: PathBuf| #![trigger listing(res.paths@, res.extensions).contains(f)] listing(res.paths@, res.extensions).contains(f) ==> deleted.contains(Del::File(f))
    } else {
        forall|i: int| 0 <= i < res.paths@.len() ==> probed.contains(#[trigger] res.paths@[i])
    }
}
/// `a` is a prefix of `b` (logs only grow)
pub open spec fn grows<A>(a: Seq<A>, b: Seq<A>) -> bool { a.len() <= b.len() && b.subrange(0, a.len() as int) =~= a }
pub proof fn lemma_grows_contains<A>(a: Seq<A>, b: Seq<A>, x: A)
    requires grows(a, b), a.contains(x),
    ensures b.contains(x),
{
    let i = choose|i: int| 0 <= i < a.len() && a[i] == x;
    assert(b.subrange(0, a.len() as int)[i] == b[i]);
}
pub proof fn lemma_grows_trans<A>(a: Seq<A>, b: Seq<A>, c: Seq<A>)
    requires grows(a, b), grows(b, c),
    ensures grows(a, c),
{
    assert forall|i: int| 0 <= i < a.len() implies c.subrange(0, a.len() as int)[i] == a[i] by {
        assert(b.subrange(0, a.len() as int)[i] == b[i]);
        assert(c.subrange(0, b.len() as int)[i] == c[i]);
    }
}
pub broadcast proof fn lemma_take_all<A>(s: Seq<A>)
    ensures #[trigger] s.take(s.len() as int) == s
{
    assert(s.take(s.len() as int) =~= s);
}
pub proof fn lemma_cleaned_grows(res: FilesResource, d: Seq<Del>, p: Seq<PathBuf>, d2: Seq<Del>, p2: Seq<PathBuf>)
    requires res_cleaned(res, d, p), grows(d, d2), grows(p, p2),
    ensures res_cleaned(res, d2, p2),
{
    if res.extensions is Some {
        assert forall|f: PathBuf| #![trigger listing(res.paths@, res.extensions).contains(f)] listing(res.paths@, res.extensions).contains(f) implies d2.contains(Del::File(f)) by {
            lemma_grows_contains(d, d2, Del::File(f));
        }
    } else {
        assert forall|i: int| 0 <= i < res.paths@.len() implies p2.contains(#[trigger] res.paths@[i]) by {
            lemma_grows_contains(p, p2, res.paths@[i]);
        }
    }
}

// ===========================================================================
// clean.rs, work_dir.rs
// ===========================================================================
//@fn src/clean.rs clean_path ret=r
//@contract
    ensures
        final(w).steps == old(w).steps, final(w).run_failed == old(w).run_failed, final(w).resolved == old(w).resolved,
        /*[C12.complete]*/ final(w).probed == old(w).probed.push(path.buf()),
        /*[C12.frame]*/ final(w).deleted == old(w).deleted || final(w).deleted == old(w).deleted.push(Del::File(path.buf())) || final(w).deleted == old(w).deleted.push(Del::DirAll(path.buf())),
        // and it does delete: a declared output that is a file is removed as a file, a directory with everything below it
        /*[C12.deletes]*/ kind_at(path.buf(), old(w).deleted.len()) is File ==> final(w).deleted == old(w).deleted.push(Del::File(path.buf())),
        /*[C12.deletes]*/ kind_at(path.buf(), old(w).deleted.len()) is Dir ==> final(w).deleted == old(w).deleted.push(Del::DirAll(path.buf())),
        /*[C12.deletes]*/ kind_at(path.buf(), old(w).deleted.len()) is Absent || kind_at(path.buf(), old(w).deleted.len()) is Other ==> final(w).deleted == old(w).deleted,
//@end

//@fn src/clean.rs clean_target_output_paths ret=r
//@contract
    ensures
        final(w).steps == old(w).steps, final(w).run_failed == old(w).run_failed, final(w).resolved == old(w).resolved,
        /*[C12.frame]*/ new_dels_allowed(old(w).deleted, final(w).deleted, *target),
        /*[C12.frame]*/ target.out() is None ==> final(w).deleted == old(w).deleted,
        /*[C12.deletes]*/ r is Ok ==> (target.out() matches Some(o) ==> forall|i: int| 0 <= i < o.files@.len() ==> res_cleaned(#[trigger] o.files@[i], final(w).deleted, final(w).probed)),
        /*[C12.outputs-all]*/ r is Ok ==> grows(old(w).probed, final(w).probed),
//@pre
        broadcast use axiom_path_key_model;
        broadcast use vstd::std_specs::hash::group_hash_axioms;
        let ghost d0 = w.deleted;
//@loop 0 binder=it0
            invariant
                w.steps == old(w).steps, w.run_failed == old(w).run_failed, w.resolved == old(w).resolved,
                /*[C12.frame]*/ target.out() == Some(output),
                it0.seq().unref() == output.files@,
                new_dels_allowed(old(w).deleted, w.deleted, *target),
                /*[C12.outputs-all]*/ grows(old(w).probed, w.probed),
                /*[C12.deletes]*/ forall|i: int| 0 <= i < it0.index@ ==> res_cleaned(#[trigger] output.files@[i], w.deleted, w.probed),
//@loopbody
            broadcast use axiom_path_key_model;
            broadcast use vstd::std_specs::hash::group_hash_axioms;
            proof { assert(it0.seq().unref()[it0.index@ as int] == *resource); }
            let ghost d_it = w.deleted;
            let ghost p_it = w.probed;
//@loop 1 binder=it1 set-owned
                    invariant
                        w.steps == old(w).steps, w.run_failed == old(w).run_failed, w.resolved == old(w).resolved,
                        target.out() == Some(output),
                        0 <= it0.index@ < output.files@.len() && output.files@[it0.index@ as int] == *resource,
                        /*[C12.frame]*/ resource.extensions is Some,
                        /*[C15.same-listing]*/ it1.seq().unref().to_set() == listing(resource.paths@, resource.extensions),
                        new_dels_allowed(old(w).deleted, w.deleted, *target),
                        grows(d_it, w.deleted), w.probed == p_it,
                        forall|i: int| 0 <= i < it0.index@ ==> res_cleaned(#[trigger] output.files@[i], d_it, p_it),
                        handled == it1.seq().unref().take(it1.index@ as int),
                        /*[C12.deletes]*/ forall|j: int| 0 <= j < handled.len() ==> w.deleted.contains(Del::File(#[trigger] handled[j])),
//@loopbody
                    broadcast use axiom_path_key_model;
                    broadcast use vstd::std_specs::hash::group_hash_axioms;
                    let ghost d_b1 = w.deleted;
                    proof {
                        assert(it1.seq().unref()[it1.index@ as int] == *file__ref);
                        assert(it1.seq().unref().to_set().contains(*file__ref));
                        assert(allowed_res(output.files@[it0.index@ as int], Del::File(*file__ref)));
                        assert(allowed_out(*target, Del::File(*file__ref)));
                        lemma_push_allowed(old(w).deleted, w.deleted, *target, Del::File(*file__ref));
                    }
//@after 0 `fs::remove_file(&file)`
                    proof {
                        // [C12.deletes] the file just handed to remove_file is in the log; the earlier ones still are
                        assert(w.deleted == d_b1.push(Del::File(*file__ref)));
                        assert(w.deleted[d_b1.len() as int] == Del::File(*file__ref));
                        assert(grows(d_b1, w.deleted));
                        lemma_grows_trans(d_it, d_b1, w.deleted);
                        let ghost h0 = handled;
                        handled = handled.push(*file__ref);
                        assert(handled =~= it1.seq().unref().take(it1.index@ as int + 1));
                        assert forall|j: int| 0 <= j < handled.len() implies w.deleted.contains(Del::File(#[trigger] handled[j])) by {
                            if j < h0.len() {
                                lemma_grows_contains(d_b1, w.deleted, Del::File(h0[j]));
                            }
                        }
                    }
//@loop 2 binder=it2
                    invariant
                        w.steps == old(w).steps, w.run_failed == old(w).run_failed, w.resolved == old(w).resolved,
                        target.out() == Some(output),
                        0 <= it0.index@ < output.files@.len() && output.files@[it0.index@ as int] == *resource,
                        /*[C12.frame]*/ resource.extensions is None,
                        it2.seq().unref() == resource.paths@,
                        new_dels_allowed(old(w).deleted, w.deleted, *target),
                        grows(d_it, w.deleted), grows(p_it, w.probed),
                        forall|i: int| 0 <= i < it0.index@ ==> res_cleaned(#[trigger] output.files@[i], d_it, p_it),
                        /*[C12.deletes]*/ forall|j: int| 0 <= j < it2.index@ ==> w.probed.contains(#[trigger] resource.paths@[j]),
//@loopbody
                    let ghost d_b2 = w.deleted;
                    let ghost p_b2 = w.probed;
                    proof {
                        assert(it2.seq().unref()[it2.index@ as int] == *output_path);
                        assert(resource.paths@.contains(*output_path));
                        assert(allowed_res(output.files@[it0.index@ as int], Del::File(*output_path)));
                        assert(allowed_res(output.files@[it0.index@ as int], Del::DirAll(*output_path)));
                        assert(allowed_out(*target, Del::File(*output_path)));
                        assert(allowed_out(*target, Del::DirAll(*output_path)));
                        lemma_push_allowed(old(w).deleted, w.deleted, *target, Del::File(*output_path));
                        lemma_push_allowed(old(w).deleted, w.deleted, *target, Del::DirAll(*output_path));
                    }
//@after 0 `clean_path(output_path)`
                    proof {
                        assert(w.probed == p_b2.push(*output_path));
                        assert(w.probed[p_b2.len() as int] == *output_path);
                        assert(grows(p_b2, w.probed));
                        assert(grows(d_b2, w.deleted));
                        lemma_grows_trans(p_it, p_b2, w.probed);
                        lemma_grows_trans(d_it, d_b2, w.deleted);
                        assert forall|j: int| 0 <= j < it2.index@ + 1 implies w.probed.contains(#[trigger] resource.paths@[j]) by {
                            if j < it2.index@ {
                                lemma_grows_contains(p_b2, w.probed, resource.paths@[j]);
                            }
                        }
                    }
//@before 0 `for file in resource_files`
                    let ghost mut handled: Seq<PathBuf> = Seq::empty();
//@after 0 `for file in resource_files`
                    proof {
                        // [C12.deletes] every file of the listing went through remove_file
                        broadcast use lemma_take_all;
                        assert(handled.to_set() =~= listing(resource.paths@, resource.extensions));
                        assert forall|f: PathBuf| #![trigger listing(resource.paths@, resource.extensions).contains(f)] listing(resource.paths@, resource.extensions).contains(f) implies w.deleted.contains(Del::File(f)) by {
                            assert(handled.to_set().contains(f));
                            let j = choose|j: int| 0 <= j < handled.len() && handled[j] == f;
                            assert(w.deleted.contains(Del::File(handled[j])));
                        }
                        assert(res_cleaned(*resource, w.deleted, w.probed));
                    }
//@after 0 `for output_path in &resource.paths`
                    proof { assert(res_cleaned(*resource, w.deleted, w.probed)); }
//@after 0 `if resource.extensions.is_`
            proof {
                // [C12.deletes] this resource is dealt with, and the earlier ones stay dealt with (the logs only grew)
                assert(grows(d_it, w.deleted) && grows(p_it, w.probed));
                lemma_grows_trans(old(w).probed, p_it, w.probed);
                assert(res_cleaned(*resource, w.deleted, w.probed));
                assert forall|i: int| 0 <= i < it0.index@ + 1 implies res_cleaned(#[trigger] output.files@[i], w.deleted, w.probed) by {
                    if i < it0.index@ {
                        lemma_cleaned_grows(output.files@[i], d_it, p_it, w.deleted, w.probed);
                    }
                }
            }
//@end

/// `work_dir::get_work_dir_path`: `<project_dir>/.zinoma` (path join: assumed)
//@fn src/work_dir.rs get_work_dir_path assumed ret=r
//@contract
    ensures r == work_dir_of(project_dir.buf()),
//@end

//@fn src/work_dir.rs remove_work_dir ret=r
//@contract
    ensures
        final(w).steps == old(w).steps, final(w).run_failed == old(w).run_failed, final(w).resolved == old(w).resolved, final(w).probed == old(w).probed,
        /*[C12.frame,C12.state]*/ final(w).deleted == old(w).deleted.push(Del::DirAll(work_dir_of(project_dir.buf()))),
//@end

// ===========================================================================
// the async block of main(): clean, then run the engine, then terminate
// ===========================================================================
#[verifier::external_body]
pub struct ArgMatches { _p: () }
impl ArgMatches {
    pub uninterp spec fn has(&self, name: Seq<char>) -> bool;
    #[verifier::external_body]
    pub fn is_present(&self, name: &str) -> (r: bool) ensures r == self.has(name@) { unimplemented!() }
}
pub const CLEAN: &'static str = "clean";
pub const WATCH: &'static str = "watch";
#[verifier::external_body]
pub struct TargetActors { _p: () }
#[verifier::external_body]
pub struct TargetActorOutputMessage { _p: () }
impl TargetActors {
    #[verifier::external_body]
    pub fn new(targets: HashMap<TargetId, Target>, sender: Sender<TargetActorOutputMessage>, watch_option: WatchOption) -> TargetActors { unimplemented!() }
    /// verified in RELAY ([C10.terminate-all])
    #[verifier::external_body]
    pub fn terminate(self, Tracked(w): Tracked<&mut World>)
        ensures *final(w) == (World { steps: old(w).steps.push(Step::Terminate), ..*old(w) }),
    { unimplemented!() }
}
/// `engine::run` (verified in RELAY)
#[verifier::external_body]
pub fn engine_run(roots: Vec<TargetId>, watch_option: WatchOption, ta: &mut TargetActors, term: Receiver<TerminationMessage>, events: Receiver<TargetActorOutputMessage>, Tracked(w): Tracked<&mut World>) -> (r: Result<()>)
    ensures *final(w) == (World { steps: old(w).steps.push(Step::Run), run_failed: r is Err, ..*old(w) }),
{ unimplemented!() }
#[verifier::external_body]
pub fn terminate_on_ctrlc(Tracked(w): Tracked<&mut World>) -> (r: Result<Receiver<TerminationMessage>>)
    ensures *final(w) == *old(w),
{ unimplemented!() }
/// `storage::delete_saved_env_state` (verified in INC: removes exactly the target's own state file)
#[verifier::external_body]
pub fn delete_saved_env_state(target: &TargetMetadata, Tracked(w): Tracked<&mut World>) -> (r: Result<()>)
    ensures *final(w) == (World { deleted: old(w).deleted.push(Del::State(*target)), ..*old(w) }),
{ unimplemented!() }

impl WatchOption {
//@fn src/engine/mod.rs WatchOption::from ret=r
//@lsubst Self => WatchOption
//@contract
    ensures /*[C06.watch-mode]*/ value ==> r is Enabled, /*[C06.watch-mode]*/ !value ==> r is Disabled,
//@end
}
impl Clone for WatchOption {
    #[verifier::external_body]
    fn clone(&self) -> (r: Self) ensures r == *self { unimplemented!() }
}
impl Copy for WatchOption {}

/// [C12.scope] a deletion allowed for the invocation: an output of a target of the resolved map; with
/// `--clean T...` the state file of such a target; with `--clean` alone the `.zinoma` of a loaded project
pub open spec fn allowed_any(ts: Map<TargetId, Target>, dirs: Seq<PathBuf>, named: bool, d: Del) -> bool {
    ||| exists|id: TargetId| ts.contains_key(id) && #[trigger] allowed_out(ts[id], d)
    ||| named && exists|id: TargetId| ts.contains_key(id) && d == Del::State(#[trigger] ts[id].meta())
    ||| !named && exists|i: int| 0 <= i < dirs.len() && d == Del::DirAll(work_dir_of(#[trigger] dirs[i]))
}
pub open spec fn all_new_any(d0: Seq<Del>, d1: Seq<Del>, ts: Map<TargetId, Target>, dirs: Seq<PathBuf>, named: bool) -> bool {
    &&& d0.len() <= d1.len() && d1.subrange(0, d0.len() as int) =~= d0
    &&& forall|j: int| d0.len() <= j < d1.len() ==> allowed_any(ts, dirs, named, #[trigger] d1[j])
}
pub proof fn lemma_any_push(d0: Seq<Del>, d1: Seq<Del>, ts: Map<TargetId, Target>, dirs: Seq<PathBuf>, named: bool, x: Del)
    requires all_new_any(d0, d1, ts, dirs, named), allowed_any(ts, dirs, named, x),
    ensures all_new_any(d0, d1.push(x), ts, dirs, named),
{
    assert(d1.push(x).subrange(0, d0.len() as int) =~= d1.subrange(0, d0.len() as int));
}
/// [C12.workdirs-all] the work directory of every loaded project has been handed to `remove_dir_all`
pub open spec fn all_workdirs_deleted(d: Seq<Del>, dirs: Seq<PathBuf>) -> bool {
    forall|j: int| 0 <= j < dirs.len() ==> d.contains(Del::DirAll(work_dir_of(#[trigger] dirs[j])))
}
pub proof fn lemma_workdirs_grow(d1: Seq<Del>, d2: Seq<Del>, dirs: Seq<PathBuf>)
    requires grows(d1, d2), all_workdirs_deleted(d1, dirs),
    ensures all_workdirs_deleted(d2, dirs),
{
    assert forall|j: int| 0 <= j < dirs.len() implies d2.contains(Del::DirAll(work_dir_of(#[trigger] dirs[j]))) by {
        lemma_grows_contains(d1, d2, Del::DirAll(work_dir_of(dirs[j])));
    }
}
/// [C12.outputs-all] every output resource of the target has been dealt with
pub open spec fn outputs_cleaned(t: Target, d: Seq<Del>, p: Seq<PathBuf>) -> bool {
    t.out() matches Some(o) ==> forall|i: int| 0 <= i < o.files@.len() ==> res_cleaned(#[trigger] o.files@[i], d, p)
}
pub open spec fn all_outputs_cleaned(ts: Map<TargetId, Target>, d: Seq<Del>, p: Seq<PathBuf>) -> bool {
    forall|id: TargetId| ts.contains_key(id) ==> outputs_cleaned(#[trigger] ts[id], d, p)
}
pub proof fn lemma_outputs_grow(t: Target, d: Seq<Del>, p: Seq<PathBuf>, d2: Seq<Del>, p2: Seq<PathBuf>)
    requires outputs_cleaned(t, d, p), grows(d, d2), grows(p, p2),
    ensures outputs_cleaned(t, d2, p2),
{
    if let Some(o) = t.out() {
        assert forall|i: int| 0 <= i < o.files@.len() implies res_cleaned(#[trigger] o.files@[i], d2, p2) by {
            lemma_cleaned_grows(o.files@[i], d, p, d2, p2);
        }
    }
}
/// [C12.state-all] the state record of every target of the resolved map has been handed to `delete_saved_env_state`
pub open spec fn all_states_deleted(d: Seq<Del>, ts: Map<TargetId, Target>) -> bool {
    forall|id: TargetId| ts.contains_key(id) ==> d.contains(Del::State(#[trigger] ts[id].meta()))
}
pub proof fn lemma_push_keeps(d: Seq<Del>, x: Del)
    ensures d.push(x).contains(x), forall|y: Del| d.contains(y) ==> #[trigger] d.push(x).contains(y),
{
    assert(d.push(x)[d.len() as int] == x);
    assert forall|y: Del| d.contains(y) implies #[trigger] d.push(x).contains(y) by {
        let i = choose|i: int| 0 <= i < d.len() && d[i] == y;
        assert(d.push(x)[i] == y);
    }
}
pub proof fn lemma_extension_keeps(d1: Seq<Del>, d2: Seq<Del>, ts: Map<TargetId, Target>)
    requires d1.len() <= d2.len(), d2.subrange(0, d1.len() as int) =~= d1, all_states_deleted(d1, ts),
    ensures all_states_deleted(d2, ts),
{
    assert forall|id: TargetId| ts.contains_key(id) implies d2.contains(Del::State(#[trigger] ts[id].meta())) by {
        let y = Del::State(ts[id].meta());
        let i = choose|i: int| 0 <= i < d1.len() && d1[i] == y;
        assert(d2.subrange(0, d1.len() as int)[i] == d2[i]);
    }
}
pub proof fn lemma_any_extend(d0: Seq<Del>, d1: Seq<Del>, d2: Seq<Del>, ts: Map<TargetId, Target>, dirs: Seq<PathBuf>, named: bool, id: TargetId)
    requires all_new_any(d0, d1, ts, dirs, named), ts.contains_key(id), new_dels_allowed(d1, d2, ts[id]),
    ensures all_new_any(d0, d2, ts, dirs, named),
{
    assert(d2.subrange(0, d0.len() as int) =~= d2.subrange(0, d1.len() as int).subrange(0, d0.len() as int));
    assert forall|j: int| d0.len() <= j < d2.len() implies allowed_any(ts, dirs, named, #[trigger] d2[j]) by {
        if j < d1.len() {
            assert(d2.subrange(0, d1.len() as int)[j] == d1[j]);
        } else {
            assert(allowed_out(ts[id], d2[j]));
        }
    }
}

//@fn src/main.rs main#closure1 as=main_block params=`arg_matches: &ArgMatches, requested_targets: &Option<Vec<String>>, targets: HashMap<TargetId, Target>, project_dirs: Vec<PathBuf>, root_target_ids: Vec<TargetId>` rty=`Result<()>` ret=r
//@attr #[verifier::loop_isolation(false)]
//@replace `arg_matches.is_present(cli::arg::WATCH).into()` => `WatchOption::from(arg_matches.is_present(cli::arg::WATCH))` rule=R15 pre why=`bool.into() written as the From impl it resolves to (impl From<bool> for WatchOption, extracted above)`
//@contract
    requires
        old(w).steps.len() == 0, !old(w).run_failed,
        forall|id: TargetId| #![trigger targets@[id]] targets@.contains_key(id) ==> targets@[id].meta().id == id,
    ensures
        final(w).resolved == old(w).resolved,
        /*[C12.off]*/ !arg_matches.has(CLEAN@) ==> final(w).deleted == old(w).deleted,
        /*[C12.scope,C12.frame,C08.clean-scope]*/ all_new_any(old(w).deleted, final(w).deleted, targets@, project_dirs@, requested_targets is Some),
        /*[C10.main-order,C11.stop-at-exit,C07.exit-clean]*/ final(w).steps.len() > 0 ==> final(w).steps =~= seq![Step::Run, Step::Terminate],
        /*[C07.exit]*/ final(w).run_failed ==> r is Err,
        /*[C12.scope]*/ requested_targets is None ==> final(w).steps.len() == 0,
        /*[C12.state-all,C20.clean-through]*/ (arg_matches.has(CLEAN@) && final(w).steps.len() > 0) ==> all_states_deleted(final(w).deleted, targets@),
        /*[C12.workdirs-all]*/ (arg_matches.has(CLEAN@) && requested_targets is None && r is Ok) ==> all_workdirs_deleted(final(w).deleted, project_dirs@),
        /*[C12.outputs-all,C20.clean-through]*/ (arg_matches.has(CLEAN@) && (r is Ok || final(w).steps.len() > 0)) ==> all_outputs_cleaned(targets@, final(w).deleted, final(w).probed),
//@pre
        broadcast use axiom_tid_key_model;
        broadcast use axiom_path_key_model;
        broadcast use vstd::std_specs::hash::group_hash_axioms;
        let ghost ts = targets@;
        let ghost dirs = project_dirs@;
        let ghost named = requested_targets is Some;
//@loop 0 binder=it0
                    invariant
                        ts == targets@, w.steps.len() == 0, !w.run_failed, w.resolved == old(w).resolved,
                        /*[C12.scope]*/ named,
                        it0.seq().unref().to_set() == targets@.values(),
                        all_new_any(old(w).deleted, w.deleted, ts, dirs, named),
                        /*[C12.state-all,C20.clean-through]*/ forall|j: int| 0 <= j < it0.index@ ==> w.deleted.contains(Del::State((#[trigger] it0.seq().unref()[j]).meta())),
//@loopbody
                    broadcast use axiom_tid_key_model;
                    broadcast use vstd::std_specs::hash::group_hash_axioms;
                    proof {
                        assert(it0.seq().unref()[it0.index@ as int] == *target);
                        assert(targets@.values().contains(*target));
                        let id = choose|id: TargetId| targets@.contains_key(id) && targets@[id] == *target;
                        lemma_any_push(old(w).deleted, w.deleted, ts, dirs, named, Del::State(ts[id].meta()));
                        lemma_push_keeps(w.deleted, Del::State(ts[id].meta()));
                    }
//@loop 1 binder=it1
                    invariant
                        ts == targets@, w.steps.len() == 0, !w.run_failed, w.resolved == old(w).resolved,
                        /*[C12.scope]*/ !named,
                        it1.seq() == dirs,
                        all_new_any(old(w).deleted, w.deleted, ts, dirs, named),
                        /*[C12.workdirs-all]*/ forall|j: int| 0 <= j < it1.index@ ==> w.deleted.contains(Del::DirAll(work_dir_of(#[trigger] dirs[j]))),
//@loopbody
                    proof {
                        assert(dirs[it1.index@ as int] == project_dir);
                        lemma_any_push(old(w).deleted, w.deleted, ts, dirs, named, Del::DirAll(work_dir_of(dirs[it1.index@ as int])));
                        lemma_push_keeps(w.deleted, Del::DirAll(work_dir_of(dirs[it1.index@ as int])));
                    }
//@loop 2 binder=it2
                invariant
                    ts == targets@, w.steps.len() == 0, !w.run_failed, w.resolved == old(w).resolved,
                    it2.seq().unref().to_set() == targets@.values(),
                    all_new_any(old(w).deleted, w.deleted, ts, dirs, named),
                    /*[C12.state-all,C20.clean-through]*/ named ==> all_states_deleted(w.deleted, ts),
                    /*[C12.workdirs-all]*/ !named ==> all_workdirs_deleted(w.deleted, dirs),
                    /*[C12.outputs-all,C20.clean-through]*/ forall|j: int| 0 <= j < it2.index@ ==> outputs_cleaned(#[trigger] it2.seq().unref()[j], w.deleted, w.probed),
//@loopbody
                broadcast use axiom_tid_key_model;
                broadcast use vstd::std_specs::hash::group_hash_axioms;
                let ghost d1 = w.deleted;
                let ghost p1 = w.probed;
                proof {
                    assert(it2.seq().unref()[it2.index@ as int] == *target);
                    assert(targets@.values().contains(*target));
                    let id = choose|id: TargetId| targets@.contains_key(id) && targets@[id] == *target;
                    assert forall|d2: Seq<Del>| #[trigger] new_dels_allowed(d1, d2, *target) implies all_new_any(old(w).deleted, d2, ts, dirs, named) by {
                        lemma_any_extend(old(w).deleted, d1, d2, ts, dirs, named, id);
                    }
                    assert forall|d2: Seq<Del>| #[trigger] new_dels_allowed(d1, d2, *target) && all_states_deleted(d1, ts) implies all_states_deleted(d2, ts) by {
                        lemma_extension_keeps(d1, d2, ts);
                    }
                }
//@after 0 `clean_target_output_paths(target)`
                proof {
                    // [C12.outputs-all] this target is dealt with, and the earlier ones stay dealt with (the logs only grew)
                    assert(grows(d1, w.deleted) && grows(p1, w.probed));
                    if !named { lemma_workdirs_grow(d1, w.deleted, dirs); }
                    assert forall|j: int| 0 <= j < it2.index@ + 1 implies outputs_cleaned(#[trigger] it2.seq().unref()[j], w.deleted, w.probed) by {
                        if j < it2.index@ {
                            lemma_outputs_grow(it2.seq().unref()[j], d1, p1, w.deleted, w.probed);
                        }
                    }
                }
//@after 0 `for target in targets.values()`
            proof {
                // [C12.outputs-all] every value of the map went through the loop
                assert forall|id: TargetId| ts.contains_key(id) implies outputs_cleaned(#[trigger] ts[id], w.deleted, w.probed) by {
                    assert(targets@.values().contains(ts[id]));
                }
                assert(all_outputs_cleaned(ts, w.deleted, w.probed));
            }
//@after 1 `for target in targets.values()`
                proof {
                    // [C12.state-all] every value of the map went through the loop
                    assert forall|id: TargetId| ts.contains_key(id) implies w.deleted.contains(Del::State(#[trigger] ts[id].meta())) by {
                        assert(targets@.values().contains(ts[id]));
                    }
                    assert(all_states_deleted(w.deleted, ts));
                }
//@end

// ===========================================================================
// main(): load, resolve, then (and only then) clean / run
// ===========================================================================
#[verifier::external_body]
pub struct App { _p: () }
#[verifier::external_body]
pub struct YamlConfig { _p: () }
#[verifier::external_body]
pub struct IrConfig { _p: () }
impl IrConfig {
    pub uninterp spec fn root(&self) -> Option<String>;
}
/// `cli::get_app().get_matches()` (A-clap)
#[verifier::external_body]
pub fn get_app() -> App { unimplemented!() }
impl App {
    #[verifier::external_body]
    pub fn get_matches(self) -> ArgMatches { unimplemented!() }
}
/// `stderrlog::new().module(..).verbosity(..).init().unwrap()`
#[verifier::external_body]
pub fn init_logging(m: &ArgMatches) { unimplemented!() }
/// `cli::get_app().mut_arg(TARGETS, |arg| arg.possible_values(names).required_unless(CLEAN)).get_matches()` (A-clap):
/// the requested names are among the offered ones
#[verifier::external_body]
pub fn get_matches_for(names: &Vec<String>) -> ArgMatches { unimplemented!() }
impl ArgMatches {
    #[verifier::external_body]
    pub fn root_dir(&self) -> PathBuf { unimplemented!() }
    /// `values_of_lossy(TARGETS)`
    #[verifier::external_body]
    pub fn values_of_lossy(&self, name: &str) -> Option<Vec<String>> { unimplemented!() }
}
pub const TARGETS: &'static str = "targets";
/// `yaml::Config::load` (verified in CFG: Ok only for a consistent, uniquely named set of projects) — no effect on the world
#[verifier::external_body]
pub fn yaml_load(dir: &PathBuf) -> Result<YamlConfig> { unimplemented!() }
impl YamlConfig {
    #[verifier::external_body]
    pub fn get_project_dirs(&self) -> Vec<PathBuf> { unimplemented!() }
}
/// `config.into()` (`From<yaml::Config> for ir::Config`, verified in CFG)
#[verifier::external_body]
pub fn ir_from(c: YamlConfig) -> IrConfig { unimplemented!() }
impl IrConfig {
    #[verifier::external_body]
    pub fn list_all_available_target_names(&self) -> Vec<String> { unimplemented!() }
    #[verifier::external_body]
    pub fn list_all_targets(&self) -> (r: Vec<TargetId>) ensures r@ == self.all_targets() { unimplemented!() }
    /// every target of every loaded project (the roots when no name is given on the command line)
    pub uninterp spec fn all_targets(&self) -> Seq<TargetId>;
    #[verifier::external_body]
    pub fn root_project_name(&self) -> (r: &Option<String>) ensures *r == self.root() { unimplemented!() }
    /// `try_into_domain_targets` (verified in CFG: closed, keyed by each target's own id)
    #[verifier::external_body]
    pub fn try_into_domain_targets(self, roots: &Vec<TargetId>) -> (r: Result<HashMap<TargetId, Target>>)
        ensures r matches Ok(m) ==> forall|id: TargetId| #![trigger m@[id]] m@.contains_key(id) ==> m@[id].meta().id == id,
            r matches Ok(m) ==> m@ == self.closure_of(roots@),
    { unimplemented!() }
    /// the resolved map for a list of roots: their dependency closure (CFG: C09.closed / C09.only-reachable)
    pub uninterp spec fn closure_of(&self, roots: Seq<TargetId>) -> Map<TargetId, Target>;
}
/// `TargetId::try_parse_many(requested, &root).unwrap()`: clap only lets through names it was offered, and
/// every offered name parses (A-clap + C19.parse)
#[verifier::external_body]
pub fn parse_requested(names: &Vec<String>, root: &Option<String>) -> (r: Vec<TargetId>) ensures r@ == parsed_names(names@, *root) { unimplemented!() }
/// `TargetId::try_parse_many(names, root).unwrap()` as a function (DOM unit: element-wise `parse_ref`)
pub uninterp spec fn parsed_names(names: Seq<String>, root: Option<String>) -> Seq<TargetId>;

//@fn src/main.rs main ret=r as=zinoma_main
//@replace `stderrlog::new()\n        .module(module_path!())\n        .verbosity(arg_matches.occurrences_of(cli::arg::VERBOSITY) as usize + 2)\n        .init()\n        .unwrap();` => `init_logging(&arg_matches);\n\n\n\n` rule=R2 pre why=`logger initialisation: no contract mentions logging`
//@replace `std::path::PathBuf::from(arg_matches.value_of(cli::arg::PROJECT_DIR).unwrap());` => `arg_matches.root_dir();` rule=R11 pre why=`the -p argument as a path (clap accessor, A-clap)`
//@replace `yaml::Config::load(&root_project_dir)?` => `yaml_load(&root_project_dir)?` rule=R11 pre why=`flat namespace: yaml::Config::load is the CFG unit's function, a stub here`
//@replace `let config: ir::Config = config.into();` => `let config: IrConfig = ir_from(config);` rule=R15 pre why=`.into() written as the From impl it resolves to`
//@replace `TargetId::try_parse_many(requested_targets, &config.root_project_name).unwrap()` => `parse_requested(requested_targets, config.root_project_name())` rule=R15 pre why=`parse + unwrap of names clap has already validated (A-clap)`
//@closure 0 skeleton=`let arg_matches = cli::get_app() .mut_arg(cli::arg::TARGETS, <CLOSURE>) .get_matches();` becomes=`let arg_matches = get_matches_for(&all_target_names);`
//@closure 1 skeleton=`task::block_on(<CLOSURE>)` becomes=`main_block(&arg_matches, &requested_targets, targets, project_dirs, root_target_ids, Tracked(w))`
//@contract
    requires
        old(w).steps.len() == 0, !old(w).run_failed,
    ensures
        /*[C09.before-effects,C14.before-effects]*/ final(w).deleted != old(w).deleted || final(w).steps.len() > 0 ==> final(w).resolved,
        /*[C10.main-order,C11.stop-at-exit,C07.exit-clean]*/ final(w).steps.len() > 0 ==> final(w).steps =~= seq![Step::Run, Step::Terminate],
        /*[C07.exit]*/ final(w).run_failed ==> r is Err,
//@before 0 `let targets = config.try_into_domain_targets(`
    let ghost all0 = config.all_targets();
    let ghost root0 = config.root();
    let ghost cfg0 = config;
    proof {
        // [C19.roots] what is resolved (and later handed to the engine) is exactly what was asked for: every name
        // given on the command line, parsed with the root project as default, in order; all targets otherwise
        assert(/*[C19.roots]*/ requested_targets matches Some(names) ==> root_target_ids@ == parsed_names(names@, root0));
        assert(/*[C19.roots]*/ requested_targets is None ==> root_target_ids@ == all0);
    }
//@after 0 `let targets = config.try_into_domain_targets(`
    // what cleaning and the engine get to see is the dependency closure of exactly the requested roots - not more (C08: no
    // target outside the closure is cleaned or has its state touched; C12: `--clean T...` = T and its dependencies only)
    assert(/*[C08.only-closure,C12.scope,C09.closure-used]*/ targets@ == cfg0.closure_of(root_target_ids@));
    proof { w.resolved = true; }
//@end

//@include footer.rs
