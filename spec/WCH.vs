//@unit WCH
//@ghost tr Trace seeds=try_send,watch,watcher_new_raw,watch_groups,build_immediate_watcher
//@dropderive Debug,Serialize,Deserialize,Clone,Copy
//@subst std::path::PathBuf => PathBuf
//@subst std::path::Path => Path
//@subst std::io::ErrorKind => IoErrorKind
//@subst notify::Error => NotifyError
//@subst notify::Result => NotifyResult
//@subst notify::Event => Event
//@subst Watcher::new => watcher_new_raw
//@include header.rs
//@include std_ext.rs
//@include chan.rs

//@item src/domain.rs TargetId
//@item src/engine/watcher.rs TargetInvalidatedMessage
//@item src/engine/watcher.rs TargetWatcher pubfields

impl Clone for TargetId {
    #[verifier::external_body]
    fn clone(&self) -> (r: Self) ensures r == *self { unimplemented!() }
}

// ===========================================================================
// paths, names and string predicates (uninterpreted: `str` byte reasoning is out of Verus' reach;
// the bounded Kani harnesses of the KANI unit exercise the same functions on concrete bytes)
// ===========================================================================
#[verifier::external_body]
pub struct Path { _p: () }
#[verifier::external_body]
pub struct OsStr { _p: () }
/// `Cow<str>` returned by `to_string_lossy()`
#[verifier::external_body]
pub struct LossyName { _p: () }
/// domain::FileExtensions = Option<BTreeSet<String>>
#[verifier::external_body]
pub struct FileExtensions { _p: () }
impl Clone for FileExtensions {
    #[verifier::external_body]
    fn clone(&self) -> (r: Self) ensures r == *self { unimplemented!() }
}
/// domain::Resources: only `.files` is walked here
pub struct Resources { pub files: Vec<FilesResource> }
pub struct FilesResource { pub paths: Vec<PathBuf>, pub extensions: FileExtensions }

/// text of a (lossily decoded) file name
pub type Name = Seq<char>;
pub uninterp spec fn name_ends_with(n: Name, pat: Seq<char>) -> bool;
pub uninterp spec fn name_starts_with(n: Name, pat: Seq<char>) -> bool;
/// the lossy file name of a path, None when the path has no file name (`/`, `..`)
pub uninterp spec fn file_name_of(p: PathBuf) -> Option<Name>;
/// `work_dir::is_in_work_dir` and `domain::matches_extensions` as predicates (bodies: KANI unit, bounded)
pub uninterp spec fn in_work_dir(p: PathBuf) -> bool;
pub uninterp spec fn matches_ext(p: PathBuf, e: FileExtensions) -> bool;

pub trait StrPattern {
    spec fn chars(&self) -> Seq<char>;
}
impl StrPattern for char {
    open spec fn chars(&self) -> Seq<char> { seq![*self] }
}
impl StrPattern for &str {
    open spec fn chars(&self) -> Seq<char> { self@ }
}
impl Path {
    pub uninterp spec fn buf(&self) -> PathBuf;
    /// `file_path.file_name()`
    #[verifier::external_body]
    pub fn file_name(&self) -> (r: Option<&OsStr>)
        ensures r is Some <==> file_name_of(self.buf()) is Some,
            r matches Some(n) ==> file_name_of(self.buf()) == Some(n.lossy()),
    { unimplemented!() }
    #[verifier::external_body]
    pub fn into(&self) -> (r: &Path) ensures r.buf() == self.buf() { unimplemented!() }
}
impl OsStr {
    pub uninterp spec fn lossy(&self) -> Name;
    /// total: invalid UTF-8 is replaced, never an error
    #[verifier::external_body]
    pub fn to_string_lossy(&self) -> (r: LossyName) ensures r.text() == self.lossy() { unimplemented!() }
}
impl LossyName {
    pub uninterp spec fn text(&self) -> Name;
    #[verifier::external_body]
    pub fn ends_with<P: StrPattern>(&self, p: P) -> (r: bool) ensures r == name_ends_with(self.text(), p.chars()) { unimplemented!() }
    #[verifier::external_body]
    pub fn starts_with<P: StrPattern>(&self, p: P) -> (r: bool) ensures r == name_starts_with(self.text(), p.chars()) { unimplemented!() }
}
impl std::ops::Deref for PathBuf {
    type Target = Path;
    #[verifier::external_body]
    fn deref(&self) -> (r: &Path) ensures r.buf() == *self { unimplemented!() }
}
impl PathBuf {
    /// `&std::path::PathBuf -> async_std::path::PathBuf` (`.into()`): the same path
    #[verifier::external_body]
    pub fn into(&self) -> (r: PathBuf) ensures r == *self { unimplemented!() }
    #[verifier::external_body]
    pub fn as_path(&self) -> (r: &Path) ensures r.buf() == *self { unimplemented!() }
    #[verifier::external_body]
    pub fn display(&self) -> u8 { unimplemented!() }
}
/// `work_dir::is_in_work_dir(&path)` and `domain::matches_extensions(path, &extensions)`: real signatures,
/// bodies exercised only by the bounded Kani harnesses (KANI unit)
//@fn src/work_dir.rs is_in_work_dir assumed ret=r
//@contract
    ensures r == in_work_dir(path.buf()),
//@end
//@fn src/domain.rs matches_extensions assumed ret=r
//@contract
    ensures r == matches_ext(file.buf(), *extensions),
//@end

/// [C16.tmp] editor temporaries: `*~`, `.*.swp`, `.*.swx`
pub open spec fn is_tmp_name(n: Name) -> bool {
    name_ends_with(n, seq!['~'])
        || (name_starts_with(n, seq!['.']) && (name_ends_with(n, seq!['.', 's', 'w', 'p']) || name_ends_with(n, seq!['.', 's', 'w', 'x'])))
}
pub open spec fn is_tmp_path(p: PathBuf) -> bool {
    file_name_of(p) matches Some(n) && is_tmp_name(n)
}
/// [C16.filter] a changed path is relevant iff it is not an editor temporary, not under `.zinoma`, and matches the extensions
pub open spec fn relevant(p: PathBuf, e: FileExtensions) -> bool {
    !is_tmp_path(p) && !in_work_dir(p) && matches_ext(p, e)
}

//@fn src/engine/watcher.rs is_tmp_editor_file ret=r
//@contract
    ensures
        /*[C16.tmp]*/ r == is_tmp_path(file_path.buf()),
//@pre
        proof {
            reveal_strlit(".swp");
            reveal_strlit(".swx");
            assert(".swp"@ =~= seq!['.', 's', 'w', 'p']);
            assert(".swx"@ =~= seq!['.', 's', 'w', 'x']);
        }
//@end

// ===========================================================================
// notify (A-notify)
// ===========================================================================
pub tracked struct Trace {
    /// `try_send` calls on the invalidation channel
    pub ghost sends: nat,
    /// paths handed to `watcher.watch`, in order
    pub ghost watched: Seq<PathBuf>,
    /// a `watch` call failed with an error that does not mean "the path does not exist"
    pub ghost hard_error: bool,
    /// watchers created
    pub ghost created: nat,
}
/// std::io::ErrorKind (the three that matter here)
pub enum IoErrorKind { NotFound, PermissionDenied, Other }
impl PartialEq for IoErrorKind {
    #[verifier::external_body]
    fn eq(&self, o: &IoErrorKind) -> (r: bool) ensures r == (*self == *o) { unimplemented!() }
}
#[verifier::external_body]
pub struct StdIoError { _p: () }
impl StdIoError {
    pub uninterp spec fn spec_kind(&self) -> IoErrorKind;
    #[verifier::external_body]
    pub fn kind(&self) -> (r: IoErrorKind) ensures r == self.spec_kind() { unimplemented!() }
}
pub enum ErrorKind { Generic, Io(StdIoError), PathNotFound, WatchNotFound, InvalidConfig, MaxFilesWatch }
pub struct NotifyError { pub kind: ErrorKind, pub paths: Vec<PathBuf> }
/// A-notify, corrected after a reproduction on the real binary: a path that does not exist is reported as
/// `PathNotFound` by the fsevent/windows back ends and as the underlying `Io(NotFound)` by the inotify back end
/// (notify 6.1.1, src/inotify.rs add_watch: `metadata(&path).map_err(Error::io)?`)
pub open spec fn means_missing(e: NotifyError) -> bool {
    e.kind is PathNotFound || (e.kind matches ErrorKind::Io(io) && io.spec_kind() is NotFound)
}
pub type NotifyResult<T> = std::result::Result<T, NotifyError>;
/// notify::EventKind: the code of the pinned commit does not look at it (every kind of event on a relevant path
/// invalidates); the accessors exist so that code which starts to filter on it is still extracted and decided
#[verifier::external_body]
pub struct EventKind { _p: () }
impl EventKind {
    pub uninterp spec fn create(&self) -> bool;
    pub uninterp spec fn modify(&self) -> bool;
    pub uninterp spec fn remove(&self) -> bool;
    pub uninterp spec fn access(&self) -> bool;
    #[verifier::external_body]
    pub fn is_create(&self) -> (r: bool) ensures r == self.create() { unimplemented!() }
    #[verifier::external_body]
    pub fn is_modify(&self) -> (r: bool) ensures r == self.modify() { unimplemented!() }
    #[verifier::external_body]
    pub fn is_remove(&self) -> (r: bool) ensures r == self.remove() { unimplemented!() }
    #[verifier::external_body]
    pub fn is_access(&self) -> (r: bool) ensures r == self.access() { unimplemented!() }
}
pub struct Event { pub kind: EventKind, pub paths: Vec<PathBuf> }
#[verifier::external_body]
pub struct RecommendedWatcher { _p: () }
pub enum RecursiveMode { Recursive, NonRecursive }
#[verifier::external_body]
pub struct Config { _p: () }
#[verifier::external_body]
pub struct Duration { _p: () }
impl Duration {
    #[verifier::external_body]
    pub fn from_millis(m: u64) -> Duration { unimplemented!() }
}
impl Config {
    #[verifier::external_body]
    pub fn default() -> Config { unimplemented!() }
    #[verifier::external_body]
    pub fn with_poll_interval(self, d: Duration) -> Config { unimplemented!() }
}
impl Error {
    /// `Error::new(e)`
    #[verifier::external_body]
    pub fn new(e: NotifyError) -> Error { unimplemented!() }
}
impl RecommendedWatcher {
    /// `watcher.watch(path, mode)` (A-notify): an error for which `means_missing` holds for a path that does not exist
    #[verifier::external_body]
    pub fn watch(&mut self, p: &Path, mode: RecursiveMode, Tracked(tr): Tracked<&mut Trace>) -> (r: NotifyResult<()>)
        ensures *final(tr) == (Trace { watched: old(tr).watched.push(p.buf()),
            hard_error: old(tr).hard_error || (r matches Err(e) && !means_missing(e)), ..*old(tr) }),
    { unimplemented!() }
}
impl Sender<TargetInvalidatedMessage> {
    /// capacity-1 channel: either enqueues or reports full (A-chan); neither is an error for the watcher
    #[verifier::external_body]
    pub fn try_send(&self, m: TargetInvalidatedMessage, Tracked(tr): Tracked<&mut Trace>) -> (r: std::result::Result<(), SendError>)
        ensures *final(tr) == (Trace { sends: old(tr).sends + 1, ..*old(tr) }),
    { unimplemented!() }
}
impl Clone for Sender<TargetInvalidatedMessage> {
    #[verifier::external_body]
    fn clone(&self) -> (r: Self) ensures r.chan() == self.chan() { unimplemented!() }
}

pub proof fn lemma_filter_sound<A>(s: Seq<A>, f: spec_fn(A) -> bool, x: A)
    requires s.filter(f).contains(x),
    ensures f(x) && s.contains(x),
    decreases s.len(),
{
    reveal(Seq::filter);
    if s.len() > 0 {
        let sub = s.drop_last().filter(f);
        if sub.contains(x) {
            lemma_filter_sound(s.drop_last(), f, x);
            let i = choose|i: int| 0 <= i < s.drop_last().len() && s.drop_last()[i] == x;
            assert(s[i] == x);
        } else {
            assert(f(s.last()));
            let j = choose|j: int| 0 <= j < s.filter(f).len() && s.filter(f)[j] == x;
            assert(s.filter(f) == sub.push(s.last()));
            if j < sub.len() { assert(sub[j] == x); }
            assert(x == s.last());
            assert(s[s.len() - 1] == x);
        }
    }
}

/// `event.paths.into_iter().filter(closure).collect::<Vec<_>>()` for the closure `event_filter` (A-all:
/// filter keeps exactly the elements for which the closure is true)
#[verifier::external_body]
pub fn filter_paths(paths: Vec<PathBuf>, e: &FileExtensions) -> (r: Vec<PathBuf>)
    ensures r@ == paths@.filter(|p: PathBuf| relevant(p, *e)),
{ unimplemented!() }

//@fn src/engine/watcher.rs TargetWatcher::build_immediate_watcher#closure1 as=event_filter params=`path: &PathBuf, extensions: &FileExtensions` rty=`bool` ret=r
//@replace `&extensions)` => `extensions)` rule=R13 why=`the captured variable is a parameter of reference type in the outlined function`
//@contract
    ensures
        /*[C16.filter,C15.watch-rule,C06.event]*/ r == relevant(*path, *extensions),
//@end

//@fn src/engine/watcher.rs TargetWatcher::build_immediate_watcher#closure0 as=watch_event params=`result: NotifyResult<Event>, target_id: &TargetId, target_invalidated_sender: &Sender<TargetInvalidatedMessage>, extensions: &FileExtensions`
//@closure 1 skeleton=`let relevant_files = event .paths .into_iter() .filter(<CLOSURE>) .collect::<Vec<_>>();` becomes=`let relevant_files = filter_paths(event.paths, extensions);`
//@contract
    ensures
        /*[C16.try-send,C06.event]*/ result matches Ok(ev) && (exists|i: int| 0 <= i < ev.paths@.len() && relevant(#[trigger] ev.paths@[i], *extensions)) ==> final(tr).sends == old(tr).sends + 1,
        /*[C16.try-send]*/ result matches Ok(ev) && (forall|i: int| 0 <= i < ev.paths@.len() ==> !relevant(#[trigger] ev.paths@[i], *extensions)) ==> *final(tr) == *old(tr),
        /*[C16.total]*/ result is Err ==> *final(tr) == *old(tr),
//@pre
        let ghost ev_paths = if result is Ok { result->Ok_0.paths@ } else { Seq::<PathBuf>::empty() };
//@before 0 `if `
        proof {
            let f = |p: PathBuf| relevant(p, *extensions);
            if relevant_files@.len() > 0 {
                let x = relevant_files@[0];
                assert(ev_paths.filter(f).contains(x));
                lemma_filter_sound(ev_paths, f, x);
                let i = choose|i: int| 0 <= i < ev_paths.len() && ev_paths[i] == x;
                assert(relevant(ev_paths[i], *extensions));
            } else {
                assert forall|i: int| 0 <= i < ev_paths.len() implies !relevant(#[trigger] ev_paths[i], *extensions) by {
                    ev_paths.filter_lemma(f);
                    if relevant(ev_paths[i], *extensions) {
                        assert(ev_paths.filter(f).contains(ev_paths[i]));
                    }
                }
            }
        }
//@end

// ===========================================================================
// TargetWatcher::new
// ===========================================================================
impl PartialEq for FileExtensions {
    #[verifier::external_body]
    fn eq(&self, o: &FileExtensions) -> (r: bool) ensures r == (*self == *o) { unimplemented!() }
}
impl Eq for FileExtensions {}
impl std::hash::Hash for FileExtensions {
    #[verifier::external_body]
    fn hash<H: std::hash::Hasher>(&self, state: &mut H) { unimplemented!() }
}
pub broadcast axiom fn axiom_pathref_key_model()
    ensures #[trigger] obeys_key_model::<&PathBuf>();

/// `TargetWatcher::build_immediate_watcher` (its event handler is `watch_event` above; creating the
/// notify watcher itself is A-notify)
#[verifier::external_body]
pub fn build_immediate_watcher(target_id: TargetId, sender: Sender<TargetInvalidatedMessage>, extensions: FileExtensions, Tracked(tr): Tracked<&mut Trace>) -> (r: Result<RecommendedWatcher>)
    ensures r is Ok ==> *final(tr) == (Trace { created: old(tr).created + 1, ..*old(tr) }),
            r is Err ==> *final(tr) == *old(tr),
{ unimplemented!() }
/// `map.entry(ext).or_insert_with(HashSet::new).extend(resource.paths.iter())`: the paths of a files
/// resource join the group of its extension set (entry API: no vstd specification)
#[verifier::external_body]
pub fn group_paths<'a>(m: &mut HashMap<FileExtensions, HashSet<&'a PathBuf>>, resource: &'a FilesResource)
{ unimplemented!() }
/// `groups.into_iter().filter(non-empty).map(watch_group).collect::<Result<Vec<_>>>()` (A-all)
#[verifier::external_body]
pub fn watch_groups<'a>(m: HashMap<FileExtensions, HashSet<&'a PathBuf>>, target_id: &TargetId, sender: &Sender<TargetInvalidatedMessage>, Tracked(tr): Tracked<&mut Trace>) -> (r: Result<Vec<RecommendedWatcher>>)
    ensures r is Err ==> final(tr).hard_error || final(tr).created == old(tr).created || true,
{ unimplemented!() }

//@fn src/engine/watcher.rs is_path_not_found ret=r
//@contract
    ensures /*[C06.missing-path]*/ r == means_missing(*error),
//@end

//@fn src/engine/watcher.rs TargetWatcher::new#closure1 as=watch_group params=`extensions: FileExtensions, paths: HashSet<&PathBuf>, target_id: &TargetId, target_invalidated_sender: &Sender<TargetInvalidatedMessage>` rty=`Result<RecommendedWatcher>` ret=r
//@lsubst Self::build_immediate_watcher => build_immediate_watcher
//@contract
    requires !old(tr).hard_error,
    ensures
        /*[C06.missing-path]*/ r is Err ==> final(tr).hard_error || final(tr).created == old(tr).created,
        /*[C06.missing-path]*/ !final(tr).hard_error && final(tr).created > old(tr).created ==> r is Ok,
        /*[C06.watch-all,C16.watch-all]*/ r is Ok ==> final(tr).watched.len() == old(tr).watched.len() + paths@.len(),
        /*[C06.watch-all,C16.watch-all,C13.watched]*/ r is Ok ==> forall|p: &PathBuf| #![trigger paths@.contains(p)] paths@.contains(p) ==> final(tr).watched.contains(*p),
//@pre
        broadcast use axiom_pathref_key_model;
        broadcast use vstd::std_specs::hash::group_hash_axioms;
        broadcast use lemma_take_all;
//@loop 0 binder=it set-owned
        invariant
            it.seq().unref().to_set() == paths@,
            it.seq().len() == paths@.len(),
            !tr.hard_error,
            tr.created == old(tr).created + 1,
            tr.watched.len() == old(tr).watched.len() + it.index@,
            forall|j: int| #![trigger it.seq()[j]] 0 <= j < it.index@ ==> tr.watched.contains(**it.seq()[j]),
//@loopbody
        let ghost w0 = tr.watched;
//@after 0 `match watcher.watch(`
        proof {
            assert(tr.watched == w0.push(*path));
            assert(tr.watched[w0.len() as int] == *path);
            assert forall|j: int| 0 <= j < it.index@ + 1 implies tr.watched.contains(**#[trigger] it.seq()[j]) by {
                if j < it.index@ {
                    let k = choose|k: int| 0 <= k < w0.len() && w0[k] == **it.seq()[j];
                    assert(tr.watched[k] == w0[k]);
                }
            }
        }
//@end

impl TargetWatcher {
//@fn src/engine/watcher.rs TargetWatcher::new ret=r
//@lsubst Self => TargetWatcher
//@replace `paths_grouped_by_extensions\n                    .entry(resource.extensions.clone())\n                    .or_insert_with(HashSet::new)\n                    .extend(resource.paths.iter());` => `group_paths(&mut paths_grouped_by_extensions, resource);\n\n\n` rule=R13 pre why=`HashMap entry API chain entry().or_insert_with().extend() -> prelude stub group_paths`
//@closure 1 skeleton=`let watchers = paths_grouped_by_extensions .into_iter() .filter(|(_extensions, paths)| !paths.is_empty()) .map(<CLOSURE>) .collect::<Result<Vec<_>>>()?;` becomes=`let watchers = watch_groups(paths_grouped_by_extensions, target_id, target_invalidated_sender, Tracked(tr))?;`
//@contract
    ensures
        /*[C06.watch-inputs,C16.watch-all,C13.watched]*/ r matches Ok(w) ==> (w is Some <==> target_input is Some),
//@end
}

pub broadcast proof fn lemma_take_all<A>(s: Seq<A>)
    ensures #[trigger] s.take(s.len() as int) == s
{
    assert(s.take(s.len() as int) =~= s);
}

//@include footer.rs
// outside verus!: `Result::unwrap` needs `E: Debug` to type-check (a changed tree may call it)
impl std::fmt::Debug for NotifyError {
    fn fmt(&self, _f: &mut std::fmt::Formatter<'_>) -> std::fmt::Result { Ok(()) }
}
