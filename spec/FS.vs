//@unit FS
//@dropderive Debug,Serialize,Deserialize,Clone,Copy,PartialEq
//@subst std::path::PathBuf => PathBuf
//@subst std::path::Path => Path
//@subst path::Component => Component
//@subst walkdir::DirEntry => DirEntry
//@subst domain::FileExtensions => FileExtensions
//@subst domain::matches_extensions => matches_extensions
//@subst task::spawn_blocking => spawn_blocking
//@subst future::join_all => join_all
//@include header.rs
//@include std_ext.rs

// ===========================================================================
// FS unit (C15): what a `paths` resource denotes.
//
// Under contract here, on the text of /repo: work_dir::{is_in_work_dir, is_work_dir},
// domain::matches_extensions, config::ir::transform_extensions, fs::{list_files_in_path,
// list_files_in_paths, list_files_in_resources} and every closure they pass to an iterator / Option
// adapter (each closure is outlined as a function by rule R13 and verified against its own contract).
//
// Assumed (A-adapters): the adapter chains themselves.  The `Option` adapters (`map`, `filter`,
// `is_some_and`, `is_none_or`, `unwrap_or`) and `spawn_blocking(f).await` are replaced at their site by their
// definition (a `match` / `if` / call) over the outlined closures, so the closures' contracts are used
// modularly; the iterator chains (`any`, `filter().map().collect()`, `filter_entry().filter_map().collect()`,
// `join_all(..).flatten().collect()`) are replaced by a prelude stub whose contract restates the chain's
// documented meaning in terms of the outlined closure's contract.  Every site text is pinned by its
// skeleton (a changed chain = lost anchor = undecided, never silent).
// Assumed (A-walkdir, A-fs): walkdir yields every entry at or below the root, parents before children,
// does not follow links, `filter_entry` skips an entry and everything below it; `Path::is_file` says
// whether the path is a regular file (following links); the tree does not change during one walk.
// Strings are sequences of `char` (vstd view); `str::ends_with`, `starts_with`, `==`, `format!(".{}", _)`,
// `OsStr::to_str / to_string_lossy`, `Path::file_name / components` are assumed with the contracts below.
// ===========================================================================
pub type Name = Seq<char>;

/// ".zinoma"
pub open spec fn wd() -> Name { seq!['.', 'z', 'i', 'n', 'o', 'm', 'a'] }

pub open spec fn ends_with(s: Name, p: Name) -> bool {
    p.len() <= s.len() && s.subrange(s.len() - p.len(), s.len() as int) == p
}
pub open spec fn starts_with(s: Name, p: Name) -> bool {
    p.len() <= s.len() && s.subrange(0, p.len() as int) == p
}

#[verifier::external_body]
pub struct Path { _p: () }
#[verifier::external_body]
pub struct OsStr { _p: () }
/// `Cow<str>` returned by `to_string_lossy()`
#[verifier::external_body]
pub struct LossyName { _p: () }

/// BTreeSet<String> of extensions
#[verifier::external_body]
#[verifier::reject_recursive_types(T)]
pub struct BTreeSet<T> { _p: std::marker::PhantomData<T> }
impl View for BTreeSet<String> {
    type V = Set<Name>;
    uninterp spec fn view(&self) -> Set<Name>;
}
impl BTreeSet<String> {
    #[verifier::external_body]
    pub fn is_empty(&self) -> (r: bool) ensures r == (self@ == Set::<Name>::empty()) { unimplemented!() }
}
impl Clone for BTreeSet<String> {
    #[verifier::external_body]
    fn clone(&self) -> (r: Self) ensures r == *self { unimplemented!() }
}
//@item src/domain.rs FileExtensions
//@item src/domain.rs FilesResource pubfields
//@item src/work_dir.rs WORK_DIR_NAME

/// the lossy file name of a path, None when the path has no file name (`/`, `..`)
pub uninterp spec fn file_name_of(p: PathBuf) -> Option<Name>;
/// `std::path::Path::is_file` (follows links) on the tree as it is during the walk
pub uninterp spec fn is_file_at(p: PathBuf) -> bool;

pub ghost enum Comp { Normal { utf8: Option<Name> }, Other }
/// `path.components()`
pub uninterp spec fn comps(p: PathBuf) -> Seq<Comp>;

pub enum Component<'a> { Prefix(u8), RootDir, CurDir, ParentDir, Normal(&'a OsStr) }
impl<'a> Component<'a> {
    pub open spec fn model(&self) -> Comp {
        match *self {
            Component::Normal(n) => Comp::Normal { utf8: n.utf8() },
            _ => Comp::Other,
        }
    }
}

/// `str::contains` (not used by the repository's code; present so that a changed predicate is a failed obligation rather than a unit that does not compile)
pub uninterp spec fn contains_str(s: Name, p: Name) -> bool;
pub uninterp spec fn exists_at(p: PathBuf) -> bool;
pub uninterp spec fn is_dir_at(p: PathBuf) -> bool;
pub uninterp spec fn pat_chars<P>(p: P) -> Seq<char>;
pub broadcast axiom fn axiom_pat_char(c: char) ensures #[trigger] pat_chars::<char>(c) == seq![c];
pub broadcast axiom fn axiom_pat_string(s: &String) ensures #[trigger] pat_chars::<&String>(s) == s@;
#[verifier::allow(undeclared_external_trait)]
pub assume_specification<P: std::str::pattern::Pattern> [ str::starts_with::<P> ] (s: &str, p: P) -> (r: bool)
    ensures r == starts_with(s@, pat_chars(p));
#[verifier::allow(undeclared_external_trait)]
pub assume_specification<P: std::str::pattern::Pattern> [ str::ends_with::<P> ] (s: &str, p: P) -> (r: bool)
    where for<'a> P::Searcher<'a>: std::str::pattern::ReverseSearcher<'a>
    ensures r == ends_with(s@, pat_chars(p));

impl Path {
    pub uninterp spec fn buf(&self) -> PathBuf;
    #[verifier::external_body]
    pub fn file_name(&self) -> (r: Option<&OsStr>)
        ensures r is Some <==> file_name_of(self.buf()) is Some,
            r matches Some(n) ==> file_name_of(self.buf()) == Some(n.lossy()),
    { unimplemented!() }
    #[verifier::external_body]
    pub fn is_file(&self) -> (r: bool) ensures r == is_file_at(self.buf()) { unimplemented!() }
    #[verifier::external_body]
    pub fn exists(&self) -> (r: bool) ensures r == exists_at(self.buf()) { unimplemented!() }
    #[verifier::external_body]
    pub fn is_dir(&self) -> (r: bool) ensures r == is_dir_at(self.buf()) { unimplemented!() }
}
impl OsStr {
    pub uninterp spec fn lossy(&self) -> Name;
    /// `to_str()`: the text when the name is valid UTF-8
    pub uninterp spec fn utf8(&self) -> Option<Name>;
    #[verifier::external_body]
    pub fn to_string_lossy(&self) -> (r: LossyName) ensures r.text() == self.lossy() { unimplemented!() }
    #[verifier::external_body]
    pub fn to_str(&self) -> (r: Option<&str>)
        ensures r is Some <==> self.utf8() is Some, r matches Some(s) ==> self.utf8() == Some(s@),
    { unimplemented!() }
}
/// `name == WORK_DIR_NAME` (`impl PartialEq<str> for OsStr`: byte equality, so equal iff the name is valid UTF-8 with that text)
impl vstd::std_specs::cmp::PartialEqSpecImpl<str> for OsStr {
    open spec fn obeys_eq_spec() -> bool { true }
    open spec fn eq_spec(&self, o: &str) -> bool { self.utf8() == Some(o@) }
}
impl PartialEq<str> for OsStr {
    #[verifier::external_body]
    fn eq(&self, o: &str) -> (r: bool) { unimplemented!() }
}
impl LossyName {
    pub uninterp spec fn text(&self) -> Name;
    #[verifier::external_body]
    pub fn ends_with<P>(&self, p: P) -> (r: bool) ensures r == ends_with(self.text(), pat_chars(p)) { unimplemented!() }
    #[verifier::external_body]
    pub fn starts_with<P>(&self, p: P) -> (r: bool) ensures r == starts_with(self.text(), pat_chars(p)) { unimplemented!() }
    #[verifier::external_body]
    pub fn contains<P>(&self, p: P) -> (r: bool) ensures r == contains_str(self.text(), pat_chars(p)) { unimplemented!() }
}
impl std::ops::Deref for PathBuf {
    type Target = Path;
    #[verifier::external_body]
    fn deref(&self) -> (r: &Path) ensures r.buf() == *self { unimplemented!() }
}
impl PathBuf {
    /// `std::path::PathBuf -> async_std::path::PathBuf` (`.into()`): the same path
    #[verifier::external_body]
    pub fn into(self) -> (r: PathBuf) ensures r == self { unimplemented!() }
}
/// `format!(".{}", ext)`
#[verifier::external_body]
pub fn prepend_dot(ext: &String) -> (r: String) ensures r@ == seq!['.'] + ext@ { unimplemented!() }

/// `Arc<T>`: shared immutable value
pub struct Arc<T> { pub v: T }
impl<T> Arc<T> {
    #[verifier::external_body]
    pub fn from(v: T) -> (r: Arc<T>) ensures r.v == v { unimplemented!() }
    #[verifier::external_body]
    pub fn as_ref(&self) -> (r: &T) ensures *r == self.v { unimplemented!() }
}

// ===========================================================================
// [C15.workdir-watch] work_dir::is_in_work_dir — the watcher's half of the `.zinoma` rule
// ===========================================================================
pub open spec fn comp_is_wd(c: Comp) -> bool { c == (Comp::Normal { utf8: Some(wd()) }) }
/// some component of the path is named `.zinoma`
pub open spec fn in_work_dir(p: PathBuf) -> bool {
    exists|i: int| 0 <= i < comps(p).len() && comp_is_wd(#[trigger] comps(p)[i])
}
/// `path.components().any(closure)` for the closure `component_is_work_dir` (A-adapters)
#[verifier::external_body]
pub fn any_component(path: &Path) -> (r: bool)
    ensures r == (exists|i: int| 0 <= i < comps(path.buf()).len() && comp_is_wd(#[trigger] comps(path.buf())[i])),
{ unimplemented!() }

//@fn src/work_dir.rs is_in_work_dir#closure0 as=component_is_work_dir params=`component: Component` bind rty=`bool` ret=r
//@contract
    ensures
        /*[C15.workdir-watch,C16.workdir]*/ r == comp_is_wd(component.model()),
//@pre
        proof { reveal_strlit(".zinoma"); assert(".zinoma"@ =~= wd()); }
//@end

//@fn src/work_dir.rs is_in_work_dir ret=r
//@closure 0 skeleton=`path.components().any(<CLOSURE>)` becomes=`any_component(path)`
//@contract
    ensures
        /*[C15.workdir-watch,C16.workdir]*/ r == in_work_dir(path.buf()),
//@end

// ===========================================================================
// walkdir (A-walkdir)
// ===========================================================================
#[verifier::external_body]
pub struct DirEntry { _p: () }
#[verifier::external_body]
pub struct WalkError { _p: () }
#[verifier::external_body]
pub struct WalkDir { _p: () }
impl DirEntry {
    pub uninterp spec fn path(&self) -> PathBuf;
    pub uninterp spec fn name_utf8(&self) -> Option<Name>;
    /// the entry itself is a directory (`file_type().is_dir()`, links not followed)
    pub uninterp spec fn is_dir(&self) -> bool;
    #[verifier::external_body]
    pub fn file_name(&self) -> (r: &OsStr) ensures r.utf8() == self.name_utf8() { unimplemented!() }
    #[verifier::external_body]
    pub fn into_path(self) -> (r: PathBuf) ensures r == self.path() { unimplemented!() }
}
impl WalkDir {
    pub uninterp spec fn root(&self) -> PathBuf;
    #[verifier::external_body]
    pub fn new(p: &Path) -> (r: WalkDir) ensures r.root() == p.buf() { unimplemented!() }
}
/// `e` is an entry of the tree at or below `root` (the root itself included), links not followed
pub uninterp spec fn walk_has(root: PathBuf, e: DirEntry) -> bool;
/// walkdir's depth: 0 for the root entry
pub uninterp spec fn depth(e: DirEntry) -> nat;
/// the entry of the directory containing `e` (meaningful for depth > 0)
pub uninterp spec fn parent(e: DirEntry) -> DirEntry;
/// A-walkdir: every entry below the root has its parent directory in the same walk
pub broadcast axiom fn axiom_walk_parent(root: PathBuf, e: DirEntry)
    requires #[trigger] walk_has(root, e), depth(e) > 0,
    ensures walk_has(root, parent(e)), depth(parent(e)) == depth(e) - 1, parent(e).is_dir();
/// A-fs: a path that is a regular file (links followed) is not a directory entry
pub broadcast axiom fn axiom_file_not_dir(e: DirEntry)
    requires #[trigger] is_file_at(e.path()),
    ensures !e.is_dir();

/// `filter_entry(keep)`: an entry is yielded iff `keep` holds for it and for every directory above it
/// up to the root
pub open spec fn kept_chain(e: DirEntry, keep: spec_fn(DirEntry) -> bool) -> bool {
    kept_chain_n(e, keep, depth(e))
}
pub open spec fn kept_chain_n(e: DirEntry, keep: spec_fn(DirEntry) -> bool, n: nat) -> bool
    decreases n,
{
    keep(e) && (n == 0 || kept_chain_n(parent(e), keep, (n - 1) as nat))
}

// ===========================================================================
// [C15.workdir] work_dir::is_work_dir — the walk's half of the `.zinoma` rule
// ===========================================================================
/// the entry is a directory named `.zinoma`
pub open spec fn is_wd_dir(e: DirEntry) -> bool { e.name_utf8() == Some(wd()) && e.is_dir() }


//@fn src/work_dir.rs is_work_dir#closure0 as=name_is_work_dir params=`file_name: &str` bind rty=`bool` ret=r
//@contract
    ensures
        /*[C15.workdir]*/ r == (file_name@ == wd()),
//@pre
        proof { reveal_strlit(".zinoma"); assert(".zinoma"@ =~= wd()); }
//@end

//@fn src/work_dir.rs is_work_dir ret=r
//@closure 0 skeleton=`entry .file_name() .to_str() .map(<CLOSURE>) .unwrap_or(false)` becomes=`(match entry.file_name().to_str() { Some(file_name) => Some(name_is_work_dir(file_name)), None => None }).unwrap_or(false)`
//@contract
    ensures
        /*[C15.workdir]*/ r ==> entry.name_utf8() == Some(wd()),
        /*[C15.workdir]*/ is_wd_dir(*entry) ==> r,
        /*[C15.workdir-kind]*/ r ==> entry.is_dir(),
//@end

// ===========================================================================
// [C15.ext-match] domain::matches_extensions
// ===========================================================================
/// the name ends with one of the extensions
pub open spec fn name_matches(n: Name, exts: Set<Name>) -> bool {
    exists|x: Name| #[trigger] exts.contains(x) && ends_with(n, x)
}
/// no filter, or the path has a file name that ends with one of the extensions
pub open spec fn matches_ext(p: PathBuf, e: FileExtensions) -> bool {
    e matches Some(s) ==> (file_name_of(p) matches Some(n) && name_matches(n, s@))
}
/// `extensions.iter().any(closure)` for the closure `ext_matches` (A-adapters)
#[verifier::external_body]
pub fn any_ext(extensions: &BTreeSet<String>, file_name: &LossyName) -> (r: bool)
    ensures r == (exists|x: Name| #[trigger] extensions@.contains(x) && ends_with(file_name.text(), x)),
{ unimplemented!() }

//@fn src/domain.rs matches_extensions#closure2 as=ext_matches params=`ext: &String, file_name: &LossyName` bind rty=`bool` ret=r
//@contract
    ensures
        /*[C15.ext-match,C02.denoted,C12.matching,C13.denoted]*/ r == ends_with(file_name.text(), ext@),
//@pre
        broadcast use axiom_pat_string;
//@end

//@fn src/domain.rs matches_extensions#closure1 as=file_name_matches params=`file_name: &OsStr, extensions: &BTreeSet<String>` bind rty=`bool` ret=r
//@closure 2 skeleton=`extensions.iter().any(<CLOSURE>)` becomes=`any_ext(extensions, &file_name)`
//@contract
    ensures
        /*[C15.ext-match,C02.denoted,C12.matching,C13.denoted]*/ r == name_matches(file_name.lossy(), extensions@),
//@end

//@fn src/domain.rs matches_extensions#closure0 as=path_matches params=`extensions: &BTreeSet<String>, file: &Path` bind rty=`bool` ret=r
//@closure 1 skeleton=`file.file_name().is_some_and(<CLOSURE>)` becomes=`(match file.file_name() { Some(file_name) => file_name_matches(file_name, extensions), None => false })`
//@contract
    ensures
        /*[C15.ext-match,C02.denoted,C12.matching,C13.denoted]*/ r == (file_name_of(file.buf()) matches Some(n) && name_matches(n, extensions@)),
//@end

//@fn src/domain.rs matches_extensions ret=r
//@closure 0 skeleton=`extensions.as_ref().is_none_or(<CLOSURE>)` becomes=`(match extensions.as_ref() { None => true, Some(extensions) => path_matches(extensions, file) })`
//@contract
    ensures
        /*[C15.ext-match,C02.denoted,C12.matching,C13.denoted]*/ r == matches_ext(file.buf(), *extensions),
//@end

// ===========================================================================
// [C15.ext-normalise] config::ir::transform_extensions
// ===========================================================================
/// a missing leading dot is added
pub open spec fn dotted(e: Name) -> Name { if e.len() > 0 && e[0] == '.' { e } else { seq!['.'] + e } }
/// empty entries are ignored, the others are dotted
pub open spec fn norm(v: Seq<String>) -> Set<Name>
    decreases v.len(),
{
    if v.len() == 0 {
        Set::<Name>::empty()
    } else if v.last()@.len() > 0 {
        norm(v.drop_last()).insert(dotted(v.last()@))
    } else {
        norm(v.drop_last())
    }
}
/// [C15.ext-normalise] membership: exactly the dotted non-empty entries
pub proof fn lemma_norm_contains(v: Seq<String>, x: Name)
    ensures norm(v).contains(x) <==> (exists|i: int| 0 <= i < v.len() && (#[trigger] v[i])@.len() > 0 && x == dotted(v[i]@)),
    decreases v.len(),
{
    if v.len() > 0 {
        lemma_norm_contains(v.drop_last(), x);
        let w = v.drop_last();
        if norm(v).contains(x) {
            if norm(w).contains(x) {
                let i = choose|i: int| 0 <= i < w.len() && (#[trigger] w[i])@.len() > 0 && x == dotted(w[i]@);
                assert(v[i] == w[i]);
            } else {
                assert(v[v.len() - 1]@.len() > 0 && x == dotted(v[v.len() - 1]@));
            }
        }
        if exists|i: int| 0 <= i < v.len() && (#[trigger] v[i])@.len() > 0 && x == dotted(v[i]@) {
            let i = choose|i: int| 0 <= i < v.len() && (#[trigger] v[i])@.len() > 0 && x == dotted(v[i]@);
            if i < w.len() { assert(w[i] == v[i]); }
        }
    }
}
/// `v.into_iter().filter(non_empty).map(with_dot).collect::<BTreeSet<_>>()` (A-adapters)
#[verifier::external_body]
pub fn filter_map_collect(v: Vec<String>) -> (r: BTreeSet<String>)
    ensures r@ == norm(v@),
{ unimplemented!() }

//@fn src/config/ir.rs transform_extensions#closure1 as=non_empty params=`ext: &String` bind rty=`bool` ret=r
//@contract
    ensures
        /*[C15.ext-normalise,C02.denoted,C12.matching,C13.denoted]*/ r == (ext@.len() > 0),
//@end

//@fn src/config/ir.rs transform_extensions#closure2 as=with_dot params=`ext: String` bind rty=`String` ret=r
//@replace `format!(".{}", ext)` => `prepend_dot(&ext)` rule=R12 pre why=`format!(".{}", ext) -> prelude function: the text "." followed by ext`
//@contract
    ensures
        /*[C15.ext-normalise,C02.denoted,C12.matching,C13.denoted]*/ r@ == dotted(ext@),
//@pre
        broadcast use axiom_pat_char;
        proof {
            if ext@.len() > 0 { assert(ext@.subrange(0, 1) =~= seq![ext@[0]]); }
            assert(starts_with(ext@, seq!['.']) <==> (ext@.len() > 0 && ext@[0] == '.')) by {
                if ext@.len() > 0 && ext@[0] == '.' { assert(ext@.subrange(0, 1) =~= seq!['.']); }
                if starts_with(ext@, seq!['.']) { assert(ext@.subrange(0, 1)[0] == '.'); }
            }
        }
//@end

//@fn src/config/ir.rs transform_extensions#closure0 as=normalise params=`extensions: Vec<String>` bind rty=`BTreeSet<String>` ret=r
//@closure 1 skeleton=`extensions .into_iter() .filter(<CLOSURE>) .map(<CLOSURE>) .collect::<BTreeSet<_>>()` becomes=`filter_map_collect(extensions)`
//@contract
    ensures
        /*[C15.ext-normalise,C02.denoted,C12.matching,C13.denoted]*/ r@ == norm(extensions@),
//@end

//@fn src/config/ir.rs transform_extensions#closure3 as=set_non_empty params=`extensions: &BTreeSet<String>` bind rty=`bool` ret=r
//@contract
    ensures
        /*[C15.ext-normalise,C02.denoted,C12.matching,C13.denoted]*/ r == (extensions@ != Set::<Name>::empty()),
//@end

//@fn src/config/ir.rs transform_extensions ret=r
//@closure 0 skeleton=`extensions .map(<CLOSURE>) .filter(<CLOSURE>)` becomes=`(match extensions { None => None, Some(extensions) => { let extensions = normalise(extensions); if set_non_empty(&extensions) { Some(extensions) } else { None } } })`
//@contract
    ensures
        /*[C15.ext-normalise,C02.denoted,C12.matching,C13.denoted]*/ extensions is None ==> r is None,
        /*[C15.ext-normalise,C02.denoted,C12.matching,C13.denoted]*/ (extensions matches Some(v) && norm(v@) == Set::<Name>::empty()) ==> r is None,
        /*[C15.ext-normalise,C02.denoted,C12.matching,C13.denoted]*/ (extensions matches Some(v) && norm(v@) != Set::<Name>::empty()) ==> (r matches Some(s) && s@ == norm(extensions->0@)),
//@end

// ===========================================================================
// [C15.listing] fs::list_files_in_path
// ===========================================================================
pub type WalkResult = std::result::Result<DirEntry, WalkError>;

/// some directory strictly above the entry, at or below the root of the walk, is named `.zinoma`
pub open spec fn inside_work_dir(e: DirEntry) -> bool {
    inside_work_dir_n(e, depth(e))
}
pub open spec fn inside_work_dir_n(e: DirEntry, n: nat) -> bool
    decreases n,
{
    n > 0 && (is_wd_dir(parent(e)) || inside_work_dir_n(parent(e), (n - 1) as nat))
}
/// what one listed path denotes: the regular files at or below it that are not inside a directory named
/// `.zinoma` and whose name matches the extensions
pub open spec fn denoted(root: PathBuf, ext: FileExtensions, p: PathBuf) -> bool {
    exists|e: DirEntry| #[trigger] walk_has(root, e) && e.path() == p && is_file_at(p) && !inside_work_dir(e) && matches_ext(p, ext)
}
pub open spec fn keep_spec() -> spec_fn(DirEntry) -> bool { |e: DirEntry| !is_wd_dir(e) }

pub proof fn lemma_kept_chain_file(root: PathBuf, e: DirEntry)
    requires walk_has(root, e), !e.is_dir(),
    ensures kept_chain(e, keep_spec()) == !inside_work_dir(e),
    decreases depth(e),
{
    broadcast use axiom_walk_parent;
    lemma_kept_chain_dir_or_file(root, e);
}
pub proof fn lemma_kept_chain_dir_or_file(root: PathBuf, e: DirEntry)
    requires walk_has(root, e),
    ensures kept_chain(e, keep_spec()) == (!is_wd_dir(e) && !inside_work_dir(e)),
    decreases depth(e),
{
    broadcast use axiom_walk_parent;
    if depth(e) > 0 {
        lemma_kept_chain_dir_or_file(root, parent(e));
    }
}

/// [C15.listing] the entries `filter_entry` lets through and `entry_to_file` keeps are exactly the denoted files
pub proof fn lemma_listing(root: PathBuf, ext: FileExtensions)
    ensures
        forall|p: PathBuf| (exists|e: DirEntry| #[trigger] walk_has(root, e) && kept_chain(e, keep_spec()) && entry_file(Ok(e), ext) == Some(p)) <==> #[trigger] denoted(root, ext, p),
{
    broadcast use axiom_file_not_dir;
    assert forall|p: PathBuf| (exists|e: DirEntry| #[trigger] walk_has(root, e) && kept_chain(e, keep_spec()) && entry_file(Ok(e), ext) == Some(p)) <==> #[trigger] denoted(root, ext, p) by {
        if exists|e: DirEntry| #[trigger] walk_has(root, e) && kept_chain(e, keep_spec()) && entry_file(Ok(e), ext) == Some(p) {
            let e = choose|e: DirEntry| #[trigger] walk_has(root, e) && kept_chain(e, keep_spec()) && entry_file(Ok(e), ext) == Some(p);
            assert(is_file_at(e.path()) && e.path() == p);
            lemma_kept_chain_file(root, e);
            assert(denoted(root, ext, p));
        }
        if denoted(root, ext, p) {
            let e = choose|e: DirEntry| #[trigger] walk_has(root, e) && e.path() == p && is_file_at(p) && !inside_work_dir(e) && matches_ext(p, ext);
            lemma_kept_chain_file(root, e);
            assert(entry_file(Ok(e), ext) == Some(p));
        }
    }
}


//@fn src/fs.rs list_files_in_path#closure3 as=path_is_file params=`path: &PathBuf` bind rty=`bool` ret=r
//@contract
    ensures
        /*[C15.listing,C02.denoted,C03.denoted,C12.matching,C13.denoted]*/ r == is_file_at(*path),
//@end
//@fn src/fs.rs list_files_in_path#closure4 as=file_matches params=`file: &PathBuf, extensions: &Arc<FileExtensions>` bind rty=`bool` ret=r
//@contract
    ensures
        /*[C15.listing,C02.denoted,C03.denoted,C12.matching,C13.denoted]*/ r == matches_ext(*file, extensions.v),
//@end
//@fn src/fs.rs list_files_in_path#closure5 as=path_into params=`path: PathBuf` bind rty=`PathBuf` ret=r
//@contract
    ensures
        /*[C15.listing,C02.denoted,C03.denoted,C12.matching,C13.denoted]*/ r == path,
//@end

/// what the walk's second closure yields for one item
pub open spec fn entry_file(entry: WalkResult, ext: FileExtensions) -> Option<PathBuf> {
    match entry {
        Err(_) => None,
        Ok(e) => if is_file_at(e.path()) && matches_ext(e.path(), ext) { Some(e.path()) } else { None },
    }
}
//@fn src/fs.rs list_files_in_path#closure2 as=entry_to_file params=`entry: WalkResult, extensions: &Arc<FileExtensions>` bind rty=`Option<PathBuf>` ret=r
//@closure 3 skeleton=`Some(path) .filter(<CLOSURE>) .filter(<CLOSURE>) .map(<CLOSURE>)` becomes=`(if path_is_file(&path) && file_matches(&path, extensions) { Some(path_into(path)) } else { None })`
//@contract
    ensures
        /*[C15.listing,C02.denoted,C03.denoted,C12.matching,C13.denoted]*/ r == entry_file(entry, extensions.v),
        /*[C15.missing,C02.denoted]*/ entry is Err ==> r is None,
//@end

//@fn src/fs.rs list_files_in_path#closure1 as=keep_entry params=`e: &DirEntry` bind rty=`bool` ret=r
//@contract
    ensures
        /*[C15.listing,C02.denoted,C03.denoted,C12.matching,C13.denoted]*/ r == !is_wd_dir(*e),
//@end

/// `walkdir.into_iter().filter_entry(keep_entry).filter_map(entry_to_file).collect()` (A-walkdir,
/// A-adapters): the files yielded for the entries that `filter_entry` lets through; items that are
/// errors (missing root, unreadable directory) go through `entry_to_file` like the others
#[verifier::external_body]
pub fn walk_filter_collect(walkdir: WalkDir, extensions: &Arc<FileExtensions>) -> (r: Vec<PathBuf>)
    ensures
        forall|p: PathBuf| #[trigger] r@.contains(p) <==> (exists|e: DirEntry| #[trigger] walk_has(walkdir.root(), e) && kept_chain(e, keep_spec()) && entry_file(Ok(e), extensions.v) == Some(p)),
{ unimplemented!() }

//@fn src/fs.rs list_files_in_path#closure0 as=walk params=`walkdir: WalkDir, extensions: Arc<FileExtensions>` bind rty=`Vec<PathBuf>` ret=r
//@closure 1 skeleton=`walkdir .into_iter() .filter_entry(<CLOSURE>) .filter_map(<CLOSURE>) .collect()` becomes=`walk_filter_collect(walkdir, &extensions)`
//@contract
    ensures
        /*[C15.listing,C02.denoted,C03.denoted,C12.matching,C13.denoted]*/ forall|p: PathBuf| #[trigger] r@.contains(p) <==> denoted(walkdir.root(), extensions.v, p),
//@pre
        proof { lemma_listing(walkdir.root(), extensions.v); }
//@end


//@fn src/fs.rs list_files_in_path ret=r
//@closure 0 skeleton=`task::spawn_blocking(<CLOSURE>) .await` becomes=`walk(walkdir, extensions)`
//@contract
    ensures
        /*[C15.listing,C02.denoted,C03.denoted,C12.matching,C13.denoted]*/ forall|p: PathBuf| #[trigger] r@.contains(p) <==> denoted(path.buf(), *extensions, p),
//@end

// ===========================================================================
// [C15.watch-same] the watcher applies to the path of an event the rule the walk applies to a file
// (WCH unit, [C16.filter]: event_filter == !tmp && !is_in_work_dir(path) && matches_extensions(path, ext);
// the extension half is literally the same function, the `.zinoma` half is compared here)
// ===========================================================================
/// names of the entries from the root of the walk (inclusive) down to `e` (inclusive)
pub open spec fn anc_n(e: DirEntry, n: nat) -> Seq<Option<Name>>
    decreases n,
{
    if n == 0 { seq![e.name_utf8()] } else { anc_n(parent(e), (n - 1) as nat).push(e.name_utf8()) }
}
pub open spec fn anc(e: DirEntry) -> Seq<Option<Name>> { anc_n(e, depth(e)) }
pub open spec fn as_comps(names: Seq<Option<Name>>) -> Seq<Comp> {
    Seq::new(names.len(), |i: int| Comp::Normal { utf8: names[i] })
}
/// A-walkdir: the path of an entry is the root path followed by the names below the root down to it
pub broadcast axiom fn axiom_walk_path(root: PathBuf, e: DirEntry)
    requires #[trigger] walk_has(root, e),
    ensures comps(e.path()) == comps(root) + as_comps(anc(e).skip(1));
/// A-walkdir: the root entry of a walk is named by the last component of the root path when that is a
/// normal component, and is never named `.zinoma` otherwise (`.`, `..`, `/`)
pub broadcast axiom fn axiom_walk_root_name(root: PathBuf, e: DirEntry)
    requires #[trigger] walk_has(root, e), depth(e) == 0,
    ensures comps(root).len() > 0, (e.name_utf8() == Some(wd())) == comp_is_wd(comps(root).last());

pub proof fn lemma_anc_len(e: DirEntry, n: nat)
    ensures anc_n(e, n).len() == n + 1,
    decreases n,
{
    if n > 0 { lemma_anc_len(parent(e), (n - 1) as nat); }
}
/// inside a directory named `.zinoma` == one of the names strictly above the entry is `.zinoma`
pub proof fn lemma_inside_is_anc(root: PathBuf, e: DirEntry)
    requires walk_has(root, e),
    ensures inside_work_dir(e) == (exists|j: int| 0 <= j < depth(e) && #[trigger] anc(e)[j] == Some(wd())),
    decreases depth(e),
{
    broadcast use axiom_walk_parent;
    lemma_anc_len(e, depth(e));
    if depth(e) > 0 {
        let q = parent(e);
        lemma_inside_is_anc(root, q);
        lemma_anc_len(q, depth(q));
        assert(anc(e) == anc(q).push(e.name_utf8()));
        assert(anc(q).last() == q.name_utf8()) by {
            if depth(q) > 0 { assert(anc(q) == anc_n(parent(q), (depth(q) - 1) as nat).push(q.name_utf8())); }
        }
        assert(is_wd_dir(q) == (anc(e)[depth(q) as int] == Some(wd())));
        if inside_work_dir(e) {
            if is_wd_dir(q) {
                assert(anc(e)[depth(q) as int] == Some(wd()));
            } else {
                let j = choose|j: int| 0 <= j < depth(q) && #[trigger] anc(q)[j] == Some(wd());
                assert(anc(e)[j] == Some(wd()));
            }
        }
        if exists|j: int| 0 <= j < depth(e) && #[trigger] anc(e)[j] == Some(wd()) {
            let j = choose|j: int| 0 <= j < depth(e) && #[trigger] anc(e)[j] == Some(wd());
            if j < depth(q) { assert(anc(q)[j] == Some(wd())); }
        }
    }
}

/// [C15.watch-same] for a regular file found by the walk, "some component of its path is `.zinoma`" (the
/// watcher's test on an event path) says the same as "inside a directory named `.zinoma` at or below the
/// listed path" (the walk's test) - except in the two recorded cases, which are the preconditions
pub proof fn lemma_watch_same_rule(root: PathBuf, e: DirEntry)
    requires
        walk_has(root, e),
        // recorded finding [C15.workdir-kind]: the file itself is named `.zinoma`
        e.name_utf8() != Some(wd()),
        // recorded finding [C15.watch-scope]: the listed path itself lies below a directory named `.zinoma`
        forall|i: int| 0 <= i < comps(root).len() - 1 ==> !comp_is_wd(#[trigger] comps(root)[i]),
    ensures
        /*[C15.watch-same,C16.workdir]*/ in_work_dir(e.path()) == inside_work_dir(e),
{
    lemma_watch_rule_general(root, e);
}
/// the comparison without carve-outs: the watcher's test is the walk's test, or the file's own name, or a
/// component above the listed path
pub proof fn lemma_watch_rule_general(root: PathBuf, e: DirEntry)
    requires walk_has(root, e),
    ensures
        in_work_dir(e.path()) == (inside_work_dir(e) || e.name_utf8() == Some(wd())
            || (exists|i: int| 0 <= i < comps(root).len() - 1 && comp_is_wd(#[trigger] comps(root)[i]))),
{
    broadcast use axiom_walk_path;
    lemma_inside_is_anc(root, e);
    lemma_anc_len(e, depth(e));
    lemma_root_of(root, e, depth(e));
    let a = anc(e);
    let cr = comps(root);
    let cp = comps(e.path());
    let rel = as_comps(a.skip(1));
    assert(cp == cr + rel);
    assert(cr.len() > 0);
    assert((a[0] == Some(wd())) == comp_is_wd(cr.last()));
    assert(a.last() == e.name_utf8()) by {
        if depth(e) > 0 { assert(a == anc_n(parent(e), (depth(e) - 1) as nat).push(e.name_utf8())); }
    }
    assert forall|j: int| 1 <= j < a.len() implies (comp_is_wd(#[trigger] cp[cr.len() + j - 1]) == (a[j] == Some(wd()))) by {
        assert(cp[cr.len() + j - 1] == rel[j - 1]);
        assert(rel[j - 1] == Comp::Normal { utf8: a.skip(1)[j - 1] });
    }
    let rhs = inside_work_dir(e) || e.name_utf8() == Some(wd()) || (exists|i: int| 0 <= i < cr.len() - 1 && comp_is_wd(#[trigger] cr[i]));
    if in_work_dir(e.path()) {
        let i = choose|i: int| 0 <= i < cp.len() && comp_is_wd(#[trigger] cp[i]);
        if i < cr.len() - 1 {
            assert(cp[i] == cr[i]);
        } else if i == cr.len() - 1 {
            assert(cp[i] == cr.last());
            assert(a[0] == Some(wd()));
            if depth(e) > 0 { assert(inside_work_dir(e)); }
        } else {
            let j = i - cr.len() + 1;
            assert(cp[cr.len() + j - 1] == cp[i]);
            assert(a[j] == Some(wd()));
            if j < depth(e) { assert(inside_work_dir(e)); }
        }
        assert(rhs);
    }
    if rhs {
        if inside_work_dir(e) {
            let j = choose|j: int| 0 <= j < depth(e) && #[trigger] anc(e)[j] == Some(wd());
            if j == 0 {
                assert(cp[cr.len() - 1] == cr.last());
                assert(comp_is_wd(cp[cr.len() - 1]));
            } else {
                assert(comp_is_wd(cp[cr.len() + j - 1]));
            }
        } else if e.name_utf8() == Some(wd()) {
            if depth(e) == 0 {
                assert(cp[cr.len() - 1] == cr.last());
                assert(comp_is_wd(cp[cr.len() - 1]));
            } else {
                let j = a.len() - 1;
                assert(comp_is_wd(cp[cr.len() + j - 1]));
            }
        } else {
            let i = choose|i: int| 0 <= i < cr.len() - 1 && comp_is_wd(#[trigger] cr[i]);
            assert(cp[i] == cr[i]);
        }
        assert(in_work_dir(e.path()));
    }
}
/// the first name of `anc` is the root entry's, which the last component of the root path names
pub proof fn lemma_root_of(root: PathBuf, e: DirEntry, n: nat)
    requires walk_has(root, e), depth(e) == n,
    ensures comps(root).len() > 0, (anc_n(e, n)[0] == Some(wd())) == comp_is_wd(comps(root).last()),
    decreases n,
{
    broadcast use axiom_walk_parent;
    broadcast use axiom_walk_root_name;
    if n > 0 {
        lemma_root_of(root, parent(e), (n - 1) as nat);
        lemma_anc_len(parent(e), (n - 1) as nat);
    }
}
/// [C15.watch-scope] the same comparison without the scope precondition: does not hold (recorded finding)
pub proof fn lemma_watch_scope(root: PathBuf, e: DirEntry)
    requires
        walk_has(root, e),
        e.name_utf8() != Some(wd()),
    ensures
        /*[C15.watch-scope]*/ in_work_dir(e.path()) == inside_work_dir(e),
{
    lemma_watch_rule_general(root, e);
}

// ===========================================================================
// [C15.listing] fs::list_files_in_paths, fs::list_files_in_resources
// ===========================================================================
/// what a `paths` resource denotes: the union over its paths
pub open spec fn denoted_by_paths(paths: Seq<PathBuf>, ext: FileExtensions, p: PathBuf) -> bool {
    exists|i: int| 0 <= i < paths.len() && denoted(#[trigger] paths[i], ext, p)
}
pub open spec fn denoted_by_resources(rs: Seq<FilesResource>, p: PathBuf) -> bool {
    exists|k: int| 0 <= k < rs.len() && denoted_by_paths((#[trigger] rs[k]).paths@, rs[k].extensions, p)
}
/// `join_all(paths.iter().map(list_one)).await.into_iter().flatten().collect()` (A-adapters): the union
/// of what `list_one` returns for each path (each call satisfies `list_one`'s contract)
#[verifier::external_body]
pub fn join_flatten_paths(paths: &[PathBuf], extensions: &FileExtensions) -> (r: HashSet<PathBuf>)
    ensures forall|p: PathBuf| #[trigger] r@.contains(p) <==> (exists|i: int| 0 <= i < paths@.len() && denoted(#[trigger] paths@[i], *extensions, p)),
{ unimplemented!() }
/// the same chain over resources, for the closure `list_resource`
#[verifier::external_body]
pub fn join_flatten_resources(resources: &[FilesResource]) -> (r: HashSet<PathBuf>)
    ensures forall|p: PathBuf| #[trigger] r@.contains(p) <==> (exists|k: int| 0 <= k < resources@.len() && denoted_by_paths((#[trigger] resources@[k]).paths@, resources@[k].extensions, p)),
{ unimplemented!() }

//@fn src/fs.rs list_files_in_paths#closure0 as=list_one params=`path: &PathBuf, extensions: &FileExtensions` bind rty=`Vec<PathBuf>` ret=r
//@contract
    ensures
        /*[C15.listing,C02.denoted,C03.denoted,C12.matching,C13.denoted]*/ forall|p: PathBuf| #[trigger] r@.contains(p) <==> denoted(*path, *extensions, p),
//@end

//@fn src/fs.rs list_files_in_paths ret=r
//@closure 0 skeleton=`future::join_all( paths .iter() .map(<CLOSURE>), ) .await .into_iter() .flatten() .collect()` becomes=`join_flatten_paths(paths, extensions)`
//@contract
    ensures
        /*[C15.listing,C02.denoted,C03.denoted,C12.matching,C13.denoted]*/ forall|p: PathBuf| #[trigger] r@.contains(p) <==> denoted_by_paths(paths@, *extensions, p),
//@end

//@fn src/fs.rs list_files_in_resources#closure0 as=list_resource params=`resource: &FilesResource` bind rty=`HashSet<PathBuf>` ret=r
//@contract
    ensures
        /*[C15.listing,C02.denoted,C03.denoted,C12.matching,C13.denoted]*/ forall|p: PathBuf| #[trigger] r@.contains(p) <==> denoted_by_paths(resource.paths@, resource.extensions, p),
//@end

//@fn src/fs.rs list_files_in_resources ret=r
//@closure 0 skeleton=`future::join_all( resources .iter() .map(<CLOSURE>), ) .await .into_iter() .flatten() .collect()` becomes=`join_flatten_resources(resources)`
//@contract
    ensures
        /*[C15.listing,C02.denoted,C03.denoted,C12.matching,C13.denoted]*/ forall|p: PathBuf| #[trigger] r@.contains(p) <==> denoted_by_resources(resources@, p),
//@end

/// vacuity probe for the assumed walkdir / path axioms: with all of them in scope, `false` must not follow
pub proof fn axioms_probe(root: PathBuf, e: DirEntry)
    requires walk_has(root, e), depth(e) == 2, e.name_utf8() != Some(wd()), is_file_at(e.path()),
{
    broadcast use axiom_walk_path;
    broadcast use axiom_walk_parent;
    broadcast use axiom_walk_root_name;
    broadcast use axiom_file_not_dir;
    lemma_watch_rule_general(root, e);
    lemma_listing(root, None);
    /*VAC-PROBE: walkdir and path axioms of the FS unit*/
}
//@include footer.rs
