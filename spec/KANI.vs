//@unit KANI
// Generated into kani/src/extracted.rs on every run: the verbatim text of the byte/str predicates of
// /repo (no rewrite rule applied), followed by bounded Kani harnesses (DESIGN §7 C15, C16, C19).
// A-kani: async_std::path::Path is std::path::Path (transparent wrapper); anyhow!'s text is dropped.
#![allow(unused, dead_code)]
use std::collections::BTreeSet;
use std::fmt;
use std::path::{self, Path};

pub struct Error;
pub type Result<T> = std::result::Result<T, Error>;
macro_rules! anyhow {
    ($($t:tt)*) => {
        Error
    };
}

//@item src/domain.rs TargetId
//@item src/domain.rs FileExtensions
//@item src/work_dir.rs WORK_DIR_NAME

impl TargetId {
//@fn src/domain.rs TargetId::try_parse verbatim
//@end
}
impl fmt::Display for TargetId {
//@fn src/domain.rs TargetId::fmt verbatim
//@end
}
//@fn src/domain.rs matches_extensions verbatim
//@end
//@fn src/config/ir.rs transform_extensions verbatim
//@end
//@fn src/work_dir.rs is_in_work_dir verbatim
//@end
//@fn src/engine/watcher.rs is_tmp_editor_file verbatim
//@end

//@include kani_harnesses.rs
