//@unit CFG
//@dropderive Debug,Serialize,Deserialize,Clone,Copy,JsonSchema
//@subst domain::TargetId => TargetId
//@subst domain::Target => Target
//@subst yaml::Project => Project
//@subst yaml::Target => YamlTarget
//@subst yaml::InputResources => InputResources
//@subst yaml::OutputResources => OutputResources
//@subst yaml::InputResource => InputResource
//@subst yaml::OutputResource => OutputResource
//@subst yaml::Config => YamlConfig
//@subst Config::load_project => load_project
//@include header.rs
//@include std_ext.rs

// ===========================================================================
// domain types (verbatim from /repo)
// ===========================================================================
//@item src/domain.rs TargetId
//@item src/domain.rs TargetMetadata
//@item src/domain.rs BuildTarget
//@item src/domain.rs ServiceTarget
//@item src/domain.rs AggregateTarget
//@item src/domain.rs Target
//@item src/domain.rs FilesResource dropderive=PartialEq
//@item src/domain.rs FileExtensions
//@item src/domain.rs CmdResource dropderive=PartialEq
//@item src/domain.rs Resources dropderive=PartialEq
//@item src/config/yaml/schema.rs Project pubfields tsubst=Target:YamlTarget
//@item src/config/yaml/schema.rs Target as=YamlTarget dropderive=Default
//@item src/config/yaml/schema.rs Dependencies dropderive=Default
//@item src/config/yaml/schema.rs InputResources dropderive=Default
//@item src/config/yaml/schema.rs OutputResources dropderive=Default
//@item src/config/yaml/schema.rs InputResource
//@item src/config/yaml/schema.rs OutputResource
//@item src/config/ir.rs Config pubfields
//@item src/config/yaml/mod.rs Config as=YamlConfig pubfields

#[verifier::external_body]
#[verifier::reject_recursive_types(T)]
pub struct BTreeSet<T> { _p: std::marker::PhantomData<T> }

pub broadcast axiom fn axiom_tid_key_model()
    ensures #[trigger] obeys_key_model::<TargetId>();
pub broadcast axiom fn axiom_path_key_model()
    ensures #[trigger] obeys_key_model::<PathBuf>();
pub broadcast axiom fn axiom_optstr_key_model()
    ensures #[trigger] obeys_key_model::<Option<String>>();
pub broadcast group group_keys {
    axiom_tid_key_model, axiom_path_key_model, axiom_optstr_key_model, axiom_key_borrows_self,
}

impl Clone for TargetId {
    #[verifier::external_body]
    fn clone(&self) -> (r: Self) ensures r == *self { unimplemented!() }
}
impl Clone for FilesResource {
    #[verifier::external_body]
    fn clone(&self) -> (r: Self) ensures r == *self { unimplemented!() }
}
impl Clone for CmdResource {
    #[verifier::external_body]
    fn clone(&self) -> (r: Self) ensures r == *self { unimplemented!() }
}

// ===========================================================================
// domain.rs helpers
// ===========================================================================
impl Resources {
    pub open spec fn is_empty_spec(&self) -> bool { self.files@.len() == 0 && self.cmds@.len() == 0 }
//@fn src/domain.rs Resources::new ret=r
//@lsubst Self => Resources
//@contract
    ensures r.files@.len() == 0 && r.cmds@.len() == 0,
//@end
//@fn src/domain.rs Resources::is_empty ret=r
//@contract
    ensures r == self.is_empty_spec(),
//@end
//@fn src/domain.rs Resources::extend
//@contract
    ensures
        /*[C13.extend,C02.inherited,C03.inherited]*/ final(self).files@ == old(self).files@ + other.files@,
        /*[C13.extend,C02.inherited,C03.inherited]*/ final(self).cmds@ == old(self).cmds@ + other.cmds@,
//@after 0 `self.files.extend_from_slice(&other.files);`
        proof { assert(self.files@ =~= old(self).files@ + other.files@); }
//@after 0 `self.cmds.extend_from_slice(&other.cmds);`
        proof { assert(self.cmds@ =~= old(self).cmds@ + other.cmds@); }
//@end
}

impl Target {
    pub open spec fn meta(&self) -> TargetMetadata {
        match self {
            Target::Build(t) => t.metadata,
            Target::Service(t) => t.metadata,
            Target::Aggregate(t) => t.metadata,
        }
    }
    pub open spec fn inp(&self) -> Option<Resources> {
        match self { Target::Build(t) => Some(t.input), Target::Service(t) => Some(t.input), _ => None }
    }
    pub open spec fn out(&self) -> Option<Resources> {
        match self { Target::Build(t) => Some(t.output), _ => None }
    }
    /// same variant, script, outputs, id and project directory
    pub open spec fn same_but_deps_input(&self, o: &Target) -> bool {
        &&& self.meta().id == o.meta().id && self.meta().project_dir == o.meta().project_dir
        &&& self.out() == o.out()
        &&& match (self, o) {
                (Target::Build(a), Target::Build(b)) => a.build_script == b.build_script,
                (Target::Service(a), Target::Service(b)) => a.run_script == b.run_script,
                (Target::Aggregate(_), Target::Aggregate(_)) => true,
                _ => false,
            }
    }
//@fn src/domain.rs Target::metadata ret=r
//@contract
    ensures /*[C09.keyed]*/ *r == self.meta(),
//@end
//@fn src/domain.rs Target::id ret=r
//@contract
    ensures /*[C09.keyed]*/ *r == self.meta().id,
//@end
//@fn src/domain.rs Target::dependencies ret=r
//@contract
    ensures /*[C09.closed,C20.nesting]*/ *r == self.meta().dependencies,
//@end
//@fn src/domain.rs Target::extend_dependencies
//@contract
    ensures
        final(self).same_but_deps_input(old(self)), final(self).inp() == old(self).inp(),
        /*[C01.outdep,C13.dep,C07.blocked]*/ final(self).meta().dependencies@ == old(self).meta().dependencies@ + additional_dependencies@,
//@after 0 `metadata`
        proof { assert(metadata.dependencies@ =~= old(self).meta().dependencies@ + additional_dependencies@); }
//@end
//@fn src/domain.rs Target::extend_input ret=r
//@contract
    ensures
        final(self).same_but_deps_input(old(self)), final(self).meta().dependencies == old(self).meta().dependencies,
        /*[C13.inherit,C02.inherited,C03.inherited]*/ r is Ok ==> old(self).inp() is Some && final(self).inp() is Some
            && final(self).inp()->Some_0.files@ == old(self).inp()->Some_0.files@ + resources.files@
            && final(self).inp()->Some_0.cmds@ == old(self).inp()->Some_0.cmds@ + resources.cmds@,
        r is Err ==> *final(self) == *old(self) && *old(self) is Aggregate,
        *old(self) is Aggregate ==> r is Err,
//@end
}

// ===========================================================================
// yaml/mod.rs: loading projects
// ===========================================================================
pub broadcast axiom fn axiom_strref_key_model()
    ensures #[trigger] obeys_key_model::<&String>();

/// a project or target name is acceptable: `^\w[-\w]*$` (regex crate: A-yaml; in particular no `:`, `/` or `.`)
pub uninterp spec fn valid_name(s: Seq<char>) -> bool;
/// `is_valid_target_name` / `is_valid_project_name`: real signatures, the regex match is assumed (fingerprinted)
//@fn src/config/yaml/mod.rs is_valid_target_name assumed ret=r
//@contract
    ensures r == valid_name(target_name@),
//@end
//@fn src/config/yaml/mod.rs is_valid_project_name assumed ret=r
//@contract
    ensures r == valid_name(project_name@),
//@end
/// `File::open(project_dir/zinoma.yml)` + `serde_yaml::from_reader` (A-yaml: parsing is not modelled)
#[verifier::external_body]
pub fn read_project_file(project_dir: &PathBuf) -> (r: Result<Project>)
{ unimplemented!() }
/// `project.targets.keys().find(closure)` for the closure `not_valid_target` (A-all: the first key for which the
/// closure is true, None when it is false for every key)
#[verifier::external_body]
pub fn find_invalid_target_name(project: &Project) -> (r: Option<&String>)
    ensures
        r matches Some(k) ==> project.targets@.contains_key(*k) && !valid_name(k@),
        r is None ==> forall|k: String| #![trigger project.targets@.contains_key(k)] project.targets@.contains_key(k) ==> valid_name(k@),
{ unimplemented!() }

//@fn src/config/yaml/mod.rs Config::load_project#closure0 as=not_valid_target params=`target_name: &String` rty=`bool` ret=r
//@contract
    ensures /*[C14.names-valid]*/ r == !valid_name(target_name@),
//@end

/// [C14.names-valid] a project is accepted only if its own name and every target name is acceptable
//@fn src/config/yaml/mod.rs Config::load_project ret=r
//@replace `project_dir: &Path` => `project_dir: &PathBuf` rule=R11 pre why=`std::path::Path and PathBuf are both the prelude's opaque PathBuf in this unit`
//@replace `        let config_file_path = project_dir.join("zinoma.yml");\n        let config_file = File::open(&config_file_path).with_context(|| {\n            format!("Failed to open config file {}", config_file_path.display())\n        })?;\n        let project: Project = serde_yaml::from_reader(config_file)\n            .with_context(|| format!("Invalid format for {}", config_file_path.display()))?;` => `        let project: Project = read_project_file(project_dir)?;\n\n\n\n\n` rule=R15 pre why=`opening and parsing zinoma.yml -> prelude stub (A-yaml)`
//@closure 0 skeleton=`if let Some(invalid_target_name) = project .targets .keys() .find(<CLOSURE>) { return Err(anyhow!( "{} is not a valid target name", invalid_target_name )); }` becomes=`if let Some(invalid_target_name) = find_invalid_target_name(&project) { return Err(anyhow_error()); }`
//@contract
    ensures
        /*[C14.names-valid]*/ r matches Ok(p) ==> (p.name matches Some(n) ==> valid_name(n@)),
        /*[C14.names-valid]*/ r matches Ok(p) ==> forall|k: String| #![trigger p.targets@.contains_key(k)] p.targets@.contains_key(k) ==> valid_name(k@),
//@end
/// [C18.canonical] the path is the canonical name of its directory: absolute, no `.`/`..`, links resolved - one
/// name per directory, whichever way it was reached (A-fs: this is what `dunce::canonicalize` returns)
pub uninterp spec fn is_canonical(p: PathBuf) -> bool;
pub open spec fn all_canonical(ps: Map<PathBuf, Project>) -> bool {
    forall|d: PathBuf| #![trigger ps.contains_key(d)] ps.contains_key(d) ==> is_canonical(d)
}

/// `canonicalize_dir`: `dunce::canonicalize(dir)` with the error reworded (A-fs: real signature, body not verified,
/// its text is fingerprinted)
//@fn src/config/yaml/mod.rs canonicalize_dir assumed ret=r
//@replace `dir: &Path` => `dir: &PathBuf` rule=R11 pre why=`std::path::Path and PathBuf are both the prelude's opaque PathBuf in this unit`
//@contract
    ensures
        r matches Ok(d) ==> is_canonical(d),
//@end
/// `project.imports.iter().map(|(name, dir)| canonicalize_dir(project_dir.join(dir)).map(|d| (name.clone(), d))).collect::<Result<Vec<_>>>()`
/// (A-all + A-yaml: one (import name, canonical directory) pair per import)
#[verifier::external_body]
pub fn import_paths_of(project: &Project, project_dir: &PathBuf) -> (r: Result<Vec<(String, PathBuf)>>)
    ensures r matches Ok(v) ==> forall|i: int| #![trigger v@[i]] 0 <= i < v@.len() ==> project.imports@.contains_key(v@[i].0) && is_canonical(v@[i].1),
{ unimplemented!() }

//@fn src/config/yaml/mod.rs Config::load::add_project#closure1 as=name_and_dir params=`dir: PathBuf, import_name: &String` bind rty=`(String, PathBuf)` ret=r
//@contract
    ensures
        r.0 == *import_name && r.1 == dir,
//@end
//@fn src/config/yaml/mod.rs Config::load::add_project#closure0 as=import_path_of params=`import_name: &String, import_dir: &String, project_dir: &PathBuf` rty=`Result<(String, PathBuf)>` ret=r
//@closure 1 skeleton=`canonicalize_dir(&project_dir.join(import_dir)) .map(<CLOSURE>)` becomes=`(match canonicalize_dir(&project_dir.join(import_dir)) { Ok(dir) => Ok(name_and_dir(dir, import_name)), Err(e) => Err(e) })`
//@contract
    ensures
        /*[C18.canonical]*/ r matches Ok(pair) ==> pair.0 == *import_name && is_canonical(pair.1),
//@end
/// `res.and_then(closure)` for the closure `import_name_check` (A-all: applies the closure to an Ok)
#[verifier::external_body]
pub fn and_then_import_check(res: Result<()>, projects: &HashMap<PathBuf, Project>, import_dir: &PathBuf, import_name: &String) -> (r: Result<()>)
    ensures res is Err ==> r is Err,
        r is Ok ==> res is Ok && import_ok(projects@, *import_dir, *import_name),
{ unimplemented!() }
/// [C14.import-name] the imported project has a name and it equals the import key
pub open spec fn import_ok(ps: Map<PathBuf, Project>, dir: PathBuf, name: String) -> bool {
    ps.contains_key(dir) && ps[dir].name == Some(name)
}

#[verifier::external_body]
pub fn str_ne(a: &String, b: &String) -> (r: bool)
    ensures r == (*a != *b),
{ unimplemented!() }

/// two Strings with the same characters are the same value (A-std)
pub axiom fn axiom_string_ext(a: String, b: String)
    requires a@ == b@,
    ensures a == b;

//@fn src/config/yaml/mod.rs Config::load::add_project#closure2 as=import_name_check params=`projects: &HashMap<PathBuf, Project>, import_dir: PathBuf, import_name: String` rty=`Result<()>` ret=r
//@replace `name != &import_name` => `str_ne(name, &import_name)` rule=R15 pre why=`&String != &String written as a helper call with the contract r == (a != b) (vstd has no spec for PartialEq::ne on references)`
//@contract
    requires projects@.contains_key(import_dir),
    ensures
        /*[C14.import-name,C19.names-unique]*/ r is Ok ==> import_ok(projects@, import_dir, import_name),
//@pre
        broadcast use group_keys;
        broadcast use vstd::std_specs::hash::group_hash_axioms;
        proof {
            if let Some(n) = projects@[import_dir].name {
                if n@ == import_name@ { axiom_string_ext(n, import_name); }
            }
        }
//@end

pub open spec fn ext_p(a: Map<PathBuf, Project>, b: Map<PathBuf, Project>) -> bool {
    forall|d: PathBuf| #![trigger a.contains_key(d)] #![trigger b.contains_key(d)] a.contains_key(d) ==> b.contains_key(d) && b[d] == a[d]
}

//@fn src/config/yaml/mod.rs Config::load::add_project ret=r
//@attr #[verifier::exec_allows_no_decreases_clause]
//@attr #[verifier::loop_isolation(false)]
//@closure 0 skeleton=`let import_paths = project .imports .iter() .map(<CLOSURE>) .collect::<Result<Vec<_>>>()?;` becomes=`let import_paths = import_paths_of(&project, &project_dir)?;`
//@closure 2 skeleton=`add_project(import_dir.clone(), projects) .and_then(<CLOSURE>) .with_context(|| format!("Failed to import {}", &import_name))?;` becomes=`ctx(and_then_import_check(add_project(import_dir.clone(), projects), projects, &import_dir, &import_name))?;`
//@contract
    requires
        is_canonical(project_dir), all_canonical(old(projects)@),
    ensures
        r is Ok ==> final(projects)@.contains_key(project_dir),
        ext_p(old(projects)@, final(projects)@),
        /*[C14.load-once]*/ old(projects)@.contains_key(project_dir) ==> final(projects)@ == old(projects)@ && r is Ok,
        /*[C18.canonical]*/ all_canonical(final(projects)@),
//@pre
        broadcast use group_keys;
        broadcast use vstd::std_specs::hash::group_hash_axioms;
//@loop 0 binder=it
            invariant
                projects@.contains_key(project_dir),
                ext_p(old(projects)@, projects@),
                /*[C18.canonical]*/ all_canonical(projects@),
                forall|i: int| #![trigger it.seq()[i]] 0 <= i < it.seq().len() ==> is_canonical(it.seq()[i].1),
//@loopbody
            broadcast use group_keys;
            broadcast use vstd::std_specs::hash::group_hash_axioms;
            let ghost pb = projects@;
            proof {
                assert forall|p2: Map<PathBuf, Project>| #[trigger] ext_p(pb, p2) implies ext_p(old(projects)@, p2) by { }
            }
//@end

impl YamlConfig {
//@fn src/config/yaml/mod.rs Config::load ret=r
//@lsubst Self => YamlConfig
//@replace `root_project_dir: &Path` => `root_project_dir: &PathBuf` rule=R11 pre why=`std::path::Path and PathBuf are both the prelude's opaque PathBuf in this unit`
//@contract
    ensures
        r matches Ok(c) ==> c.projects@.contains_key(c.root_project_dir),
        /*[C14.unique,C09.names-unique,C19.names-unique]*/ r matches Ok(c) ==> names_distinct(c.projects@),
        /*[C18.canonical]*/ r matches Ok(c) ==> all_canonical(c.projects@),
//@pre
        broadcast use group_keys;
        broadcast use axiom_strref_key_model;
        broadcast use vstd::std_specs::hash::group_hash_axioms;
        broadcast use lemma_take_all;
//@loop 0 binder=it
            invariant
                projects@.contains_key(root_project_dir),
                all_canonical(projects@),
                it.seq().unref().to_set() == projects@.values(),
                forall|v: Project| #![trigger it.seq().take(it.index@ as int).unref().to_set().contains(v)] it.seq().take(it.index@ as int).unref().to_set().contains(v) && v.name is Some ==> project_names@.contains(&v.name->Some_0),
                /*[C14.unique,C09.names-unique,C19.names-unique]*/ distinct_in(it.seq().take(it.index@ as int).unref().to_set()),
//@loopbody
            broadcast use group_keys;
            broadcast use axiom_strref_key_model;
            broadcast use vstd::std_specs::hash::group_hash_axioms;
            proof {
                let h = it.seq().take(it.index@ as int);
                let h2 = it.seq().take(it.index@ as int + 1);
                assert(h2 =~= h.push(project));
                assert(h2.unref() =~= h.unref().push(*project));
                h.unref().lemma_push_to_set_commute(*project);
            }
//@end
}

pub open spec fn distinct_in(vs: Set<Project>) -> bool {
    forall|v1: Project, v2: Project| #![trigger vs.contains(v1), vs.contains(v2)] vs.contains(v1) && vs.contains(v2) && v1 != v2 && v1.name is Some ==> v1.name != v2.name
}

/// [C14.unique] no two loaded projects (as enumerated) carry the same name
pub open spec fn names_distinct(ps: Map<PathBuf, Project>) -> bool {
    distinct_in(ps.values())
}

// ===========================================================================
// ir.rs: From<yaml::Config>, try_into_domain_targets / add_target
// ===========================================================================
pub broadcast axiom fn axiom_string_key_model()
    ensures #[trigger] obeys_key_model::<String>();

/// `map.into_iter().map(closure).collect()` into a HashMap for the closure `project_entry` (A-all: fold of
/// insert; a later entry with the same key wins)
#[verifier::external_body]
pub fn collect_by_name(ps: HashMap<PathBuf, Project>) -> (r: HashMap<Option<String>, (PathBuf, Project)>)
    ensures
        forall|d: PathBuf| #![trigger ps@[d]] ps@.contains_key(d) ==> r@.contains_key(ps@[d].name),
        forall|k: Option<String>| #![trigger r@[k]] r@.contains_key(k) ==> ps@.contains_key(r@[k].0) && ps@[r@[k].0] == r@[k].1 && r@[k].1.name == k,
{ unimplemented!() }

//@fn src/config/ir.rs Config::from#closure0 as=project_entry params=`project_dir: PathBuf, project: Project` rty=`(Option<String>, (PathBuf, Project))` ret=r
//@replace `(project.name.clone(), (project_dir.into(), project))` => `(project.name.clone(), (path_into(project_dir), project))` rule=R11 pre why=`std PathBuf -> async PathBuf conversion is the identity on the prelude's single PathBuf type`
//@contract
    ensures
        /*[C14.injective,C09.names-unique,C19.names-unique]*/ r.0 == project.name && r.1 == (project_dir, project),
//@end

#[verifier::external_body]
pub fn path_into(p: PathBuf) -> (r: PathBuf) ensures r == p { unimplemented!() }

impl Config {
//@fn src/config/ir.rs Config::from ret=r
//@lsubst Self => Config
//@closure 0 skeleton=`config .projects .into_iter() .map(<CLOSURE>) .collect()` becomes=`collect_by_name(config.projects)`
//@replace `.name.to_owned()` => `.name.clone()` rule=R15 pre why=`to_owned() on Option<String> is clone() (ToOwned for T: Clone)`
//@contract
    requires
        config.projects@.contains_key(config.root_project_dir),
    ensures
        /*[C19.root-name]*/ r.root_project_name == config.projects@[config.root_project_dir].name,
        /*[C14.injective,C09.names-unique,C19.names-unique]*/ forall|d: PathBuf| #![trigger config.projects@[d]] config.projects@.contains_key(d) ==> r.projects@.contains_key(config.projects@[d].name),
        /*[C14.injective,C09.names-unique,C19.names-unique]*/ forall|k: Option<String>| #![trigger r.projects@[k]] r.projects@.contains_key(k) ==> config.projects@.contains_key(r.projects@[k].0) && config.projects@[r.projects@[k].0] == r.projects@[k].1 && r.projects@[k].1.name == k,
//@pre
        broadcast use group_keys;
        broadcast use vstd::std_specs::hash::group_hash_axioms;
//@end
}

// ---------------------------------------------------------------------------
// add_target: depth-first resolution of the dependency closure
// ---------------------------------------------------------------------------
// ---------------------------------------------------------------------------
// transform_target / transform_input / transform_output: from a parsed yaml target to a domain target
// ---------------------------------------------------------------------------
/// `TargetId::try_parse(text, current)` as a function (its body — `split("::")` and slice patterns — is
/// only exercised by the bounded Kani harness `try_parse_spec`, C19.parse): None = rejected
pub uninterp spec fn parse_ref(text: Seq<char>, current: Option<String>) -> Option<TargetId>;
/// group 1 of `^((\w[-\w]*::)?\w[-\w]*)\.output$` on an input entry, None when it does not match (regex crate: A-yaml)
pub uninterp spec fn output_ref_text(entry: Seq<char>) -> Option<Seq<char>>;
/// what the regex accepts has at most one `::`, so `try_parse` accepts it (A-yaml; this is why the code may unwrap)
pub broadcast axiom fn axiom_output_ref_parses(entry: Seq<char>, current: Option<String>)
    requires output_ref_text(entry) is Some,
    ensures #[trigger] parse_ref(output_ref_text(entry)->Some_0, current) is Some;
/// `project_dir.join(path)` (A-fs)
pub uninterp spec fn path_join(dir: PathBuf, rel: String) -> PathBuf;
/// `transform_extensions` as a function (body: bounded Kani harness `transform_extensions_spec`, C15.ext-normalise)
pub uninterp spec fn ext_norm(e: Option<Vec<String>>) -> FileExtensions;

pub open spec fn parse_many(names: Seq<String>, current: Option<String>) -> Option<Seq<TargetId>>
    decreases names.len()
{
    if names.len() == 0 { Some(Seq::empty()) } else {
        match (parse_many(names.drop_last(), current), parse_ref(names.last()@, current)) {
            (Some(p), Some(id)) => Some(p.push(id)),
            _ => None,
        }
    }
}
pub open spec fn deps_of(t: YamlTarget) -> Seq<String> {
    match t {
        YamlTarget::Build { dependencies, .. } => dependencies.0@,
        YamlTarget::Service { dependencies, .. } => dependencies.0@,
        YamlTarget::Aggregate { dependencies } => dependencies.0@,
    }
}
pub open spec fn inputs_of(t: YamlTarget) -> Seq<InputResource> {
    match t {
        YamlTarget::Build { input, .. } => input.0@,
        YamlTarget::Service { input, .. } => input.0@,
        YamlTarget::Aggregate { .. } => Seq::empty(),
    }
}
/// [C19.ref-default] one step of collecting the `X.output` producers: a reference is parsed in the project
/// of the target that makes it (`current`) — so a bare name means a target of that same project
pub open spec fn dfi_step(dfi: Seq<TargetId>, resource: InputResource, current: Option<String>) -> Option<Seq<TargetId>> {
    match resource {
        InputResource::DependencyOutput(id) => match output_ref_text(id@) {
            Some(t) => match parse_ref(t, current) { Some(d) => Some(dfi.push(d)), None => None },
            None => None,
        },
        _ => Some(dfi),
    }
}
pub open spec fn dfi_fold(rs: Seq<InputResource>, current: Option<String>) -> Option<Seq<TargetId>>
    decreases rs.len()
{
    if rs.len() == 0 { Some(Seq::empty()) } else {
        match dfi_fold(rs.drop_last(), current) { Some(d) => dfi_step(d, rs.last(), current), None => None }
    }
}
/// dependency ids written under `dependencies:` of a yaml target, parsed in the project `current`
pub open spec fn yaml_deps(t: YamlTarget, current: Option<String>) -> Seq<TargetId> {
    match parse_many(deps_of(t), current) { Some(s) => s, None => Seq::empty() }
}
/// producer ids of the `X.output` inputs of a yaml target, parsed in the project `current`
pub open spec fn yaml_output_refs(t: YamlTarget, current: Option<String>) -> Seq<TargetId> {
    match dfi_fold(inputs_of(t), current) { Some(s) => s, None => Seq::empty() }
}

#[verifier::external_body]
pub struct Path { _p: () }
impl Path {
    pub uninterp spec fn buf(&self) -> PathBuf;
    #[verifier::external_body]
    pub fn to_owned(&self) -> (r: PathBuf) ensures r == self.buf() { unimplemented!() }
}
impl std::ops::Deref for PathBuf {
    type Target = Path;
    #[verifier::external_body]
    fn deref(&self) -> (r: &Path) ensures r.buf() == *self { unimplemented!() }
}
/// the regex of `X.output` entries (R19)
pub struct RegexStub { }
#[verifier::external_body]
pub struct Captures { _p: () }
#[verifier::external_body]
pub struct ReMatch { _p: () }
pub const RE: RegexStub = RegexStub { };
impl RegexStub {
    #[verifier::external_body]
    pub fn captures(&self, s: &String) -> (r: Option<Captures>)
        ensures r is Some <==> output_ref_text(s@) is Some, r matches Some(c) ==> c.group1() == output_ref_text(s@)->Some_0,
    { unimplemented!() }
}
impl Captures {
    pub uninterp spec fn group1(&self) -> Seq<char>;
    #[verifier::external_body]
    pub fn get(&self, i: usize) -> (r: Option<ReMatch>)
        ensures i == 1 ==> r is Some && r->Some_0.text() == self.group1(),
    { unimplemented!() }
}
impl ReMatch {
    pub uninterp spec fn text(&self) -> Seq<char>;
    #[verifier::external_body]
    pub fn as_str(&self) -> (r: &str) ensures r@ == self.text() { unimplemented!() }
}

impl TargetId {
/// `TargetId::try_parse` / `try_parse_many`: real signatures; bodies are string code (bounded Kani harness)
//@fn src/domain.rs TargetId::try_parse assumed ret=r
//@lsubst Self => TargetId
//@contract
    ensures r matches Ok(id) ==> parse_ref(target_name@, *current_project) == Some(id),
        r is Err ==> parse_ref(target_name@, *current_project) is None,
//@end
//@fn src/domain.rs TargetId::try_parse_many assumed ret=r
//@lsubst Self => TargetId
//@contract
    ensures r matches Ok(v) ==> parse_many(target_names@, *current_project) == Some(v@),
        r is Err ==> parse_many(target_names@, *current_project) is None,
//@end
}

//@fn src/config/ir.rs get_dependencies ret=r
//@contract
    ensures r@ == deps_of(*target),
//@end

/// `transform_extensions` (body: iterator adapters; bounded Kani harness)
//@fn src/config/ir.rs transform_extensions assumed ret=r
//@contract
    ensures r == ext_norm(extensions),
//@end

/// `paths.iter().map(|path| project_dir.join(path)).collect()` for the closure `join_one` (A-all)
#[verifier::external_body]
pub fn join_paths(project_dir: &Path, paths: &Vec<String>) -> (r: Vec<PathBuf>)
    ensures r@.len() == paths@.len(), forall|i: int| #![trigger r@[i]] 0 <= i < r@.len() ==> r@[i] == path_join(project_dir.buf(), paths@[i]),
{ unimplemented!() }
/// `input.0.into_iter().try_fold((Resources::new(), Vec::new()), closure)` for the closure `input_step` (A-all:
/// folds the closure over the entries in order and stops at the first Err)
#[verifier::external_body]
pub fn try_fold_inputs(input: InputResources, target_id: &TargetId, project_dir: &Path) -> (r: Result<(Resources, Vec<TargetId>)>)
    ensures r matches Ok(x) ==> dfi_fold(input.0@, target_id.project_name) == Some(x.1@),
        r is Err ==> dfi_fold(input.0@, target_id.project_name) is None,
{ unimplemented!() }
/// `output.0.into_iter().fold(Resources::new(), closure)` for the closure `output_step` (A-all)
#[verifier::external_body]
pub fn fold_outputs(output: OutputResources, project_dir: &Path) -> (r: Resources)
{ unimplemented!() }

//@fn src/config/ir.rs transform_input#closure1 as=join_one params=`project_dir: &Path, path: &String` rty=`PathBuf` ret=r
//@contract
    ensures /*[C13.paths-bound,C12.declared-path,C15.declared-path]*/ r == path_join(project_dir.buf(), *path),
//@end
impl Path {
    #[verifier::external_body]
    pub fn join(&self, p: &String) -> (r: PathBuf) ensures r == path_join(self.buf(), *p) { unimplemented!() }
}

//@fn src/config/ir.rs transform_input#closure0 as=input_step params=`acc: (Resources, Vec<TargetId>), resource: InputResource, target_id: &TargetId, project_dir: &Path` rty=`Result<(Resources, Vec<TargetId>)>` ret=r
//@closure 1 skeleton=`paths.iter().map(<CLOSURE>).collect()` becomes=`join_paths(project_dir, &paths)`
//@contract
    ensures
        /*[C19.ref-default,C09.ref-parse,C20.nesting]*/ r matches Ok(x) ==> dfi_step(acc.1@, resource, target_id.project_name) == Some(x.1@),
        /*[C09.ref-parse]*/ r is Err ==> dfi_step(acc.1@, resource, target_id.project_name) is None,
        /*[C13.cmd-dir-bound,C02.declared-dir]*/ r is Ok && resource is CmdStdout ==> r->Ok_0.0.files@ == acc.0.files@ && r->Ok_0.0.cmds@.len() == acc.0.cmds@.len() + 1
            && r->Ok_0.0.cmds@.last().dir == project_dir.buf() && r->Ok_0.0.cmds@.last().cmd == resource->cmd_stdout,
        /*[C13.paths-bound,C12.declared-path,C15.declared-path]*/ r is Ok && resource is Files ==> r->Ok_0.0.cmds@ == acc.0.cmds@ && r->Ok_0.0.files@.len() == acc.0.files@.len() + 1
            && r->Ok_0.0.files@.last().extensions == ext_norm(resource->Files_extensions)
            && r->Ok_0.0.files@.last().paths@.len() == resource->Files_paths@.len()
            && forall|i: int| #![trigger r->Ok_0.0.files@.last().paths@[i]] 0 <= i < resource->Files_paths@.len() ==> r->Ok_0.0.files@.last().paths@[i] == path_join(project_dir.buf(), resource->Files_paths@[i]),
        r is Ok && resource is DependencyOutput ==> r->Ok_0.0.files@ == acc.0.files@ && r->Ok_0.0.cmds@ == acc.0.cmds@,
//@pre
        broadcast use axiom_output_ref_parses;
        let (mut input, mut dependencies_from_input) = acc;
//@end

//@fn src/config/ir.rs transform_input ret=r
//@closure 0 skeleton=`input.0.into_iter().try_fold( (domain::Resources::new(), Vec::new()), <CLOSURE>, )` becomes=`try_fold_inputs(input, target_id, project_dir)`
//@contract
    ensures r matches Ok(x) ==> dfi_fold(input.0@, target_id.project_name) == Some(x.1@),
        r is Err ==> dfi_fold(input.0@, target_id.project_name) is None,
//@end

//@fn src/config/ir.rs transform_output#closure1 as=join_one_out params=`project_dir: &Path, path: &String` rty=`PathBuf` ret=r
//@contract
    ensures /*[C13.paths-bound,C12.declared-path,C15.declared-path]*/ r == path_join(project_dir.buf(), *path),
//@end

//@fn src/config/ir.rs transform_output#closure0 as=output_step params=`acc0: Resources, resource: OutputResource, project_dir: &Path` rty=`Resources` ret=r
//@closure 1 skeleton=`paths.iter().map(<CLOSURE>).collect()` becomes=`join_paths(project_dir, &paths)`
//@contract
    ensures
        /*[C13.cmd-dir-bound,C02.declared-dir]*/ resource is CmdStdout ==> r.files@ == acc0.files@ && r.cmds@.len() == acc0.cmds@.len() + 1
            && r.cmds@.last().dir == project_dir.buf() && r.cmds@.last().cmd == resource->cmd_stdout,
        /*[C13.paths-bound,C12.declared-path,C15.declared-path]*/ resource is Files ==> r.cmds@ == acc0.cmds@ && r.files@.len() == acc0.files@.len() + 1
            && r.files@.last().extensions == ext_norm(resource->Files_extensions)
            && r.files@.last().paths@.len() == resource->Files_paths@.len()
            && forall|i: int| #![trigger r.files@.last().paths@[i]] 0 <= i < resource->Files_paths@.len() ==> r.files@.last().paths@[i] == path_join(project_dir.buf(), resource->Files_paths@[i]),
//@pre
        let mut acc = acc0;
//@end

//@fn src/config/ir.rs transform_output ret=r
//@closure 0 skeleton=`output .0 .into_iter() .fold(domain::Resources::new(), <CLOSURE>)` becomes=`fold_outputs(output, project_dir)`
//@contract
    ensures true,
//@end

/// `transform_target`: builds the domain target of the given id in the given directory; its dependencies
/// are the parsed `dependencies:` (parsed in the target's own project); it also returns the producers named
/// by `X.output` inputs; aggregates have no inputs
//@fn src/config/ir.rs transform_target ret=r
//@contract
    ensures
        /*[C09.keyed]*/ r matches Ok((t, dfi)) ==> t.meta().id == *target_id && t.meta().project_dir == project_dir,
        /*[C19.ref-default,C09.ref-parse,C20.nesting]*/ r matches Ok((t, dfi)) ==> t.meta().dependencies@ == yaml_deps(yaml_target, target_id.project_name),
        /*[C19.ref-default,C09.ref-parse,C20.nesting]*/ r matches Ok((t, dfi)) ==> dfi@ == yaml_output_refs(yaml_target, target_id.project_name),
        r matches Ok((t, dfi)) ==> (t is Aggregate ==> dfi@.len() == 0),
//@end

pub assume_specification<T> [<[T]>::contains] (s: &[T], x: &T) -> (r: bool)
    where T: std::cmp::PartialEq
    ensures r == s@.contains(*x);  // only instantiated at T = &TargetId, whose derived PartialEq is structural (A-hash)

/// `[parent_targets, &[target_id]].concat()`: the ancestor chain extended by the current target
#[verifier::external_body]
pub fn chain_with<'a>(parents: &[&'a TargetId], id: &'a TargetId) -> (r: Vec<&'a TargetId>)
    ensures r@ == parents@.push(id),
{ unimplemented!() }

/// every dependency of every resolved target is itself resolved [C09.closed]
pub open spec fn closed(m: Map<TargetId, Target>) -> bool {
    forall|t: TargetId, i: int| #![trigger m[t].meta().dependencies@[i]] m.contains_key(t) && 0 <= i < m[t].meta().dependencies@.len() ==> m.contains_key(m[t].meta().dependencies@[i])
}
/// the resolved map is keyed by each target's own id (what the relay relies on)
pub open spec fn keyed(m: Map<TargetId, Target>) -> bool {
    forall|t: TargetId| #![trigger m[t]] m.contains_key(t) ==> m[t].meta().id == t
}
pub open spec fn extends(a: Map<TargetId, Target>, b: Map<TargetId, Target>) -> bool {
    forall|t: TargetId| #![trigger a.contains_key(t)] #![trigger b.contains_key(t)] a.contains_key(t) ==> b.contains_key(t) && b[t] == a[t]
}
/// [C09.only-reachable] a chain of resolved targets, each depending (declared or through `X.output`) on the next
pub open spec fn is_path(m: Map<TargetId, Target>, p: Seq<TargetId>) -> bool {
    p.len() >= 1 && forall|i: int| 0 <= i < p.len() - 1 ==> m.contains_key(#[trigger] p[i]) && m[p[i]].meta().dependencies@.contains(p[i + 1])
}
/// `k` is reachable from `a` through dependencies of resolved targets (`a` itself included)
pub open spec fn reach(m: Map<TargetId, Target>, a: TargetId, k: TargetId) -> bool {
    exists|p: Seq<TargetId>| #[trigger] is_path(m, p) && p[0] == a && p.last() == k
}
pub proof fn lemma_reach_refl(m: Map<TargetId, Target>, a: TargetId)
    ensures reach(m, a, a),
{
    let p = seq![a];
    assert(is_path(m, p));
    assert(p[0] == a && p.last() == a);
}
pub proof fn lemma_reach_extends(m1: Map<TargetId, Target>, m2: Map<TargetId, Target>, a: TargetId, k: TargetId)
    requires extends(m1, m2), reach(m1, a, k),
    ensures reach(m2, a, k),
{
    let p = choose|p: Seq<TargetId>| #[trigger] is_path(m1, p) && p[0] == a && p.last() == k;
    assert forall|i: int| 0 <= i < p.len() - 1 implies m2.contains_key(#[trigger] p[i]) && m2[p[i]].meta().dependencies@.contains(p[i + 1]) by {
        assert(m1.contains_key(p[i]));
    }
    assert(is_path(m2, p));
}
pub proof fn lemma_reach_step(m: Map<TargetId, Target>, a: TargetId, b: TargetId, k: TargetId)
    requires m.contains_key(a), m[a].meta().dependencies@.contains(b), reach(m, b, k),
    ensures reach(m, a, k),
{
    let p = choose|p: Seq<TargetId>| #[trigger] is_path(m, p) && p[0] == b && p.last() == k;
    let q = seq![a] + p;
    assert forall|i: int| 0 <= i < q.len() - 1 implies m.contains_key(#[trigger] q[i]) && m[q[i]].meta().dependencies@.contains(q[i + 1]) by {
        if i == 0 {
            assert(q[0] == a && q[1] == p[0]);
        } else {
            assert(q[i] == p[i - 1] && q[i + 1] == p[i]);
        }
    }
    assert(is_path(m, q));
    assert(q[0] == a && q.last() == p.last());
}
/// every key added between `m0` and `m` is reachable from one of the first `n` ids of `from`
pub open spec fn new_keys_reached(m0: Map<TargetId, Target>, m: Map<TargetId, Target>, from: Seq<TargetId>, n: int) -> bool {
    forall|k: TargetId| #![trigger m.contains_key(k)] m.contains_key(k) && !m0.contains_key(k) ==> exists|j: int| 0 <= j < n && reach(m, #[trigger] from[j], k)
}
/// no id of `chain` that was absent before has been added
pub open spec fn chain_untouched(m0: Map<TargetId, Target>, m: Map<TargetId, Target>, chain: Seq<&TargetId>) -> bool {
    forall|i: int| 0 <= i < chain.len() && !m0.contains_key(*#[trigger] chain[i]) ==> !m.contains_key(*chain[i])
}

/// the yaml target `id` is still available in the configuration
pub open spec fn cfg_has(c: &Config, id: TargetId) -> bool {
    c.projects@.contains_key(id.project_name) && c.projects@[id.project_name].1.targets@.contains_key(id.target_name)
}
/// only yaml targets are consumed: project set and directories are untouched, target sets only shrink
pub open spec fn cfg_shrinks(a: &Config, b: &Config) -> bool {
    &&& a.root_project_name == b.root_project_name
    &&& a.projects@.dom() == b.projects@.dom()
    &&& forall|p: Option<String>| #![trigger b.projects@[p]] a.projects@.contains_key(p) ==>
            b.projects@[p].0 == a.projects@[p].0 && b.projects@[p].1.targets@.dom().subset_of(a.projects@[p].1.targets@.dom())
}

/// [C13.inherit] the consumer's input files after inheriting the outputs of the first `n` producers, in order
pub open spec fn inherited_files(base: Seq<FilesResource>, dfi: Seq<TargetId>, m: Map<TargetId, Target>, n: int) -> Seq<FilesResource>
    decreases n
{
    if n <= 0 { base } else { inherited_files(base, dfi, m, n - 1) + (match m[dfi[n - 1]].out() { Some(o) => o.files@, None => Seq::empty() }) }
}
pub open spec fn inherited_cmds(base: Seq<CmdResource>, dfi: Seq<TargetId>, m: Map<TargetId, Target>, n: int) -> Seq<CmdResource>
    decreases n
{
    if n <= 0 { base } else { inherited_cmds(base, dfi, m, n - 1) + (match m[dfi[n - 1]].out() { Some(o) => o.cmds@, None => Seq::empty() }) }
}

/// [C09.terminates] the measure of `add_target`: number of yaml targets still in the configuration, summed
/// over a fixed enumeration `keys` of the project names
pub open spec fn remaining(c: &Config, keys: Seq<Option<String>>) -> nat
    decreases keys.len()
{
    if keys.len() == 0 { 0 } else {
        remaining(c, keys.drop_last()) + (if c.projects@.contains_key(keys.last()) { c.projects@[keys.last()].1.targets@.len() } else { 0 })
    }
}
pub open spec fn keys_of(c: &Config) -> Seq<Option<String>> { c.projects@.dom().to_seq() }

/// consuming yaml targets never increases the measure
pub proof fn lemma_shrinks_remaining(a: &Config, b: &Config, keys: Seq<Option<String>>)
    requires cfg_shrinks(a, b),
    ensures remaining(b, keys) <= remaining(a, keys),
    decreases keys.len()
{
    if keys.len() > 0 {
        lemma_shrinks_remaining(a, b, keys.drop_last());
        let k = keys.last();
        if a.projects@.contains_key(k) {
            assert(b.projects@.contains_key(k));
            assert(b.projects@[k].1.targets@.dom().subset_of(a.projects@[k].1.targets@.dom()));
            vstd::set_lib::lemma_len_subset(b.projects@[k].1.targets@.dom(), a.projects@[k].1.targets@.dom());
            assert(b.projects@[k].1.targets@.len() == b.projects@[k].1.targets@.dom().len());
            assert(a.projects@[k].1.targets@.len() == a.projects@[k].1.targets@.dom().len());
        }
    }
}
/// removing one yaml target of a project that occurs in `keys` makes the measure strictly smaller
pub proof fn lemma_removed_remaining(a: &Config, b: &Config, keys: Seq<Option<String>>, p: Option<String>, t: String)
    requires cfg_shrinks(a, b), keys.contains(p), a.projects@.contains_key(p),
        a.projects@[p].1.targets@.contains_key(t), !b.projects@[p].1.targets@.contains_key(t),
    ensures remaining(b, keys) < remaining(a, keys),
    decreases keys.len()
{
    if keys.len() > 0 {
        let k = keys.last();
        lemma_shrinks_remaining(a, b, keys.drop_last());
        if k == p {
            let da = a.projects@[p].1.targets@.dom();
            let db = b.projects@[p].1.targets@.dom();
            assert(db.subset_of(da.remove(t)));
            vstd::set_lib::lemma_len_subset(db, da.remove(t));
            assert(b.projects@[p].1.targets@.len() == db.len());
            assert(a.projects@[p].1.targets@.len() == da.len());
        } else {
            let i = choose|i: int| 0 <= i < keys.len() && keys[i] == p;
            assert(keys.drop_last()[i] == p);
            lemma_removed_remaining(a, b, keys.drop_last(), p, t);
            if a.projects@.contains_key(k) {
                assert(b.projects@[k].1.targets@.dom().subset_of(a.projects@[k].1.targets@.dom()));
                vstd::set_lib::lemma_len_subset(b.projects@[k].1.targets@.dom(), a.projects@[k].1.targets@.dom());
                assert(b.projects@[k].1.targets@.len() == b.projects@[k].1.targets@.dom().len());
                assert(a.projects@[k].1.targets@.len() == a.projects@[k].1.targets@.dom().len());
            }
        }
    }
}

pub proof fn lemma_shrinks_trans(a: &Config, b: &Config, c: &Config)
    requires cfg_shrinks(a, b), cfg_shrinks(b, c),
    ensures cfg_shrinks(a, c),
{
    assert forall|p: Option<String>| a.projects@.contains_key(p) implies
        (#[trigger] c.projects@[p]).0 == a.projects@[p].0 && c.projects@[p].1.targets@.dom().subset_of(a.projects@[p].1.targets@.dom()) by {
        assert(b.projects@.contains_key(p));
        assert(b.projects@[p].0 == a.projects@[p].0);
    }
}

//@fn src/config/ir.rs Config::try_into_domain_targets::add_target ret=r
//@attr #[verifier::loop_isolation(false)]
//@refvar dependency_id
//@replace `[parent_targets, &[target_id]].concat()` => `chain_with(parent_targets, target_id)` rule=R13 pre why=`slice-of-slices concat -> prelude stub chain_with (ensures r@ == parents@.push(id))`
//@contract
    requires
        closed(old(domain_targets)@), keyed(old(domain_targets)@),
    ensures
        cfg_shrinks(old(config), final(config)),
        extends(old(domain_targets)@, final(domain_targets)@),
        /*[C09.closed,C20.nesting]*/ r is Ok ==> closed(final(domain_targets)@) && final(domain_targets)@.contains_key(*target_id),
        /*[C09.keyed]*/ r is Ok ==> keyed(final(domain_targets)@),
        /*[C09.unknown]*/ !old(domain_targets)@.contains_key(*target_id) && !cfg_has(old(config), *target_id) ==> r is Err,
        /*[C09.acyclic]*/ !old(domain_targets)@.contains_key(*target_id) && parent_targets@.contains(target_id) ==> r is Err,
        /*[C09.acyclic]*/ r is Ok ==> chain_untouched(old(domain_targets)@, final(domain_targets)@, parent_targets@),
        /*[C09.only-reachable,C08.only-closure]*/ r is Ok ==> forall|k: TargetId| #![trigger final(domain_targets)@.contains_key(k)] final(domain_targets)@.contains_key(k) && !old(domain_targets)@.contains_key(k) ==> reach(final(domain_targets)@, *target_id, k),
        r is Err ==> closed(final(domain_targets)@) && keyed(final(domain_targets)@),
    decreases
        /*[C09.terminates]*/ remaining(old(config), keys_of(old(config))),
//@pre
        broadcast use group_keys;
        broadcast use axiom_string_key_model;
        broadcast use vstd::std_specs::hash::group_hash_axioms;
        let ghost dt0 = domain_targets@;
        let ghost c0 = *config;
        let ghost keys = keys_of(&c0);
//@after 0 `let (project_dir, yaml_target) =`
            let ghost c1 = *config;
            proof {
                assert(cfg_shrinks(&c0, &c1));
                assert(c0.projects@.dom().contains(target_id.project_name));
                c0.projects@.dom().lemma_to_seq_to_set_id();
                assert(keys.to_set().contains(target_id.project_name));
                assert(keys.contains(target_id.project_name));
                lemma_removed_remaining(&c0, &c1, keys, target_id.project_name, target_id.target_name);
            }
//@after 0 `let (mut target,`
            let ghost refs = dependencies_from_input@;
//@after 0 `target.extend_dependencies(`
            let ghost deps_all = target.meta().dependencies@;
            proof {
                assert forall|i: int| 0 <= i < dependencies_from_input@.len() implies deps_all.contains(#[trigger] dependencies_from_input@[i]) by {
                    assert(deps_all[target.meta().dependencies@.len() - dependencies_from_input@.len() + i] == dependencies_from_input@[i]);
                }
            }
//@loop 0 binder=it
            invariant
                closed(domain_targets@), keyed(domain_targets@),
                extends(dt0, domain_targets@),
                cfg_shrinks(&c0, config), cfg_shrinks(&c1, config),
                it.seq().unref() == deps_all,
                target.meta().dependencies@ == deps_all, target.meta().id == *target_id,
                forall|j: int| #![trigger deps_all[j]] 0 <= j < it.index@ ==> domain_targets@.contains_key(deps_all[j]),
                targets_chain@ == parent_targets@.push(target_id),
                /*[C09.acyclic]*/ chain_untouched(dt0, domain_targets@, targets_chain@),
                /*[C09.only-reachable]*/ new_keys_reached(dt0, domain_targets@, deps_all, it.index@ as int),
//@loopbody
                broadcast use group_keys;
                broadcast use vstd::std_specs::hash::group_hash_axioms;
                let ghost dt_before = domain_targets@;
                let ghost cfg_before = *config;
                proof {
                    assert(it.seq().unref()[it.index@ as int] == *dependency_id);
                    assert forall|c2: Config| #[trigger] cfg_shrinks(&cfg_before, &c2) implies cfg_shrinks(&c0, &c2) by { lemma_shrinks_trans(&c0, &cfg_before, &c2); }
                    // [C09.terminates] the recursive call works on a configuration with fewer yaml targets
                    assert(cfg_shrinks(&c1, &cfg_before));
                    lemma_shrinks_remaining(&c1, &cfg_before, keys);
                    assert(keys_of(&cfg_before) == keys);
                    assert forall|m2: Map<TargetId, Target>| #[trigger] extends(dt_before, m2) implies extends(dt0, m2) by { }
                }
//@after 0 `add_target(domain_targets,`
                proof {
                    assert(cfg_shrinks(&c0, config)) by {
                        assert(cfg_shrinks(&cfg_before, config));
                    }
                    assert forall|j: int| 0 <= j < it.index@ + 1 implies domain_targets@.contains_key(#[trigger] deps_all[j]) by {
                        if j < it.index@ { assert(dt_before.contains_key(deps_all[j])); }
                    }
                    // [C09.acyclic] the recursive call (whose ancestor chain is `targets_chain`) added none of them
                    assert(chain_untouched(dt0, domain_targets@, targets_chain@)) by {
                        assert forall|i: int| 0 <= i < targets_chain@.len() && !dt0.contains_key(*#[trigger] targets_chain@[i]) implies !domain_targets@.contains_key(*targets_chain@[i]) by {
                            assert(!dt_before.contains_key(*targets_chain@[i]));
                        }
                    }
                    // [C09.only-reachable] keys added earlier stay reachable from the same dependency, the new ones are reachable from this one
                    assert(new_keys_reached(dt0, domain_targets@, deps_all, it.index@ + 1)) by {
                        assert forall|k: TargetId| #![trigger domain_targets@.contains_key(k)] domain_targets@.contains_key(k) && !dt0.contains_key(k) implies exists|j: int| 0 <= j < it.index@ + 1 && reach(domain_targets@, #[trigger] deps_all[j], k) by {
                            if dt_before.contains_key(k) {
                                let j = choose|j: int| 0 <= j < it.index@ && reach(dt_before, #[trigger] deps_all[j], k);
                                lemma_reach_extends(dt_before, domain_targets@, deps_all[j], k);
                            } else {
                                assert(reach(domain_targets@, deps_all[it.index@ as int], k));
                            }
                        }
                    }
                }
//@before 1 `for dependency_id in`
            let ghost dt1 = domain_targets@;
            let ghost files0 = match target.inp() { Some(i) => i.files@, None => Seq::empty() };
            let ghost cmds0 = match target.inp() { Some(i) => i.cmds@, None => Seq::empty() };
//@loop 1 binder=it2
            invariant
                closed(domain_targets@), keyed(domain_targets@), extends(dt0, domain_targets@), cfg_shrinks(&c0, config),
                it2.seq().unref() == dependencies_from_input@,
                target.meta().dependencies@ == deps_all, target.meta().id == *target_id,
                forall|j: int| #![trigger deps_all[j]] 0 <= j < deps_all.len() ==> domain_targets@.contains_key(deps_all[j]),
                forall|j: int| #![trigger dependencies_from_input@[j]] 0 <= j < dependencies_from_input@.len() ==> deps_all.contains(dependencies_from_input@[j]),
                !(target is Aggregate) || dependencies_from_input@.len() == 0,
                domain_targets@ == dt1,
                targets_chain@ == parent_targets@.push(target_id),
                chain_untouched(dt0, dt1, targets_chain@),
                new_keys_reached(dt0, dt1, deps_all, deps_all.len() as int),
                /*[C13.inherit,C02.inherited,C03.inherited]*/ dependencies_from_input@.len() > 0 ==> target.inp() is Some
                    && target.inp()->Some_0.files@ == inherited_files(files0, dependencies_from_input@, dt1, it2.index@ as int)
                    && target.inp()->Some_0.cmds@ == inherited_cmds(cmds0, dependencies_from_input@, dt1, it2.index@ as int),
                /*[C09.output-kind]*/ forall|j: int| #![trigger dependencies_from_input@[j]] 0 <= j < it2.index@ ==> domain_targets@[dependencies_from_input@[j]] is Build,
//@loopbody
                broadcast use group_keys;
                broadcast use vstd::std_specs::hash::group_hash_axioms;
                proof {
                    assert(it2.seq().unref()[it2.index@ as int] == *dependency_id);
                    assert(deps_all.contains(*dependency_id));
                    let k = choose|k: int| 0 <= k < deps_all.len() && deps_all[k] == *dependency_id;
                    assert(domain_targets@.contains_key(deps_all[k]));
                    reveal_with_fuel(inherited_files, 2);
                    reveal_with_fuel(inherited_cmds, 2);
                }
//@before 0 `domain_targets.insert(`
            let ghost fin = dt1.insert(*target_id, target);
            proof {
                // [C09.acyclic] this target is the last element of the chain its dependencies were resolved under
                assert(targets_chain@[targets_chain@.len() - 1] == target_id);
                assert(/*[C09.acyclic]*/ !dt1.contains_key(*target_id));
                assert(/*[C09.acyclic]*/ extends(dt1, fin));
                assert(/*[C09.acyclic]*/ chain_untouched(dt0, fin, parent_targets@)) by {
                    assert forall|i: int| 0 <= i < parent_targets@.len() && !dt0.contains_key(*#[trigger] parent_targets@[i]) implies !fin.contains_key(*parent_targets@[i]) by {
                        assert(targets_chain@[i] == parent_targets@[i]);
                        assert(/*[C09.acyclic]*/ !dt1.contains_key(*parent_targets@[i]));
                        assert(/*[C09.acyclic]*/ parent_targets@.contains(parent_targets@[i]) && *parent_targets@[i] != *target_id);
                    }
                }
                // [C09.only-reachable] every key added by this call is reachable from this target
                assert forall|k: TargetId| #![trigger fin.contains_key(k)] fin.contains_key(k) && !dt0.contains_key(k) implies reach(fin, *target_id, k) by {
                    if k == *target_id {
                        lemma_reach_refl(fin, k);
                    } else {
                        assert(dt1.contains_key(k));
                        let j = choose|j: int| 0 <= j < deps_all.len() && reach(dt1, #[trigger] deps_all[j], k);
                        lemma_reach_extends(dt1, fin, deps_all[j], k);
                        assert(fin[*target_id].meta().dependencies@.contains(deps_all[j]));
                        lemma_reach_step(fin, *target_id, deps_all[j], k);
                    }
                }
            }
            proof {
                assert(/*[C01.outdep,C13.dep,C07.blocked]*/ forall|j: int| 0 <= j < refs.len() ==> target.meta().dependencies@.contains(#[trigger] refs[j]));
                assert(/*[C09.output-kind]*/ forall|j: int| 0 <= j < refs.len() ==> domain_targets@.contains_key(refs[j]) && domain_targets@[#[trigger] refs[j]] is Build);
                assert(/*[C13.inherit,C02.inherited,C03.inherited]*/ refs.len() > 0 ==> target.inp() is Some && target.inp()->Some_0.files@ == inherited_files(files0, refs, domain_targets@, refs.len() as int));
                assert(/*[C13.inherit,C02.inherited,C03.inherited]*/ refs.len() > 0 ==> target.inp() is Some && target.inp()->Some_0.cmds@ == inherited_cmds(cmds0, refs, domain_targets@, refs.len() as int));
            }
//@end

impl Config {
//@fn src/config/ir.rs Config::try_into_domain_targets ret=r
//@replace `mut self,` => `self,` rule=R6 pre why=`by-value self is rebound mutably below (Verus rejects `mut self`)`
//@replace `let mut domain_targets = HashMap::with_capacity(root_target_ids.len());` => `let mut this = self; let mut domain_targets = HashMap::with_capacity(root_target_ids.len());` rule=R6 pre why=`see above`
//@replace `add_target(&mut domain_targets, &mut self, target_id, &[])?` => `add_target(&mut domain_targets, &mut this, target_id, &[])?` rule=R6 pre why=`see above`
//@contract
    ensures
        /*[C09.closed,C20.nesting]*/ r matches Ok(m) ==> closed(m@) && forall|i: int| 0 <= i < root_target_ids@.len() ==> m@.contains_key(#[trigger] root_target_ids@[i]),
        /*[C09.keyed]*/ r matches Ok(m) ==> keyed(m@),
        /*[C09.only-reachable,C08.only-closure]*/ r matches Ok(m) ==> forall|k: TargetId| #![trigger m@.contains_key(k)] m@.contains_key(k) ==> exists|j: int| 0 <= j < root_target_ids@.len() && reach(m@, #[trigger] root_target_ids@[j], k),
//@pre
        broadcast use group_keys;
        broadcast use vstd::std_specs::hash::group_hash_axioms;
//@loop 0 binder=it
            invariant
                closed(domain_targets@), keyed(domain_targets@),
                it.seq().unref() == root_target_ids@,
                forall|j: int| #![trigger root_target_ids@[j]] 0 <= j < it.index@ ==> domain_targets@.contains_key(root_target_ids@[j]),
                /*[C09.only-reachable]*/ new_keys_reached(Map::<TargetId, Target>::empty(), domain_targets@, root_target_ids@, it.index@ as int),
//@loopbody
            broadcast use group_keys;
            broadcast use vstd::std_specs::hash::group_hash_axioms;
            let ghost dt_before = domain_targets@;
            proof { assert(it.seq().unref()[it.index@ as int] == *target_id); }
//@after 0 `add_target(&mut domain_targets,`
            proof {
                assert forall|j: int| 0 <= j < it.index@ + 1 implies domain_targets@.contains_key(#[trigger] root_target_ids@[j]) by {
                    if j < it.index@ { assert(dt_before.contains_key(root_target_ids@[j])); }
                }
                assert(new_keys_reached(Map::<TargetId, Target>::empty(), domain_targets@, root_target_ids@, it.index@ + 1)) by {
                    assert forall|k: TargetId| #![trigger domain_targets@.contains_key(k)] domain_targets@.contains_key(k) implies exists|j: int| 0 <= j < it.index@ + 1 && reach(domain_targets@, #[trigger] root_target_ids@[j], k) by {
                        if dt_before.contains_key(k) {
                            let j = choose|j: int| 0 <= j < it.index@ && reach(dt_before, #[trigger] root_target_ids@[j], k);
                            lemma_reach_extends(dt_before, domain_targets@, root_target_ids@[j], k);
                        } else {
                            assert(reach(domain_targets@, root_target_ids@[it.index@ as int], k));
                        }
                    }
                }
            }
//@end
}

pub broadcast proof fn lemma_take_all<A>(s: Seq<A>)
    ensures #[trigger] s.take(s.len() as int) == s
{
    assert(s.take(s.len() as int) =~= s);
}

//@include footer.rs
