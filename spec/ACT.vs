//@unit ACT
//@ghost tr Trace seeds=send,try_send,set,spawn,kill,status
//@subst incremental::run => incremental_run_future
//@subst builder::build_target => build_target_future
//@dropderive Debug,Serialize,Deserialize,Clone,Copy
//@include header.rs
//@include std_ext.rs
//@include chan.rs
//@include proc.rs

// ===========================================================================
// domain types (verbatim from /repo)
// ===========================================================================
//@item src/domain.rs TargetId
//@item src/domain.rs TargetMetadata
//@item src/domain.rs BuildTarget
//@item src/domain.rs ServiceTarget
//@item src/domain.rs AggregateTarget
//@item src/engine/target_actor/mod.rs ActorInputMessage
//@item src/engine/target_actor/mod.rs TargetActorOutputMessage
//@item src/engine/target_actor/mod.rs ActorId
//@item src/engine/target_actor/mod.rs ExecutionKind dropderive=PartialEq
//@item src/main.rs TerminationMessage
//@item src/engine/watcher.rs TargetInvalidatedMessage
//@item src/engine/builder.rs BuildCancellationMessage
//@item src/engine/incremental/mod.rs IncrementalRunResult

/// domain::Resources is opaque in this unit (nothing here looks inside it; INC and CFG do)
#[verifier::external_body]
pub struct Resources { _p: () }

pub broadcast axiom fn axiom_kind_key_model()
    ensures #[trigger] obeys_key_model::<ExecutionKind>();
pub broadcast axiom fn axiom_tid_key_model()
    ensures #[trigger] obeys_key_model::<TargetId>();
pub broadcast axiom fn axiom_aid_key_model()
    ensures #[trigger] obeys_key_model::<ActorId>();
pub broadcast group group_keys {
    axiom_kind_key_model, axiom_tid_key_model, axiom_aid_key_model, axiom_key_borrows_self,
}

/// derived Clone returns an equal value (A-clone; R10 replaces the derive by this impl)
impl Clone for TargetId {
    #[verifier::external_body]
    fn clone(&self) -> (r: Self) ensures r == *self { unimplemented!() }
}
impl Clone for ActorId {
    #[verifier::external_body]
    fn clone(&self) -> (r: Self) ensures r == *self { unimplemented!() }
}
impl Clone for ActorInputMessage {
    #[verifier::external_body]
    fn clone(&self) -> (r: Self) ensures r == *self { unimplemented!() }
}
impl Clone for ExecutionKind {
    #[verifier::external_body]
    fn clone(&self) -> (r: Self) ensures r == *self { unimplemented!() }
}
impl Copy for ExecutionKind {}
/// derived `PartialEq` of a field-less enum: structural equality (A-hash); written out because the derive carries no
/// specification, so `kind == ExecutionKind::Build` in the actors would be an unknown boolean
impl PartialEq for ExecutionKind {
    #[verifier::external_body]
    fn eq(&self, o: &ExecutionKind) -> (r: bool) ensures r == (*self == *o) { unimplemented!() }
}

// ===========================================================================
// ghost state (DESIGN §5)
// ===========================================================================
/// a status word received from a dependency
pub enum RWord { Ok, Invalidated }
/// the latest status word sent to a peer; `dep_actual` = "some dependency had reported an actual
/// build/service of that kind" at the moment the word was sent
pub enum Word { Ok { actual: bool, dep_actual: bool }, Invalidated }

/// one delivered event = one `select!` arm firing
pub enum Ev {
    Term(Option<TerminationMessage>),
    Inval(Option<TargetInvalidatedMessage>),
    Msg(Option<ActorInputMessage>),
    Done(Result<IncrementalRunResult>),
}

pub ghost struct StartRec {
    pub meta: TargetMetadata,
    pub input: Resources,
    pub output: Option<Resources>,
    pub script_of: BuildTarget,
    pub cancel: int,
}

/// What one actor received and what it sent, summarised (DESIGN §5.1).  Sends are summarised by
/// the fields below rather than kept as a sequence: the order in which a HashSet of requesters
/// is walked is not determined, and no property depends on it.
pub tracked struct Trace {
    /// identity of the actor this trace belongs to
    pub ghost me: TargetId,
    pub ghost inlog: Seq<Ev>,
    /// latest status word of kind Build / Service sent to each peer (two maps rather than one keyed by
    /// (peer, kind): a broadcast of one kind then leaves the other map syntactically untouched)
    pub ghost last_b: Map<ActorId, Word>,
    pub ghost last_s: Map<ActorId, Word>,
    /// (dest, kind) pairs to which a `Requested` was sent
    pub ghost requested: Set<(ActorId, ExecutionKind)>,
    /// (requester, kind) pairs that ever un-registered (delivered `Unrequested`)
    pub ghost unreq: Set<(ActorId, ExecutionKind)>,
    /// an `Unrequested` was sent
    pub ghost sent_unreq: bool,
    /// an `Invalidated` was sent
    pub ghost sent_inval: bool,
    /// a termination event was delivered
    pub ghost term_seen: bool,
    /// [C01.identity] every message sent so far named this actor
    pub ghost ids_ok: bool,
    /// number of messages sent, and how many of them were execution errors
    pub ghost n_out: nat,
    pub ghost n_err: nat,
    pub ghost starts: Seq<StartRec>,
    /// length of the delivery log when the latest execution was started (`set_execution_started`)
    pub ghost last_start_at: nat,
    /// the last completed run of the build future was Skipped or Completed and nothing was started since
    pub ghost last_done_ok: bool,
    /// a file watcher holds the sender of the invalidation channel (watch mode and the target has inputs)
    pub ghost watcher_present: bool,
    pub ghost cancels_sent: nat,
    // process table (A-proc)
    pub ghost spawn_calls: nat,
    pub ghost spawned: Set<int>,
    pub ghost killed: Set<int>,
    pub ghost waited: Set<int>,
}

/// [C01.identity] every status word carries the sender's own id; requests name the sender as requester
pub open spec fn msg_id_ok(m: TargetActorOutputMessage, me: TargetId) -> bool {
    match m {
        TargetActorOutputMessage::TargetExecutionError(id, _) => id == me,
        TargetActorOutputMessage::MessageActor { dest, msg } => match msg {
            ActorInputMessage::Ok { target_id, .. } => target_id == me,
            ActorInputMessage::Invalidated { target_id, .. } => target_id == me,
            ActorInputMessage::Requested { requester, .. } => requester == ActorId::Target(me),
            ActorInputMessage::Unrequested { requester, .. } => requester == ActorId::Target(me),
        },
    }
}

impl Trace {
    pub open spec fn sent(self, m: TargetActorOutputMessage) -> Trace {
        Trace {
            last_b: match m {
                TargetActorOutputMessage::MessageActor { dest, msg: ActorInputMessage::Ok { kind: ExecutionKind::Build, actual, .. } } =>
                    self.last_b.insert(dest, Word::Ok { actual, dep_actual: actual_of(self.inlog, ExecutionKind::Build).len() > 0 }),
                TargetActorOutputMessage::MessageActor { dest, msg: ActorInputMessage::Invalidated { kind: ExecutionKind::Build, .. } } =>
                    self.last_b.insert(dest, Word::Invalidated),
                _ => self.last_b,
            },
            last_s: match m {
                TargetActorOutputMessage::MessageActor { dest, msg: ActorInputMessage::Ok { kind: ExecutionKind::Service, actual, .. } } =>
                    self.last_s.insert(dest, Word::Ok { actual, dep_actual: actual_of(self.inlog, ExecutionKind::Service).len() > 0 }),
                TargetActorOutputMessage::MessageActor { dest, msg: ActorInputMessage::Invalidated { kind: ExecutionKind::Service, .. } } =>
                    self.last_s.insert(dest, Word::Invalidated),
                _ => self.last_s,
            },
            requested: match m {
                TargetActorOutputMessage::MessageActor { dest, msg: ActorInputMessage::Requested { kind, .. } } => self.requested.insert((dest, kind)),
                _ => self.requested,
            },
            sent_unreq: self.sent_unreq || (m matches TargetActorOutputMessage::MessageActor { msg: ActorInputMessage::Unrequested { .. }, .. }),
            sent_inval: self.sent_inval || (m matches TargetActorOutputMessage::MessageActor { msg: ActorInputMessage::Invalidated { .. }, .. }),
            ids_ok: self.ids_ok && msg_id_ok(m, self.me),
            n_out: self.n_out + 1,
            n_err: if m is TargetExecutionError { self.n_err + 1 } else { self.n_err },
            ..self
        }
    }
    pub open spec fn delivered(self, e: Ev) -> Trace {
        Trace {
            inlog: self.inlog.push(e),
            term_seen: self.term_seen || e is Term,
            unreq: match e {
                Ev::Msg(Some(ActorInputMessage::Unrequested { kind, requester })) => self.unreq.insert((requester, kind)),
                _ => self.unreq,
            },
            last_done_ok: match e {
                Ev::Done(r) => r matches Ok(IncrementalRunResult::Skipped) || r matches Ok(IncrementalRunResult::Completed),
                _ => self.last_done_ok,
            },
            ..self
        }
    }
    pub open spec fn live(self) -> Set<int> { self.spawned.difference(self.waited) }
    /// the latest-word map of kind `k`
    pub open spec fn lastk(self, k: ExecutionKind) -> Map<ActorId, Word> {
        if k == ExecutionKind::Build { self.last_b } else { self.last_s }
    }
    /// the peer's latest word of kind `k` from this actor is `Ok`
    pub open spec fn told_ok(self, r: ActorId, k: ExecutionKind) -> bool {
        self.lastk(k).contains_key(r) && self.lastk(k)[r] is Ok
    }
    /// nothing was sent, started, spawned or delivered between `self` and `o` except status words / requests
    pub open spec fn same_but_sends(self, o: Trace) -> bool {
        &&& self.me == o.me && self.inlog == o.inlog && self.unreq == o.unreq && self.starts == o.starts && self.last_start_at == o.last_start_at
        &&& self.last_done_ok == o.last_done_ok && self.watcher_present == o.watcher_present
        &&& self.cancels_sent == o.cancels_sent && self.spawn_calls == o.spawn_calls && self.spawned == o.spawned && self.killed == o.killed && self.waited == o.waited
        &&& self.n_err == o.n_err && self.term_seen == o.term_seen
    }
}

/// the set of dependencies whose latest word of kind `k` is not `Ok` (DESIGN §5.2)
pub open spec fn unavail_of(deps: Set<TargetId>, log: Seq<Ev>, k: ExecutionKind) -> Set<TargetId>
    decreases log.len()
{
    if log.len() == 0 {
        deps
    } else {
        let p = unavail_of(deps, log.drop_last(), k);
        match log.last() {
            Ev::Msg(Some(ActorInputMessage::Ok { kind, target_id, .. })) => if kind == k { p.remove(target_id) } else { p },
            Ev::Msg(Some(ActorInputMessage::Invalidated { kind, target_id })) => if kind == k { p.insert(target_id) } else { p },
            _ => p,
        }
    }
}

/// the latest status word received from `d` for kind `k`
pub open spec fn last_word(log: Seq<Ev>, k: ExecutionKind, d: TargetId) -> Option<RWord>
    decreases log.len()
{
    if log.len() == 0 {
        None
    } else {
        match log.last() {
            Ev::Msg(Some(ActorInputMessage::Ok { kind, target_id, .. })) => if kind == k && target_id == d { Some(RWord::Ok) } else { last_word(log.drop_last(), k, d) },
            Ev::Msg(Some(ActorInputMessage::Invalidated { kind, target_id })) => if kind == k && target_id == d { Some(RWord::Invalidated) } else { last_word(log.drop_last(), k, d) },
            _ => last_word(log.drop_last(), k, d),
        }
    }
}

/// dependencies that ever reported `Ok { kind: k, actual: true }`
pub open spec fn actual_of(log: Seq<Ev>, k: ExecutionKind) -> Set<TargetId>
    decreases log.len()
{
    if log.len() == 0 {
        Set::empty()
    } else {
        let p = actual_of(log.drop_last(), k);
        match log.last() {
            Ev::Msg(Some(ActorInputMessage::Ok { kind, target_id, actual })) => if kind == k && actual { p.insert(target_id) } else { p },
            _ => p,
        }
    }
}

/// a dependency is outside the pending set exactly when its latest word is Ok
pub proof fn lemma_unavail_last_word(deps: Set<TargetId>, log: Seq<Ev>, k: ExecutionKind, d: TargetId)
    ensures
        deps.contains(d) ==> (!unavail_of(deps, log, k).contains(d) <==> last_word(log, k, d) == Some(RWord::Ok)),
    decreases log.len()
{
    if log.len() > 0 {
        lemma_unavail_last_word(deps, log.drop_last(), k, d);
    }
}

// ===========================================================================
// futures handed to the Fuse (R4): constructors record their arguments
// ===========================================================================
#[verifier::external_body]
pub struct BuildFuture { _p: () }
impl BuildFuture {
    pub uninterp spec fn target(&self) -> BuildTarget;
    pub uninterp spec fn cancel(&self) -> int;
}
#[verifier::external_body]
pub struct RunFuture { _p: () }
impl RunFuture {
    pub uninterp spec fn rec(&self) -> StartRec;
}
#[verifier::external_body]
pub fn build_target_future(target: &BuildTarget, cancel: Receiver<BuildCancellationMessage>) -> (r: BuildFuture)
    ensures r.target() == *target, r.cancel() == cancel.chan(),
{ unimplemented!() }
#[verifier::external_body]
pub fn incremental_run_future(meta: &TargetMetadata, input: &Resources, output: Option<&Resources>, fut: BuildFuture) -> (r: RunFuture)
    ensures r.rec() == (StartRec { meta: *meta, input: *input, output: match output { Some(o) => Some(*o), None => None }, script_of: fut.target(), cancel: fut.cancel() }),
{ unimplemented!() }

#[verifier::external_body]
pub struct Fuse { _p: () }
impl Fuse {
    pub uninterp spec fn running(&self) -> bool;
    #[verifier::external_body]
    pub fn terminated() -> (r: Fuse)
        ensures !r.running(),
    { unimplemented!() }
    /// replacing a future that is still running would drop (abandon) the build in flight
    #[verifier::external_body]
    pub fn set(&mut self, fut: RunFuture, Tracked(tr): Tracked<&mut Trace>)
        requires
            /*[C08.single-inflight]*/ !old(self).running(),
        ensures
            final(self).running(),
            *final(tr) == (Trace { starts: old(tr).starts.push(fut.rec()), last_done_ok: false, ..*old(tr) }),
    { unimplemented!() }
}

// ===========================================================================
// channel effects of this unit (A-chan)
// ===========================================================================
impl Sender<TargetActorOutputMessage> {
    #[verifier::external_body]
    pub fn send(&self, msg: TargetActorOutputMessage, Tracked(tr): Tracked<&mut Trace>) -> (r: std::result::Result<(), SendError>)
        ensures *final(tr) == old(tr).sent(msg),
    { unimplemented!() }
}
impl Sender<BuildCancellationMessage> {
    #[verifier::external_body]
    pub fn try_send(&self, msg: BuildCancellationMessage, Tracked(tr): Tracked<&mut Trace>) -> (r: std::result::Result<(), SendError>)
        ensures *final(tr) == (Trace { cancels_sent: old(tr).cancels_sent + 1, ..*old(tr) }),
    { unimplemented!() }
}


// ===========================================================================
// broadcast summaries
// ===========================================================================
/// the status word carried by a message, as it will be recorded in `last` when sent after the deliveries `log`
pub open spec fn word_of(msg: ActorInputMessage, log: Seq<Ev>) -> Option<(ExecutionKind, Word)> {
    match msg {
        ActorInputMessage::Ok { kind, actual, .. } => Some((kind, Word::Ok { actual, dep_actual: actual_of(log, kind).len() > 0 })),
        ActorInputMessage::Invalidated { kind, .. } => Some((kind, Word::Invalidated)),
        _ => None,
    }
}

/// `l1` is `l0` with the word `w` recorded for every r in rs — and nothing else touched
pub open spec fn bcast_last(l0: Map<ActorId, Word>, l1: Map<ActorId, Word>, rs: Set<ActorId>, w: Word) -> bool {
    forall|r: ActorId| #![trigger l1.contains_key(r)] #![trigger l0.contains_key(r)] #![trigger rs.contains(r)]
        (l1.contains_key(r) <==> (l0.contains_key(r) || rs.contains(r)))
        && (l1.contains_key(r) ==> l1[r] == (if rs.contains(r) { w } else { l0[r] }))
}

/// the trace effect of telling the word `w` of kind `k` to every member of `rs`
pub open spec fn bcast_word(t0: Trace, t1: Trace, rs: Set<ActorId>, k: ExecutionKind, w: Word) -> bool {
    &&& t1.same_but_sends(t0)
    &&& t1.requested == t0.requested && t1.sent_unreq == t0.sent_unreq
    &&& (w is Ok ==> t1.sent_inval == t0.sent_inval)
    &&& t1.n_out == t0.n_out + rs.len()
    &&& bcast_last(t0.lastk(k), t1.lastk(k), rs, w)
    &&& (k == ExecutionKind::Build ==> t1.last_s == t0.last_s) && (k == ExecutionKind::Service ==> t1.last_b == t0.last_b)
}

/// the trace effect of asking every dependency for `kind`: nothing but `requested`, `n_out` (and `ids_ok`) moves
pub open spec fn asked_all(t0: Trace, t1: Trace, h: &TargetActorHelper, kind: ExecutionKind) -> bool {
    &&& t1.same_but_sends(t0) && t1.last_b == t0.last_b && t1.last_s == t0.last_s && t1.sent_inval == t0.sent_inval && t1.sent_unreq == t0.sent_unreq
    &&& (t0.ids_ok && h.target_id == t0.me ==> t1.ids_ok)
    &&& forall|d: TargetId| #![trigger h.deps().contains(d)] h.deps().contains(d) ==> t1.requested.contains((ActorId::Target(d), kind))
    &&& forall|key: (ActorId, ExecutionKind)| t0.requested.contains(key) ==> #[trigger] t1.requested.contains(key)
}

pub broadcast proof fn lemma_take_all<A>(s: Seq<A>)
    ensures #[trigger] s.take(s.len() as int) == s
{
    assert(s.take(s.len() as int) =~= s);
}

/// the trace after sending `msg` to each target of `dests`, in order
pub open spec fn sent_to_seq(t: Trace, dests: Seq<TargetId>, msg: ActorInputMessage) -> Trace
    decreases dests.len()
{
    if dests.len() == 0 {
        t
    } else {
        sent_to_seq(t, dests.drop_last(), msg).sent(TargetActorOutputMessage::MessageActor { dest: ActorId::Target(dests.last()), msg })
    }
}

/// what `sent_to_seq` does to the summary fields when `msg` is a request / un-request
pub proof fn lemma_sent_to_seq_request(t: Trace, dests: Seq<TargetId>, msg: ActorInputMessage)
    requires !(msg is Ok), !(msg is Invalidated),
    ensures
        sent_to_seq(t, dests, msg).same_but_sends(t),
        sent_to_seq(t, dests, msg).last_b == t.last_b && sent_to_seq(t, dests, msg).last_s == t.last_s,
        sent_to_seq(t, dests, msg).sent_inval == t.sent_inval,
        sent_to_seq(t, dests, msg).n_out == t.n_out + dests.len(),
        t.ids_ok && msg_id_ok(TargetActorOutputMessage::MessageActor { dest: ActorId::Root, msg }, t.me) ==> sent_to_seq(t, dests, msg).ids_ok,
        msg matches ActorInputMessage::Requested { kind, .. } ==> {
            &&& sent_to_seq(t, dests, msg).sent_unreq == t.sent_unreq
            &&& forall|d: TargetId| dests.contains(d) ==> #[trigger] sent_to_seq(t, dests, msg).requested.contains((ActorId::Target(d), kind))
            &&& forall|key: (ActorId, ExecutionKind)| t.requested.contains(key) ==> #[trigger] sent_to_seq(t, dests, msg).requested.contains(key)
        },
        msg is Unrequested ==> sent_to_seq(t, dests, msg).requested == t.requested,
    decreases dests.len()
{
    if dests.len() > 0 {
        lemma_sent_to_seq_request(t, dests.drop_last(), msg);
        let p = sent_to_seq(t, dests.drop_last(), msg);
        assert(dests.drop_last().push(dests.last()) =~= dests);
        if let ActorInputMessage::Requested { kind, .. } = msg {
            assert forall|d: TargetId| dests.contains(d) implies #[trigger] sent_to_seq(t, dests, msg).requested.contains((ActorId::Target(d), kind)) by {
                if d != dests.last() {
                    let i = choose|i: int| 0 <= i < dests.len() && dests[i] == d;
                    assert(dests.drop_last()[i] == d);
                }
            }
        }
    }
}

// ===========================================================================
// TargetActorHelper
// ===========================================================================
//@item src/engine/target_actor/target_actor_helper.rs TargetActorHelper

#[verifier::external_body]
pub fn vec_to_set(v: &Vec<TargetId>) -> (r: HashSet<TargetId>)
    ensures r@ == v@.to_set(),
{ unimplemented!() }


impl TargetActorHelper {
    pub open spec fn wf(&self) -> bool {
        &&& self.unavailable_dependencies@.contains_key(ExecutionKind::Build)
        &&& self.unavailable_dependencies@.contains_key(ExecutionKind::Service)
        &&& self.requesters@.contains_key(ExecutionKind::Build)
        &&& self.requesters@.contains_key(ExecutionKind::Service)
    }
    pub open spec fn un(&self, k: ExecutionKind) -> Set<TargetId> { self.unavailable_dependencies@[k]@ }
    pub open spec fn req(&self, k: ExecutionKind) -> Set<ActorId> { self.requesters@[k]@ }
    pub open spec fn deps(&self) -> Set<TargetId> { self.dependencies@.to_set() }
    /// everything except the two flags and the requester/pending sets is unchanged
    pub open spec fn same_static(&self, o: &TargetActorHelper) -> bool {
        &&& self.target_id == o.target_id
        &&& self.dependencies == o.dependencies
        &&& self.termination_events == o.termination_events
        &&& self.target_invalidated_events == o.target_invalidated_events
        &&& self.target_actor_input_receiver == o.target_actor_input_receiver
        &&& self.target_actor_output_sender == o.target_actor_output_sender
    }

//@fn src/engine/target_actor/target_actor_helper.rs TargetActorHelper::new ret=r
//@replace `let dependencies_set: HashSet<_> = dependencies.iter().cloned().collect();` => `let dependencies_set: HashSet<TargetId> = vec_to_set(&dependencies);` rule=R13 why=`iterator adapter chain iter().cloned().collect() into a HashSet -> prelude stub vec_to_set (ensures r@ == v@.to_set())`
//@contract
    ensures
        r.wf(),
        /*[C01.book,C11.up-during-build,C06.propagate]*/ r.un(ExecutionKind::Build) == target_metadata.dependencies@.to_set(),
        /*[C01.book,C11.up-during-build,C06.propagate]*/ r.un(ExecutionKind::Service) == target_metadata.dependencies@.to_set(),
        r.req(ExecutionKind::Build) == Set::<ActorId>::empty(),
        r.req(ExecutionKind::Service) == Set::<ActorId>::empty(),
        /*[C08.once-local]*/ r.to_execute && !r.executed,
        /*[C01.identity]*/ r.target_id == target_metadata.id,
        r.dependencies@ == target_metadata.dependencies@,
//@pre
        broadcast use group_keys;
        broadcast use vstd::std_specs::hash::group_hash_axioms;
//@after 0 `let dependencies =`
        proof { assert(dependencies@ =~= target_metadata.dependencies@); }
//@end

//@fn src/engine/target_actor/target_actor_helper.rs TargetActorHelper::should_execute ret=r
//@contract
    requires self.wf(),
    ensures
        /*[C01.guard,C07.blocked,C11.up-during-build]*/ r ==> self.un(ExecutionKind::Build).len() == 0 && self.un(ExecutionKind::Service).len() == 0,
        /*[C08.once-local]*/ r ==> self.to_execute,
        r ==> self.req(kind).len() != 0,
        /*[C04.must-start]*/ (self.to_execute && self.req(kind).len() != 0 && self.un(ExecutionKind::Build).len() == 0 && self.un(ExecutionKind::Service).len() == 0) ==> r,
//@pre
        broadcast use group_keys;
        broadcast use vstd::std_specs::hash::group_hash_axioms;
//@end


//@fn src/engine/target_actor/target_actor_helper.rs TargetActorHelper::notify_invalidated
//@contract
    requires
        old(self).wf(),
        old(self).to_execute ==> !old(self).executed,
    ensures
        final(self).wf(), final(self).same_static(old(self)),
        final(self).unavailable_dependencies == old(self).unavailable_dependencies,
        final(self).requesters == old(self).requesters,
        /*[C06.invalidate]*/ final(self).to_execute && !final(self).executed,
        /*[C06.invalidate]*/ old(self).to_execute ==> *final(tr) == *old(tr),
        /*[C06.invalidate]*/ !old(self).to_execute ==> bcast_word(*old(tr), *final(tr), old(self).req(kind), kind, Word::Invalidated),
        !old(self).to_execute && old(self).target_id == old(tr).me ==> final(tr).ids_ok == old(tr).ids_ok,
//@end

//@fn src/engine/target_actor/target_actor_helper.rs TargetActorHelper::set_execution_started
//@contract
    ensures
        final(self).same_static(old(self)),
        final(self).unavailable_dependencies == old(self).unavailable_dependencies,
        final(self).requesters == old(self).requesters,
        /*[C08.once-local]*/ !final(self).to_execute && !final(self).executed,
//@end

//@fn src/engine/target_actor/target_actor_helper.rs TargetActorHelper::notify_execution_failed
//@contract
    ensures
        final(self).same_static(old(self)),
        final(self).unavailable_dependencies == old(self).unavailable_dependencies,
        final(self).requesters == old(self).requesters,
        /*[C07.no-retry]*/ final(self).to_execute ==> old(self).to_execute,
        /*[C06.keep-pending]*/ old(self).to_execute ==> final(self).to_execute,
        /*[C07.no-ack-on-failure,C05.no-ack]*/ !final(self).executed,
        /*[C07.no-ack-on-failure,C05.no-ack]*/ *final(tr) == old(tr).sent(TargetActorOutputMessage::TargetExecutionError(old(self).target_id, e)),
//@end

//@fn src/engine/target_actor/target_actor_helper.rs TargetActorHelper::send_to_actor
//@contract
    ensures
        *final(tr) == old(tr).sent(TargetActorOutputMessage::MessageActor { dest, msg }),
//@end

//@fn src/engine/target_actor/target_actor_helper.rs TargetActorHelper::send_to_dependencies
//@contract
    ensures
        *final(tr) == sent_to_seq(*old(tr), self.dependencies@, msg),
//@pre
        broadcast use lemma_take_all;
//@loop 0 binder=it
            invariant
                it.seq().unref() == self.dependencies@,
                *tr == sent_to_seq(*old(tr), self.dependencies@.take(it.index@ as int), msg),
//@loopbody
            proof {
                let h = self.dependencies@.take(it.index@ as int);
                let h2 = self.dependencies@.take(it.index@ as int + 1);
                assert(h2.drop_last() =~= h);
                assert(h2.last() == *dependency);
            }
//@end

//@fn src/engine/target_actor/target_actor_helper.rs TargetActorHelper::send_to_requesters
//@contract
    requires
        self.wf(),
    ensures
        final(tr).same_but_sends(*old(tr)),
        final(tr).n_out == old(tr).n_out + self.req(kind).len(),
        msg_id_ok(TargetActorOutputMessage::MessageActor { dest: ActorId::Root, msg }, old(tr).me) ==> final(tr).ids_ok == old(tr).ids_ok,
        word_of(msg, old(tr).inlog) matches Some((k, w)) ==> bcast_last(old(tr).lastk(k), final(tr).lastk(k), self.req(kind), w)
            && (k == ExecutionKind::Build ==> final(tr).last_s == old(tr).last_s) && (k == ExecutionKind::Service ==> final(tr).last_b == old(tr).last_b),
        word_of(msg, old(tr).inlog) is None ==> final(tr).last_b == old(tr).last_b && final(tr).last_s == old(tr).last_s,
        word_of(msg, old(tr).inlog) is Some ==> final(tr).requested == old(tr).requested && final(tr).sent_unreq == old(tr).sent_unreq,
        msg is Ok ==> final(tr).sent_inval == old(tr).sent_inval,
//@pre
        broadcast use group_keys;
        broadcast use vstd::std_specs::hash::group_hash_axioms;
        broadcast use lemma_take_all;
//@loop 0 set binder=it
            invariant
                self.wf(),
                it.seq().unref().to_set() == self.req(kind),
                it.seq().len() == self.req(kind).len(),
                tr.same_but_sends(*old(tr)),
                tr.n_out == old(tr).n_out + it.index@,
                msg_id_ok(TargetActorOutputMessage::MessageActor { dest: ActorId::Root, msg }, old(tr).me) ==> tr.ids_ok == old(tr).ids_ok,
                word_of(msg, old(tr).inlog) matches Some((k, w)) ==> bcast_last(old(tr).lastk(k), tr.lastk(k), it.seq().take(it.index@ as int).unref().to_set(), w)
                    && (k == ExecutionKind::Build ==> tr.last_s == old(tr).last_s) && (k == ExecutionKind::Service ==> tr.last_b == old(tr).last_b),
                word_of(msg, old(tr).inlog) is None ==> tr.last_b == old(tr).last_b && tr.last_s == old(tr).last_s,
                word_of(msg, old(tr).inlog) is Some ==> tr.requested == old(tr).requested && tr.sent_unreq == old(tr).sent_unreq,
                msg is Ok ==> tr.sent_inval == old(tr).sent_inval,
//@loopbody
            proof {
                let h = it.seq().take(it.index@ as int);
                let h2 = it.seq().take(it.index@ as int + 1);
                assert(h2 =~= h.push(requester));
                assert(h2.unref() =~= h.unref().push(*requester));
                h.unref().lemma_push_to_set_commute(*requester);
            }
//@end

//@fn src/engine/target_actor/target_actor_helper.rs TargetActorHelper::notify_success
//@contract
    requires
        old(self).wf(),
    ensures
        final(self).wf(), final(self).same_static(old(self)),
        final(self).unavailable_dependencies == old(self).unavailable_dependencies,
        final(self).requesters == old(self).requesters,
        /*[C06.keep-pending]*/ final(self).to_execute == old(self).to_execute,
        /*[C06.no-stale-ack,C01.ok-build,C07.blocked,C01.ok-fresh]*/ final(self).executed == !old(self).to_execute,
        /*[C06.no-stale-ack,C01.ok-build,C07.blocked,C01.ok-fresh]*/ old(self).to_execute ==> *final(tr) == *old(tr),
        /*[C04.ack]*/ !old(self).to_execute ==> bcast_word(*old(tr), *final(tr), old(self).req(kind), kind, Word::Ok { actual: true, dep_actual: actual_of(old(tr).inlog, kind).len() > 0 }),
        !old(self).to_execute && old(self).target_id == old(tr).me ==> final(tr).ids_ok == old(tr).ids_ok,
//@end

//@fn src/engine/target_actor/target_actor_helper.rs TargetActorHelper::request_dependencies
//@contract
    ensures
        *final(tr) == sent_to_seq(*old(tr), self.dependencies@, ActorInputMessage::Requested { kind, requester: ActorId::Target(self.target_id) }),
        /*[C04.request-deps,C20.fan-out]*/ asked_all(*old(tr), *final(tr), self, kind),
//@after 0 `self.send_to_dependencies(`
        proof {
            lemma_sent_to_seq_request(*old(tr), self.dependencies@, ActorInputMessage::Requested { kind, requester: ActorId::Target(self.target_id) });
            assert forall|d: TargetId| self.deps().contains(d) implies tr.requested.contains((ActorId::Target(d), kind)) by {
                assert(self.dependencies@.contains(d));
            }
        }
//@end

//@fn src/engine/target_actor/target_actor_helper.rs TargetActorHelper::handle_unrequested ret=r
//@contract
    requires
        old(self).wf(),
    ensures
        final(self).wf(), final(self).same_static(old(self)),
        final(self).unavailable_dependencies == old(self).unavailable_dependencies,
        /*[C06.keep-pending]*/ final(self).to_execute == old(self).to_execute, final(self).executed == old(self).executed,
        final(self).req(kind) == old(self).req(kind).remove(requester),
        forall|k: ExecutionKind| k != kind ==> final(self).req(k) == old(self).req(k),
        r == (old(self).req(kind).contains(requester) && final(self).req(kind).len() == 0),
//@pre
        broadcast use group_keys;
        broadcast use vstd::std_specs::hash::group_hash_axioms;
//@end

//@fn src/engine/target_actor/target_actor_helper.rs TargetActorHelper::unrequest_dependencies
//@contract
    ensures
        *final(tr) == sent_to_seq(*old(tr), self.dependencies@, ActorInputMessage::Unrequested { kind, requester: ActorId::Target(self.target_id) }),
        final(tr).same_but_sends(*old(tr)), final(tr).last_b == old(tr).last_b, final(tr).last_s == old(tr).last_s, final(tr).sent_inval == old(tr).sent_inval,
        final(tr).requested == old(tr).requested,
        old(tr).ids_ok && self.target_id == old(tr).me ==> final(tr).ids_ok,
//@after 0 `self.send_to_dependencies(`
        proof {
            lemma_sent_to_seq_request(*old(tr), self.dependencies@, ActorInputMessage::Unrequested { kind, requester: ActorId::Target(self.target_id) });
        }
//@end

}

// ===========================================================================
// invariants shared by the three actor loops
// ===========================================================================
/// number of invalidation stimuli delivered: a file-change notification or a dependency's `Invalidated`
pub open spec fn count_inval(log: Seq<Ev>) -> nat
    decreases log.len()
{
    if log.len() == 0 { 0 } else {
        count_inval(log.drop_last()) + (match log.last() {
            Ev::Inval(_) => 1nat,
            Ev::Msg(Some(ActorInputMessage::Invalidated { .. })) => 1nat,
            _ => 0nat,
        })
    }
}

/// [C06.stimulus-kept] an invalidation stimulus for this actor: a change notification of its own inputs, or a
/// dependency's `Invalidated` (of the build kind for a build actor - a restarted service does not rebuild its
/// dependents - of either kind for a service actor)
pub open spec fn is_stim(e: Ev, service: bool) -> bool {
    match e {
        Ev::Inval(_) => true,
        Ev::Msg(Some(ActorInputMessage::Invalidated { kind, .. })) => service || kind == ExecutionKind::Build,
        _ => false,
    }
}
/// a stimulus was delivered at or after position `from` of the log
pub open spec fn stim_since(log: Seq<Ev>, from: nat, service: bool) -> bool
    decreases log.len()
{
    if log.len() <= from { false } else { stim_since(log.drop_last(), from, service) || is_stim(log.last(), service) }
}

/// number of completed runs of the build future
pub open spec fn count_done(log: Seq<Ev>) -> nat
    decreases log.len()
{
    if log.len() == 0 { 0 } else {
        count_done(log.drop_last()) + (if log.last() is Done { 1nat } else { 0nat })
    }
}

/// AckInv (DESIGN §7 C04.ack / C01.ok-*), for every peer that never un-registered, in two halves so that
/// each failure is attributed to the property it belongs to:
/// `told_only_if` [C01.ok-*]: its latest word of kind `k` is `Ok` only if this actor is ready and the peer registered;
/// `told_if` [C04.ack]: if this actor is ready and the peer is registered, the peer has been told `Ok`.
pub open spec fn told_only_if_c(req: Set<ActorId>, last: Map<ActorId, Word>, unreq: Set<(ActorId, ExecutionKind)>, k: ExecutionKind, ready: bool) -> bool {
    forall|r: ActorId| #![trigger last.contains_key(r)] #![trigger req.contains(r)]
        !unreq.contains((r, k)) ==> ((last.contains_key(r) && last[r] is Ok) ==> (ready && req.contains(r)))
}
pub open spec fn told_if_c(req: Set<ActorId>, last: Map<ActorId, Word>, unreq: Set<(ActorId, ExecutionKind)>, k: ExecutionKind, ready: bool) -> bool {
    forall|r: ActorId| #![trigger last.contains_key(r)] #![trigger req.contains(r)]
        !unreq.contains((r, k)) ==> ((ready && req.contains(r)) ==> (last.contains_key(r) && last[r] is Ok))
}
pub open spec fn ack_c(req: Set<ActorId>, last: Map<ActorId, Word>, unreq: Set<(ActorId, ExecutionKind)>, k: ExecutionKind, ready: bool) -> bool {
    told_only_if_c(req, last, unreq, k, ready) && told_if_c(req, last, unreq, k, ready)
}
pub open spec fn told_only_if(h: &TargetActorHelper, tr: Trace, k: ExecutionKind, ready: bool) -> bool {
    told_only_if_c(h.req(k), tr.lastk(k), tr.unreq, k, ready)
}
pub open spec fn told_if(h: &TargetActorHelper, tr: Trace, k: ExecutionKind, ready: bool) -> bool {
    told_if_c(h.req(k), tr.lastk(k), tr.unreq, k, ready)
}
/// telling `Invalidated` to every requester re-establishes AckInv for "not ready"
pub proof fn lemma_ack_bcast_inval(req: Set<ActorId>, l0: Map<ActorId, Word>, l1: Map<ActorId, Word>, unreq: Set<(ActorId, ExecutionKind)>, k: ExecutionKind, ready0: bool)
    requires ack_c(req, l0, unreq, k, ready0), bcast_last(l0, l1, req, Word::Invalidated),
    ensures ack_c(req, l1, unreq, k, false),
{
    assert forall|r: ActorId| !unreq.contains((r, k)) implies ((#[trigger] l1.contains_key(r) && l1[r] is Ok) <==> (false && req.contains(r))) by {
        if req.contains(r) {
            assert(l1[r] == Word::Invalidated);
        } else {
            assert(l0.contains_key(r) == l1.contains_key(r));
        }
    }
}
/// telling an `Ok` word to every requester re-establishes AckInv for "ready"
pub proof fn lemma_ack_bcast_ok(req: Set<ActorId>, l0: Map<ActorId, Word>, l1: Map<ActorId, Word>, unreq: Set<(ActorId, ExecutionKind)>, k: ExecutionKind, ready0: bool, w: Word)
    requires ack_c(req, l0, unreq, k, ready0), bcast_last(l0, l1, req, w), w is Ok,
    ensures ack_c(req, l1, unreq, k, true),
{
    assert forall|r: ActorId| !unreq.contains((r, k)) implies ((#[trigger] l1.contains_key(r) && l1[r] is Ok) <==> (true && req.contains(r))) by {
        if req.contains(r) {
            assert(l1[r] == w);
        } else {
            assert(l0.contains_key(r) == l1.contains_key(r));
        }
    }
}

/// every `Ok` of kind `k` this actor ever sent (latest per peer) carried `actual == a`, and no `Invalidated` of that kind is recorded
pub open spec fn only_ok_actual(tr: Trace, k: ExecutionKind, a: bool) -> bool {
    forall|r: ActorId| #![trigger tr.lastk(k).contains_key(r)]
        tr.lastk(k).contains_key(r) ==> (tr.lastk(k)[r] matches Word::Ok { actual, .. } && actual == a)
}
pub open spec fn oks_actual(tr: Trace, k: ExecutionKind, a: bool) -> bool {
    forall|r: ActorId| #![trigger tr.lastk(k).contains_key(r)]
        tr.lastk(k).contains_key(r) ==> (tr.lastk(k)[r] matches Word::Ok { actual, .. } ==> actual == a)
}

/// [C04.request-deps] every dependency was asked for kind `k`
pub open spec fn deps_requested(h: &TargetActorHelper, tr: Trace, k: ExecutionKind) -> bool {
    forall|d: TargetId| #![trigger h.deps().contains(d)] h.deps().contains(d) ==> tr.requested.contains((ActorId::Target(d), k))
}

pub open spec fn nonempty<A>(s: Set<A>) -> bool { exists|x: A| s.contains(x) }

pub open spec fn kinds_book(h: &TargetActorHelper, tr: Trace) -> bool {
    &&& h.un(ExecutionKind::Build) == unavail_of(h.deps(), tr.inlog, ExecutionKind::Build)
    &&& h.un(ExecutionKind::Service) == unavail_of(h.deps(), tr.inlog, ExecutionKind::Service)
}

/// [C01.start-*] at a start, the latest word of every dependency, for both kinds, is `Ok`
pub open spec fn all_deps_ok(h: &TargetActorHelper, tr: Trace) -> bool {
    forall|d: TargetId, k: ExecutionKind| #![trigger last_word(tr.inlog, k, d)] h.deps().contains(d) ==> last_word(tr.inlog, k, d) == Some(RWord::Ok)
}

pub proof fn lemma_start_ready(h: &TargetActorHelper, tr: Trace)
    requires kinds_book(h, tr), h.un(ExecutionKind::Build).len() == 0, h.un(ExecutionKind::Service).len() == 0,
        h.un(ExecutionKind::Build).finite(), h.un(ExecutionKind::Service).finite(),
    ensures all_deps_ok(h, tr),
{
    assert forall|d: TargetId, k: ExecutionKind| h.deps().contains(d) implies #[trigger] last_word(tr.inlog, k, d) == Some(RWord::Ok) by {
        lemma_unavail_last_word(h.deps(), tr.inlog, k, d);
        if k == ExecutionKind::Build {
            assert(!h.un(ExecutionKind::Build).contains(d));
        } else {
            assert(k == ExecutionKind::Service);
            assert(!h.un(ExecutionKind::Service).contains(d));
        }
    }
}

// ===========================================================================
// BuildTargetActor
// ===========================================================================
//@item src/engine/target_actor/build_target_actor.rs BuildTargetActor pubfields

/// one firing of the build actor's `select!` (R3).  Assumed (A-chan): the event is appended to the
/// delivery log; the inbox yields `Some` (its sender lives in the relay until every actor was joined);
/// the `Done` arm can only fire while the fuse holds a running future, and empties it; the
/// invalidation arm can only fire when a watcher holds the sender.
#[verifier::external_body]
pub fn select_build(fuse: &mut Fuse, h: &TargetActorHelper, Tracked(tr): Tracked<&mut Trace>) -> (e: Ev)
    ensures
        *final(tr) == old(tr).delivered(e),
        e is Done ==> old(fuse).running() && !final(fuse).running(),
        !(e is Done) ==> final(fuse).running() == old(fuse).running(),
        e matches Ev::Msg(m) ==> m is Some,
        e is Inval ==> old(tr).watcher_present,
{ unimplemented!() }

impl BuildTargetActor {
    /// [C02.wiring] the run that was just started works on this actor's own target: its metadata, its
    /// inputs, its outputs, and the script of the same target
    pub open spec fn wired_last(&self, tr: Trace) -> bool {
        &&& tr.starts.len() > 0
        &&& tr.starts.last().meta == self.target.metadata
        &&& tr.starts.last().input == self.target.input
        &&& tr.starts.last().output == Some(self.target.output)
        &&& tr.starts.last().script_of == self.target
    }

//@fn src/engine/target_actor/build_target_actor.rs BuildTargetActor::new ret=r
//@contract
    ensures r.target == target, r.helper == target_actor_helper,
//@end

//@fn src/engine/target_actor/build_target_actor.rs BuildTargetActor::run
//@split-arms
//@attr #[verifier::exec_allows_no_decreases_clause]
//@attr #[verifier::spinoff_prover]
//@contract
    requires
        old(self).helper.wf(),
        old(self).helper.to_execute && !old(self).helper.executed,
        old(self).helper.req(ExecutionKind::Build) == Set::<ActorId>::empty(),
        old(self).helper.req(ExecutionKind::Service) == Set::<ActorId>::empty(),
        old(self).helper.un(ExecutionKind::Build) == old(self).helper.deps(),
        old(self).helper.un(ExecutionKind::Service) == old(self).helper.deps(),
        old(self).helper.target_id == old(tr).me,
        old(tr).inlog.len() == 0, old(tr).last_b == Map::<ActorId, Word>::empty() && old(tr).last_s == Map::<ActorId, Word>::empty(),
        old(tr).requested == Set::<(ActorId, ExecutionKind)>::empty(),
        old(tr).unreq == Set::<(ActorId, ExecutionKind)>::empty(),
        !old(tr).sent_unreq, !old(tr).sent_inval, !old(tr).term_seen, old(tr).ids_ok, old(tr).starts.len() == 0, old(tr).n_err == 0, old(tr).cancels_sent == 0,
    ensures
        /*[C04.no-early-exit]*/ final(tr).term_seen,
        /*[C01.identity]*/ final(tr).ids_ok,
//@pre
        broadcast use group_keys;
        broadcast use vstd::std_specs::hash::group_hash_axioms;
        let ghost h0 = self.helper;
        let ghost t0 = self.target;
//@loop 0
            invariant_except_break
                /*[C10.cancel-on-term]*/ tr.term_seen ==> ongoing_build_fuse.running() && tr.cancels_sent > 0,
            invariant
                self.helper.wf(), self.helper.same_static(&h0), self.target == t0,
                /*[C01.identity]*/ self.helper.target_id == tr.me && tr.ids_ok,
                /*[C01.book,C11.up-during-build,C06.propagate]*/ kinds_book(&self.helper, *tr),
                /*[C08.single-inflight]*/ ongoing_build_fuse.running() == ongoing_build_cancellation_sender.is_some(),
                self.helper.to_execute ==> !self.helper.executed,
                /*[C01.ok-build,C07.blocked]*/ self.helper.executed ==> !ongoing_build_fuse.running() && tr.last_done_ok,
                // a successful (or skipped) run that nothing invalidated since is recorded as executed - which is what makes `told_if` say something
                /*[C04.ack]*/ tr.last_done_ok && !ongoing_build_fuse.running() && tr.starts.len() > 0 ==> self.helper.executed || self.helper.to_execute,
                /*[C01.ok-build,C07.blocked]*/ told_only_if(&self.helper, *tr, ExecutionKind::Build, self.helper.executed && !self.helper.to_execute),
                /*[C04.ack]*/ told_if(&self.helper, *tr, ExecutionKind::Build, self.helper.executed && !self.helper.to_execute),
                /*[C11.build-false]*/ only_ok_actual(*tr, ExecutionKind::Service, false),
                /*[C11.build-true]*/ oks_actual(*tr, ExecutionKind::Build, true),
                /*[C04.no-early-exit]*/ termination_event_received ==> tr.term_seen,
                /*[C10.cancel-on-term]*/ tr.term_seen ==> termination_event_received,
                // a build in flight is abandoned for one reason only: the termination event (anything else leaves a target that
                // was started, is neither finished nor re-armed, and whose requesters wait for ever)
                /*[C06.no-abandon,C04.no-abandon]*/ tr.cancels_sent > 0 ==> tr.term_seen,
                /*[C04.no-unrequest,C11.keeps-requesting]*/ tr.sent_unreq ==> nonempty(tr.unreq),
                /*[C08.no-inval-oneshot]*/ tr.sent_inval ==> count_inval(tr.inlog) > 0,
                /*[C04.request-deps]*/ self.helper.req(ExecutionKind::Build).len() > 0 ==> deps_requested(&self.helper, *tr, ExecutionKind::Build) && deps_requested(&self.helper, *tr, ExecutionKind::Service),
                /*[C08.once-local]*/ tr.starts.len() + (if self.helper.to_execute { 1nat } else { 0nat }) <= 1 + count_inval(tr.inlog),
                count_done(tr.inlog) + (if ongoing_build_fuse.running() { 1nat } else { 0nat }) == tr.starts.len(),
                /*[C07.no-ack-on-failure]*/ tr.n_err <= count_done(tr.inlog),
                /*[C06.stimulus-kept,C01.ok-fresh,C07.blocked]*/ stim_since(tr.inlog, tr.last_start_at, false) ==> self.helper.to_execute,
            ensures
                /*[C10.cancel-on-term]*/ !ongoing_build_fuse.running(),
                /*[C04.no-early-exit]*/ tr.term_seen,
//@loopbody
            broadcast use group_keys;
            broadcast use vstd::std_specs::hash::group_hash_axioms;
//@before 0 `ongoing_build_fuse.set(`
                proof { lemma_start_ready(&self.helper, *tr); }
                assert(/*[C01.start-build,C07.blocked,C11.up-during-build]*/ all_deps_ok(&self.helper, *tr));
                assert(/*[C08.once-local]*/ self.helper.to_execute);
//@after 0 `ongoing_build_fuse.set(`
                assert(/*[C02.wiring]*/ self.wired_last(*tr));
//@after 0 `self.helper.set_execution_started();`
                // [C06.stimulus-kept] a start consumes the stimuli delivered so far; later ones must keep `to_execute` set
                proof { tr.last_start_at = tr.inlog.len(); }
//@select 0 enum=Ev oracle=`select_build(&mut ongoing_build_fuse, &self.helper)`
//@arm Term `self.helper.termination_events.next().fuse()`
//@arm Inval `self.helper.target_invalidated_events.next().fuse()`
//@arm Msg `self.helper.target_actor_input_receiver.next().fuse()`
//@arm Done `ongoing_build_fuse`
            // before sitting down to wait: nothing that could have been started was left unstarted
            assert(/*[C04.must-start]*/ !(self.helper.to_execute && self.helper.req(ExecutionKind::Build).len() != 0
                && self.helper.un(ExecutionKind::Build).len() == 0 && self.helper.un(ExecutionKind::Service).len() == 0 && !ongoing_build_fuse.running()));
            let ghost log0 = tr.inlog;
            //---
            proof {
                assert(tr.inlog.drop_last() == log0);
                reveal_with_fuel(unavail_of, 2);
                reveal_with_fuel(count_inval, 2);
                reveal_with_fuel(count_done, 2);
                reveal_with_fuel(stim_since, 2);
                let ghost ev_g = __ev;
                if let Ev::Msg(Some(ActorInputMessage::Unrequested { kind, requester })) = ev_g {
                    assert(tr.unreq.contains((requester, kind)));
                }
            }
//@after 0 `loop`
        assert(/*[C10.cancel-on-term]*/ !ongoing_build_fuse.running());
//@end
}

// ===========================================================================
// ServiceTargetActor
// ===========================================================================
//@item src/engine/target_actor/service_target_actor.rs ServiceTargetActor pubfields

//@include procfx.rs

/// one firing of the service actor's `select!` (R3); same assumptions as `select_build`, no `Done` arm
#[verifier::external_body]
pub fn select_service(h: &TargetActorHelper, Tracked(tr): Tracked<&mut Trace>) -> (e: Ev)
    ensures
        *final(tr) == old(tr).delivered(e),
        !(e is Done),
        e matches Ev::Msg(m) ==> m is Some,
        e is Inval ==> old(tr).watcher_present,
{ unimplemented!() }

/// [C10.reap-service, C11.single-instance] every child ever spawned, except the one currently held,
/// has been killed and waited for; the held one is live
pub open spec fn reap_inv(sp: Option<Child>, tr: Trace) -> bool {
    &&& forall|id: int| #![trigger tr.spawned.contains(id)] tr.spawned.contains(id) ==>
            (sp matches Some(c) && c.id() == id) || (tr.killed.contains(id) && tr.waited.contains(id))
    &&& sp matches Some(c) ==> tr.spawned.contains(c.id()) && !tr.waited.contains(c.id())
}

/// only the process table moved between two traces
pub open spec fn same_but_procs(t0: Trace, t1: Trace) -> bool {
    t1 == (Trace { spawn_calls: t1.spawn_calls, spawned: t1.spawned, killed: t1.killed, waited: t1.waited, ..t0 })
}

impl ServiceTargetActor {
//@fn src/engine/target_actor/service_target_actor.rs ServiceTargetActor::new ret=r
//@contract
    ensures r.target == target, r.helper == helper, /*[C11.single-instance]*/ r.service_process is None,
//@end

//@fn src/engine/target_actor/service_target_actor.rs ServiceTargetActor::stop_service
//@contract
    requires
        reap_inv(old(self).service_process, *old(tr)),
    ensures
        final(self).helper == old(self).helper, final(self).target == old(self).target,
        /*[C10.reap-service,C11.stop-at-exit]*/ final(self).service_process is None,
        /*[C10.reap-service,C11.stop-at-exit]*/ reap_inv(final(self).service_process, *final(tr)),
        same_but_procs(*old(tr), *final(tr)),
        final(tr).spawn_calls == old(tr).spawn_calls, final(tr).spawned == old(tr).spawned,
//@end

//@fn src/engine/target_actor/service_target_actor.rs ServiceTargetActor::restart_service ret=r
//@contract
    requires
        reap_inv(old(self).service_process, *old(tr)),
    ensures
        final(self).helper == old(self).helper, final(self).target == old(self).target,
        /*[C11.single-instance]*/ reap_inv(final(self).service_process, *final(tr)),
        /*[C01.ok-service,C07.blocked,C11.up-during-build]*/ r is Ok ==> final(self).service_process is Some,
        r is Err ==> final(self).service_process is None,
        same_but_procs(*old(tr), *final(tr)),
        /*[C08.once-local]*/ final(tr).spawn_calls == old(tr).spawn_calls + 1,
//@before 0 `let service_process = command`
        assert(/*[C11.single-instance]*/ forall|id: int| tr.spawned.contains(id) ==> tr.waited.contains(id));
//@end

//@fn src/engine/target_actor/service_target_actor.rs ServiceTargetActor::run
//@split-arms
//@attr #[verifier::exec_allows_no_decreases_clause]
//@attr #[verifier::spinoff_prover]
//@contract
    requires
        old(self).helper.wf(),
        old(self).helper.to_execute && !old(self).helper.executed,
        old(self).helper.req(ExecutionKind::Build) == Set::<ActorId>::empty(),
        old(self).helper.req(ExecutionKind::Service) == Set::<ActorId>::empty(),
        old(self).helper.un(ExecutionKind::Build) == old(self).helper.deps(),
        old(self).helper.un(ExecutionKind::Service) == old(self).helper.deps(),
        old(self).helper.target_id == old(tr).me,
        old(self).service_process is None,
        old(tr).inlog.len() == 0, old(tr).last_b == Map::<ActorId, Word>::empty() && old(tr).last_s == Map::<ActorId, Word>::empty(),
        old(tr).requested == Set::<(ActorId, ExecutionKind)>::empty(),
        old(tr).unreq == Set::<(ActorId, ExecutionKind)>::empty(),
        old(tr).spawned == Set::<int>::empty(), old(tr).spawn_calls == 0,
        !old(tr).sent_unreq, !old(tr).sent_inval, !old(tr).term_seen, old(tr).ids_ok, old(tr).n_err == 0,
    ensures
        /*[C04.no-early-exit]*/ final(tr).term_seen,
        /*[C01.identity]*/ final(tr).ids_ok,
        /*[C10.reap-service,C11.stop-at-exit]*/ forall|id: int| final(tr).spawned.contains(id) ==> final(tr).killed.contains(id) && final(tr).waited.contains(id),
//@pre
        broadcast use group_keys;
        broadcast use vstd::std_specs::hash::group_hash_axioms;
        let ghost h0 = self.helper;
        let ghost t0 = self.target;
//@loop 0
            invariant_except_break
                // a loop that never exits satisfies every postcondition: the termination event must end this iteration
                /*[C10.actor-exit,C11.stop-at-exit]*/ !tr.term_seen,
            invariant
                /*[C04.nopanic]*/ self.helper.wf(), self.helper.same_static(&h0), self.target == t0,
                /*[C01.identity]*/ self.helper.target_id == tr.me && tr.ids_ok,
                /*[C01.book,C11.up-during-build,C06.propagate]*/ kinds_book(&self.helper, *tr),
                self.helper.to_execute ==> !self.helper.executed,
                /*[C01.ok-service,C07.blocked,C11.up-during-build]*/ self.helper.executed && !nonempty(tr.unreq) ==> self.service_process is Some,
                /*[C04.ack]*/ self.service_process is Some ==> self.helper.executed || self.helper.to_execute,
                /*[C01.ok-service,C07.blocked,C11.up-during-build]*/ told_only_if(&self.helper, *tr, ExecutionKind::Service, self.helper.executed && !self.helper.to_execute),
                /*[C04.ack]*/ told_if(&self.helper, *tr, ExecutionKind::Service, self.helper.executed && !self.helper.to_execute),
                /*[C11.service-true]*/ oks_actual(*tr, ExecutionKind::Service, true),
                /*[C11.service-true]*/ only_ok_actual(*tr, ExecutionKind::Build, false),
                /*[C10.reap-service,C11.single-instance,C11.stop-at-exit]*/ reap_inv(self.service_process, *tr),
                /*[C04.no-unrequest,C11.keeps-requesting]*/ tr.sent_unreq ==> nonempty(tr.unreq),
                /*[C08.no-inval-oneshot]*/ tr.sent_inval ==> count_inval(tr.inlog) > 0,
                /*[C04.request-deps]*/ self.helper.req(ExecutionKind::Service).len() > 0 ==> deps_requested(&self.helper, *tr, ExecutionKind::Build) && deps_requested(&self.helper, *tr, ExecutionKind::Service),
                /*[C08.once-local]*/ tr.spawn_calls + (if self.helper.to_execute { 1nat } else { 0nat }) <= 1 + count_inval(tr.inlog),
                /*[C07.no-ack-on-failure]*/ tr.n_err <= tr.spawn_calls,
                /*[C06.stimulus-kept,C01.ok-fresh,C07.blocked]*/ stim_since(tr.inlog, tr.last_start_at, true) ==> self.helper.to_execute,
            ensures
                /*[C04.no-early-exit]*/ tr.term_seen,
//@loopbody
            broadcast use group_keys;
            broadcast use vstd::std_specs::hash::group_hash_axioms;
//@before 0 `self.helper.set_execution_started();`
                proof { lemma_start_ready(&self.helper, *tr); }
                assert(/*[C01.start-service,C07.blocked]*/ all_deps_ok(&self.helper, *tr));
                assert(/*[C08.once-local]*/ self.helper.to_execute);
//@after 0 `self.helper.set_execution_started();`
                proof { tr.last_start_at = tr.inlog.len(); }
//@select 0 enum=Ev oracle=`select_service(&self.helper)` fallback
//@arm Term `self.helper.termination_events.next().fuse()`
//@arm Inval `self.helper.target_invalidated_events.next().fuse()`
//@arm Msg `self.helper.target_actor_input_receiver.next().fuse()`
            assert(/*[C04.must-start]*/ !(self.helper.to_execute && self.helper.req(ExecutionKind::Service).len() != 0
                && self.helper.un(ExecutionKind::Build).len() == 0 && self.helper.un(ExecutionKind::Service).len() == 0));
            let ghost log0 = tr.inlog;
            //---
            proof {
                assert(tr.inlog.drop_last() == log0);
                reveal_with_fuel(unavail_of, 2);
                reveal_with_fuel(count_inval, 2);
                reveal_with_fuel(stim_since, 2);
                let ghost ev_g = __ev;
                if let Ev::Msg(Some(ActorInputMessage::Unrequested { kind, requester })) = ev_g {
                    assert(tr.unreq.contains((requester, kind)));
                }
            }
//@end
}

// ===========================================================================
// AggregateTargetActor
// ===========================================================================
//@item src/engine/target_actor/aggregate_target_actor.rs AggregateTargetActor pubfields

/// one firing of the aggregate actor's `select!` (R3): termination or inbox
#[verifier::external_body]
pub fn select_aggregate(h: &TargetActorHelper, Tracked(tr): Tracked<&mut Trace>) -> (e: Ev)
    ensures
        *final(tr) == old(tr).delivered(e),
        e is Term || e is Msg,
        e matches Ev::Msg(m) ==> m is Some,
{ unimplemented!() }

/// [C11.agg-or, C20.actual] every `Ok` an aggregate sent carried `actual` = "some dependency had reported actual"
pub open spec fn agg_actual_ok(tr: Trace, k: ExecutionKind) -> bool {
    forall|r: ActorId| #![trigger tr.lastk(k).contains_key(r)]
        tr.lastk(k).contains_key(r) ==> (tr.lastk(k)[r] matches Word::Ok { actual, dep_actual } ==> actual == dep_actual)
}

impl AggregateTargetActor {
//@fn src/engine/target_actor/aggregate_target_actor.rs AggregateTargetActor::new ret=r
//@contract
    ensures r._target == target, r.helper == helper,
//@end

//@fn src/engine/target_actor/aggregate_target_actor.rs AggregateTargetActor::run
//@split-arms
//@attr #[verifier::exec_allows_no_decreases_clause]
//@attr #[verifier::spinoff_prover]
//@replace `HashMap::<ExecutionKind, _>::new()` => `HashMap::<ExecutionKind, HashSet<TargetId>>::new()` rule=R15 why=`inferred type argument written out (Verus needs the element type before the first insert)`
//@contract
    requires
        old(self).helper.wf(),
        old(self).helper.req(ExecutionKind::Build) == Set::<ActorId>::empty(),
        old(self).helper.req(ExecutionKind::Service) == Set::<ActorId>::empty(),
        old(self).helper.un(ExecutionKind::Build) == old(self).helper.deps(),
        old(self).helper.un(ExecutionKind::Service) == old(self).helper.deps(),
        old(self).helper.target_id == old(tr).me,
        old(tr).inlog.len() == 0, old(tr).last_b == Map::<ActorId, Word>::empty() && old(tr).last_s == Map::<ActorId, Word>::empty(),
        old(tr).requested == Set::<(ActorId, ExecutionKind)>::empty(),
        old(tr).unreq == Set::<(ActorId, ExecutionKind)>::empty(),
        !old(tr).sent_unreq, !old(tr).sent_inval, !old(tr).term_seen, old(tr).ids_ok, old(tr).n_err == 0,
        old(tr).starts.len() == 0, old(tr).spawn_calls == 0,
    ensures
        /*[C04.no-early-exit]*/ final(tr).term_seen,
        /*[C01.identity]*/ final(tr).ids_ok,
        /*[C20.no-exec]*/ final(tr).n_err == 0 && final(tr).starts.len() == 0 && final(tr).spawn_calls == 0,
//@pre
        broadcast use group_keys;
        broadcast use vstd::std_specs::hash::group_hash_axioms;
        let ghost h0 = self.helper;
//@loop 0
            invariant_except_break
                /*[C10.actor-exit,C11.stop-at-exit]*/ !tr.term_seen,
            invariant
                /*[C04.nopanic]*/ self.helper.wf(), self.helper.same_static(&h0),
                /*[C04.nopanic]*/ dependencies@.contains_key(ExecutionKind::Build) && dependencies@.contains_key(ExecutionKind::Service),
                /*[C01.identity]*/ self.helper.target_id == tr.me && tr.ids_ok,
                /*[C01.book,C11.up-during-build,C06.propagate]*/ kinds_book(&self.helper, *tr),
                /*[C20.actual,C11.agg-or]*/ dependencies@[ExecutionKind::Build]@ == actual_of(tr.inlog, ExecutionKind::Build),
                /*[C20.actual,C11.agg-or]*/ dependencies@[ExecutionKind::Service]@ == actual_of(tr.inlog, ExecutionKind::Service),
                /*[C01.ok-aggregate,C07.blocked]*/ told_only_if(&self.helper, *tr, ExecutionKind::Build, self.helper.un(ExecutionKind::Build).len() == 0),
                /*[C04.ack,C20.fan-in]*/ told_if(&self.helper, *tr, ExecutionKind::Build, self.helper.un(ExecutionKind::Build).len() == 0),
                /*[C01.ok-aggregate,C07.blocked]*/ told_only_if(&self.helper, *tr, ExecutionKind::Service, self.helper.un(ExecutionKind::Service).len() == 0),
                /*[C04.ack,C20.fan-in]*/ told_if(&self.helper, *tr, ExecutionKind::Service, self.helper.un(ExecutionKind::Service).len() == 0),
                /*[C20.actual,C11.agg-or]*/ agg_actual_ok(*tr, ExecutionKind::Build),
                /*[C20.actual,C11.agg-or]*/ agg_actual_ok(*tr, ExecutionKind::Service),
                /*[C04.no-unrequest,C11.keeps-requesting]*/ tr.sent_unreq ==> nonempty(tr.unreq),
                /*[C08.no-inval-oneshot,C20.inval]*/ tr.sent_inval ==> count_inval(tr.inlog) > 0,
                /*[C04.request-deps,C20.fan-out]*/ self.helper.req(ExecutionKind::Build).len() > 0 ==> deps_requested(&self.helper, *tr, ExecutionKind::Build),
                /*[C04.request-deps,C20.fan-out]*/ self.helper.req(ExecutionKind::Service).len() > 0 ==> deps_requested(&self.helper, *tr, ExecutionKind::Service),
                /*[C20.no-exec]*/ tr.n_err == 0 && tr.starts.len() == 0 && tr.spawn_calls == 0,
            ensures
                /*[C04.no-early-exit]*/ tr.term_seen,
//@loopbody
            broadcast use group_keys;
            broadcast use vstd::std_specs::hash::group_hash_axioms;
//@select 0 enum=Ev oracle=`select_aggregate(&self.helper)` fallback
//@arm Term `self.helper.termination_events.next().fuse()`
//@arm Msg `self.helper.target_actor_input_receiver.next().fuse()`
            let ghost log0 = tr.inlog;
            //---
            proof {
                assert(tr.inlog.drop_last() == log0);
                reveal_with_fuel(unavail_of, 2);
                reveal_with_fuel(count_inval, 2);
                reveal_with_fuel(actual_of, 2);
                let ghost ev_g = __ev;
                if let Ev::Msg(Some(ActorInputMessage::Unrequested { kind, requester })) = ev_g {
                    assert(tr.unreq.contains((requester, kind)));
                }
            }
//@before 0 `let removed =`
                            let ghost un_b0 = self.helper.un(ExecutionKind::Build);
                            let ghost un_s0 = self.helper.un(ExecutionKind::Service);
                            let ghost tr_pre = *tr;
//@before 0 `if removed`
                            proof {
                                if kind == ExecutionKind::Build {
                                    assert(self.helper.un(ExecutionKind::Build) == un_b0.remove(target_id));
                                    assert(self.helper.un(ExecutionKind::Service) == un_s0);
                                    assert(removed == un_b0.contains(target_id));
                                    assert(removed ==> un_b0.len() > 0);
                                } else {
                                    assert(kind == ExecutionKind::Service);
                                    assert(self.helper.un(ExecutionKind::Service) == un_s0.remove(target_id));
                                    assert(self.helper.un(ExecutionKind::Build) == un_b0);
                                    assert(removed == un_s0.contains(target_id));
                                    assert(removed ==> un_s0.len() > 0);
                                }
                                assert(tr.last_b == tr_pre.last_b && tr.last_s == tr_pre.last_s);
                            }
//@before 0 `let inserted =`
                            let ghost un_b1 = self.helper.un(ExecutionKind::Build);
                            let ghost un_s1 = self.helper.un(ExecutionKind::Service);
                            let ghost tr_pre1 = *tr;
//@before 0 `if inserted`
                            proof {
                                if kind == ExecutionKind::Build {
                                    assert(self.helper.un(ExecutionKind::Build) == un_b1.insert(target_id));
                                    assert(self.helper.un(ExecutionKind::Service) == un_s1);
                                    assert(inserted == !un_b1.contains(target_id));
                                    assert(inserted ==> self.helper.un(ExecutionKind::Build).len() == un_b1.len() + 1);
                                    assert(!inserted ==> self.helper.un(ExecutionKind::Build) == un_b1);
                                } else {
                                    assert(kind == ExecutionKind::Service);
                                    assert(self.helper.un(ExecutionKind::Service) == un_s1.insert(target_id));
                                    assert(self.helper.un(ExecutionKind::Build) == un_b1);
                                    assert(inserted == !un_s1.contains(target_id));
                                    assert(inserted ==> self.helper.un(ExecutionKind::Service).len() == un_s1.len() + 1);
                                    assert(!inserted ==> self.helper.un(ExecutionKind::Service) == un_s1);
                                }
                                assert(self.helper.un(kind).len() > 0);
                                assert(tr.last_b == tr_pre1.last_b && tr.last_s == tr_pre1.last_s);
                            }
//@after 0 `if inserted`
                            proof {
                                let sent = inserted && self.helper.un(kind).len() == 1;
                                if kind == ExecutionKind::Build {
                                    if sent {
                                        /*[C01.ok-aggregate,C07.blocked]*/ lemma_ack_bcast_inval(self.helper.req(ExecutionKind::Build), tr_pre1.last_b, tr.last_b, tr.unreq, ExecutionKind::Build, un_b1.len() == 0);
                                    } else {
                                        assert(un_b1.len() > 0);
                                    }
                                } else {
                                    if sent {
                                        /*[C01.ok-aggregate,C07.blocked]*/ lemma_ack_bcast_inval(self.helper.req(ExecutionKind::Service), tr_pre1.last_s, tr.last_s, tr.unreq, ExecutionKind::Service, un_s1.len() == 0);
                                    } else {
                                        assert(un_s1.len() > 0);
                                    }
                                }
                            }
//@after 0 `if removed`
                            proof {
                                let sent = removed && self.helper.un(kind).len() == 0;
                                if kind == ExecutionKind::Build {
                                    if sent {
                                        /*[C01.ok-aggregate,C04.ack,C07.blocked]*/ lemma_ack_bcast_ok(self.helper.req(ExecutionKind::Build), tr_pre.last_b, tr.last_b, tr.unreq, ExecutionKind::Build, un_b0.len() == 0,
                                            Word::Ok { actual: dependencies@[ExecutionKind::Build]@.len() != 0, dep_actual: actual_of(tr_pre.inlog, ExecutionKind::Build).len() > 0 });
                                    }
                                } else {
                                    if sent {
                                        /*[C01.ok-aggregate,C04.ack,C07.blocked]*/ lemma_ack_bcast_ok(self.helper.req(ExecutionKind::Service), tr_pre.last_s, tr.last_s, tr.unreq, ExecutionKind::Service, un_s0.len() == 0,
                                            Word::Ok { actual: dependencies@[ExecutionKind::Service]@.len() != 0, dep_actual: actual_of(tr_pre.inlog, ExecutionKind::Service).len() > 0 });
                                    }
                                }
                            }
//@end
}

//@include footer.rs
