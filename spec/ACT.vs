//@unit ACT
//@ghost tr Trace seeds=send,try_send,set,spawn,kill,status
//@subst incremental::run => incremental_run_future
//@subst builder::build_target => build_target_future
//@dropderive Debug,Serialize,Deserialize,Clone,Copy
//@include header.rs
//@include std_ext.rs
//@include chan.rs
//@include proc.rs

// ===========================================================================
// domain types (verbatim from /repo)
// ===========================================================================
//@item src/domain.rs TargetId
//@item src/domain.rs TargetMetadata
//@item src/domain.rs BuildTarget
//@item src/domain.rs ServiceTarget
//@item src/domain.rs AggregateTarget
//@item src/engine/target_actor/mod.rs ActorInputMessage
//@item src/engine/target_actor/mod.rs TargetActorOutputMessage
//@item src/engine/target_actor/mod.rs ActorId
//@item src/engine/target_actor/mod.rs ExecutionKind
//@item src/main.rs TerminationMessage
//@item src/engine/watcher.rs TargetInvalidatedMessage
//@item src/engine/builder.rs BuildCancellationMessage
//@item src/engine/incremental/mod.rs IncrementalRunResult

/// domain::Resources is opaque in this unit (nothing here looks inside it; INC and CFG do)
#[verifier::external_body]
pub struct Resources { _p: () }

pub broadcast axiom fn axiom_kind_key_model()
    ensures #[trigger] obeys_key_model::<ExecutionKind>();
pub broadcast axiom fn axiom_tid_key_model()
    ensures #[trigger] obeys_key_model::<TargetId>();
pub broadcast axiom fn axiom_aid_key_model()
    ensures #[trigger] obeys_key_model::<ActorId>();
pub broadcast group group_keys {
    axiom_kind_key_model, axiom_tid_key_model, axiom_aid_key_model,
}

/// derived Clone returns an equal value (A-clone; R10 replaces the derive by this impl)
impl Clone for TargetId {
    #[verifier::external_body]
    fn clone(&self) -> (r: Self) ensures r == *self { unimplemented!() }
}
impl Clone for ActorId {
    #[verifier::external_body]
    fn clone(&self) -> (r: Self) ensures r == *self { unimplemented!() }
}
impl Clone for ActorInputMessage {
    #[verifier::external_body]
    fn clone(&self) -> (r: Self) ensures r == *self { unimplemented!() }
}
impl Clone for ExecutionKind {
    #[verifier::external_body]
    fn clone(&self) -> (r: Self) ensures r == *self { unimplemented!() }
}
impl Copy for ExecutionKind {}

// ===========================================================================
// ghost state (DESIGN §5)
// ===========================================================================
pub enum Word { Ok, Invalidated }

/// one delivered event = one `select!` arm firing
pub enum Ev {
    Term(Option<TerminationMessage>),
    Inval(Option<TargetInvalidatedMessage>),
    Msg(Option<ActorInputMessage>),
    Done(Result<IncrementalRunResult>),
}

pub ghost struct StartRec {
    pub meta: TargetMetadata,
    pub input: Resources,
    pub output: Option<Resources>,
    pub script_of: BuildTarget,
    pub cancel: int,
}

pub tracked struct Trace {
    pub ghost inlog: Seq<Ev>,
    pub ghost out: Seq<TargetActorOutputMessage>,
    /// latest status word sent to each (peer, kind)
    pub ghost last: Map<(ActorId, ExecutionKind), Word>,
    /// (requester, kind) pairs that ever un-registered
    pub ghost unreq: Set<(ActorId, ExecutionKind)>,
    pub ghost sent_unreq: bool,
    pub ghost starts: Seq<StartRec>,
    /// the last completed run of the build future was Skipped or Completed and nothing was started since
    pub ghost last_done_ok: bool,
    /// a file watcher holds the sender of the invalidation channel (watch mode and the target has inputs)
    pub ghost watcher_present: bool,
    pub ghost cancels_sent: nat,
    // process table (A-proc)
    pub ghost spawned: Set<int>,
    pub ghost killed: Set<int>,
    pub ghost waited: Set<int>,
}

pub open spec fn word_of(msg: ActorInputMessage) -> Option<(ExecutionKind, Word)> {
    match msg {
        ActorInputMessage::Ok { kind, .. } => Some((kind, Word::Ok)),
        ActorInputMessage::Invalidated { kind, .. } => Some((kind, Word::Invalidated)),
        _ => None,
    }
}

/// [C01.identity] every status word carries the sender's own id; requests name the sender as requester
pub open spec fn msg_id_ok(m: TargetActorOutputMessage, me: TargetId) -> bool {
    match m {
        TargetActorOutputMessage::TargetExecutionError(id, _) => id == me,
        TargetActorOutputMessage::MessageActor { dest, msg } => match msg {
            ActorInputMessage::Ok { target_id, .. } => target_id == me,
            ActorInputMessage::Invalidated { target_id, .. } => target_id == me,
            ActorInputMessage::Requested { requester, .. } => requester == ActorId::Target(me),
            ActorInputMessage::Unrequested { requester, .. } => requester == ActorId::Target(me),
        },
    }
}

pub open spec fn out_ids_ok(out: Seq<TargetActorOutputMessage>, me: TargetId) -> bool {
    forall|i: int| 0 <= i < out.len() ==> msg_id_ok(#[trigger] out[i], me)
}

impl Trace {
    pub open spec fn sent(self, m: TargetActorOutputMessage) -> Trace {
        Trace {
            out: self.out.push(m),
            last: match m {
                TargetActorOutputMessage::MessageActor { dest, msg } => match word_of(msg) {
                    Some((kind, w)) => self.last.insert((dest, kind), w),
                    None => self.last,
                },
                _ => self.last,
            },
            sent_unreq: self.sent_unreq || (m matches TargetActorOutputMessage::MessageActor { msg: ActorInputMessage::Unrequested { .. }, .. }),
            ..self
        }
    }
    pub open spec fn delivered(self, e: Ev) -> Trace {
        Trace {
            inlog: self.inlog.push(e),
            unreq: match e {
                Ev::Msg(Some(ActorInputMessage::Unrequested { kind, requester })) => self.unreq.insert((requester, kind)),
                _ => self.unreq,
            },
            last_done_ok: match e {
                Ev::Done(r) => r matches Ok(IncrementalRunResult::Skipped) || r matches Ok(IncrementalRunResult::Completed),
                _ => self.last_done_ok,
            },
            ..self
        }
    }
    pub open spec fn live(self) -> Set<int> { self.spawned.difference(self.waited) }
}

/// the set of dependencies whose latest word of kind `k` is not `Ok` (DESIGN §5.2)
pub open spec fn unavail_of(deps: Set<TargetId>, log: Seq<Ev>, k: ExecutionKind) -> Set<TargetId>
    decreases log.len()
{
    if log.len() == 0 {
        deps
    } else {
        let p = unavail_of(deps, log.drop_last(), k);
        match log.last() {
            Ev::Msg(Some(ActorInputMessage::Ok { kind, target_id, .. })) => if kind == k { p.remove(target_id) } else { p },
            Ev::Msg(Some(ActorInputMessage::Invalidated { kind, target_id })) => if kind == k { p.insert(target_id) } else { p },
            _ => p,
        }
    }
}

/// the latest status word received from `d` for kind `k`
pub open spec fn last_word(log: Seq<Ev>, k: ExecutionKind, d: TargetId) -> Option<Word>
    decreases log.len()
{
    if log.len() == 0 {
        None
    } else {
        match log.last() {
            Ev::Msg(Some(ActorInputMessage::Ok { kind, target_id, .. })) => if kind == k && target_id == d { Some(Word::Ok) } else { last_word(log.drop_last(), k, d) },
            Ev::Msg(Some(ActorInputMessage::Invalidated { kind, target_id })) => if kind == k && target_id == d { Some(Word::Invalidated) } else { last_word(log.drop_last(), k, d) },
            _ => last_word(log.drop_last(), k, d),
        }
    }
}

/// a dependency is outside the pending set exactly when its latest word is Ok
pub proof fn lemma_unavail_last_word(deps: Set<TargetId>, log: Seq<Ev>, k: ExecutionKind, d: TargetId)
    ensures
        deps.contains(d) ==> (!unavail_of(deps, log, k).contains(d) <==> last_word(log, k, d) == Some(Word::Ok)),
        !deps.contains(d) ==> (unavail_of(deps, log, k).contains(d) <==> last_word(log, k, d) == Some(Word::Invalidated)),
    decreases log.len()
{
    if log.len() > 0 {
        lemma_unavail_last_word(deps, log.drop_last(), k, d);
    }
}

// ===========================================================================
// futures handed to the Fuse (R4): constructors record their arguments
// ===========================================================================
#[verifier::external_body]
pub struct BuildFuture { _p: () }
impl BuildFuture {
    pub uninterp spec fn target(&self) -> BuildTarget;
    pub uninterp spec fn cancel(&self) -> int;
}
#[verifier::external_body]
pub struct RunFuture { _p: () }
impl RunFuture {
    pub uninterp spec fn rec(&self) -> StartRec;
}
#[verifier::external_body]
pub fn build_target_future(target: &BuildTarget, cancel: Receiver<BuildCancellationMessage>) -> (r: BuildFuture)
    ensures r.target() == *target, r.cancel() == cancel.chan(),
{ unimplemented!() }
#[verifier::external_body]
pub fn incremental_run_future(meta: &TargetMetadata, input: &Resources, output: Option<&Resources>, fut: BuildFuture) -> (r: RunFuture)
    ensures r.rec() == (StartRec { meta: *meta, input: *input, output: match output { Some(o) => Some(*o), None => None }, script_of: fut.target(), cancel: fut.cancel() }),
{ unimplemented!() }

#[verifier::external_body]
pub struct Fuse { _p: () }
impl Fuse {
    pub uninterp spec fn running(&self) -> bool;
    #[verifier::external_body]
    pub fn terminated() -> (r: Fuse)
        ensures !r.running(),
    { unimplemented!() }
    /// replacing a future that is still running would drop (abandon) the build in flight
    #[verifier::external_body]
    pub fn set(&mut self, fut: RunFuture, Tracked(tr): Tracked<&mut Trace>)
        requires
            /*[C08.single-inflight]*/ !old(self).running(),
        ensures
            final(self).running(),
            *final(tr) == (Trace { starts: old(tr).starts.push(fut.rec()), last_done_ok: false, ..*old(tr) }),
    { unimplemented!() }
}

// ===========================================================================
// channel effects of this unit (A-chan)
// ===========================================================================
impl Sender<TargetActorOutputMessage> {
    #[verifier::external_body]
    pub fn send(&self, msg: TargetActorOutputMessage, Tracked(tr): Tracked<&mut Trace>) -> (r: std::result::Result<(), SendError>)
        ensures *final(tr) == old(tr).sent(msg),
    { unimplemented!() }
}
impl Sender<BuildCancellationMessage> {
    #[verifier::external_body]
    pub fn try_send(&self, msg: BuildCancellationMessage, Tracked(tr): Tracked<&mut Trace>) -> (r: std::result::Result<(), SendError>)
        ensures *final(tr) == (Trace { cancels_sent: old(tr).cancels_sent + 1, ..*old(tr) }),
    { unimplemented!() }
}

// ===========================================================================
// TargetActorHelper
// ===========================================================================
//@item src/engine/target_actor/target_actor_helper.rs TargetActorHelper

#[verifier::external_body]
pub fn vec_to_set(v: &Vec<TargetId>) -> (r: HashSet<TargetId>)
    ensures r@ == v@.to_set(),
{ unimplemented!() }


impl TargetActorHelper {
    pub open spec fn wf(&self) -> bool {
        &&& self.unavailable_dependencies@.contains_key(ExecutionKind::Build)
        &&& self.unavailable_dependencies@.contains_key(ExecutionKind::Service)
        &&& self.requesters@.contains_key(ExecutionKind::Build)
        &&& self.requesters@.contains_key(ExecutionKind::Service)
    }
    pub open spec fn un(&self, k: ExecutionKind) -> Set<TargetId> { self.unavailable_dependencies@[k]@ }
    pub open spec fn req(&self, k: ExecutionKind) -> Set<ActorId> { self.requesters@[k]@ }
    pub open spec fn deps(&self) -> Set<TargetId> { self.dependencies@.to_set() }
    /// everything except the two flags and the requester/pending sets is unchanged
    pub open spec fn same_static(&self, o: &TargetActorHelper) -> bool {
        &&& self.target_id == o.target_id
        &&& self.dependencies == o.dependencies
        &&& self.termination_events == o.termination_events
        &&& self.target_invalidated_events == o.target_invalidated_events
        &&& self.target_actor_input_receiver == o.target_actor_input_receiver
        &&& self.target_actor_output_sender == o.target_actor_output_sender
    }

//@fn src/engine/target_actor/target_actor_helper.rs TargetActorHelper::new ret=r
//@replace `let dependencies_set: HashSet<_> = dependencies.iter().cloned().collect();` => `let dependencies_set: HashSet<TargetId> = vec_to_set(&dependencies);` rule=R13 why=`iterator adapter chain iter().cloned().collect() into a HashSet -> prelude stub vec_to_set (ensures r@ == v@.to_set())`
//@contract
    ensures
        r.wf(),
        /*[C01.book]*/ r.un(ExecutionKind::Build) == target_metadata.dependencies@.to_set(),
        /*[C01.book]*/ r.un(ExecutionKind::Service) == target_metadata.dependencies@.to_set(),
        r.req(ExecutionKind::Build) == Set::<ActorId>::empty(),
        r.req(ExecutionKind::Service) == Set::<ActorId>::empty(),
        /*[C08.once-local]*/ r.to_execute && !r.executed,
        /*[C01.identity]*/ r.target_id == target_metadata.id,
        r.dependencies@ == target_metadata.dependencies@,
//@pre
        broadcast use group_keys;
        broadcast use vstd::std_specs::hash::group_hash_axioms;
//@after 0 `let dependencies = target_metadata.dependencies.clone();`
        proof { assert(dependencies@ =~= target_metadata.dependencies@); }
//@end

//@fn src/engine/target_actor/target_actor_helper.rs TargetActorHelper::should_execute ret=r
//@contract
    requires self.wf(),
    ensures
        /*[C01.guard]*/ r ==> self.un(ExecutionKind::Build).len() == 0 && self.un(ExecutionKind::Service).len() == 0,
        /*[C08.once-local]*/ r ==> self.to_execute,
        r ==> self.req(kind).len() != 0,
        /*[C04.must-start]*/ (self.to_execute && self.req(kind).len() != 0 && self.un(ExecutionKind::Build).len() == 0 && self.un(ExecutionKind::Service).len() == 0) ==> r,
//@pre
        broadcast use group_keys;
        broadcast use vstd::std_specs::hash::group_hash_axioms;
//@end

}

//@include footer.rs
