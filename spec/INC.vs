//@unit INC
//@ghost w World seeds=exists,remove_file,create_dir,file_open,file_create,serialize_into,list_files_in_resources,metadata,async_file_open,read,output,await_build,all_files,all_cmds,try_join_all_cmds
//@dropderive Debug,Serialize,Deserialize,Clone,Copy
//@subst std::path::PathBuf => PathBuf
//@subst std::path::Path => Path
//@subst std::fs::File::open => file_open
//@subst std::fs::File::create => file_create
//@subst File::open => async_file_open
//@subst bincode::deserialize_from => deserialize_from
//@subst bincode::DefaultOptions::new => BincodeOptions::new
//@subst bincode::serialize_into => serialize_into
//@subst fs::ResourcesState => FsResourcesState
//@subst cmd_stdout::ResourcesState => CmdResourcesState
//@subst Hasher::write => hasher_write
//@subst String::from_utf8_lossy => from_utf8_lossy
//@include header.rs
//@include std_ext.rs
//@include proc.rs

// ===========================================================================
// domain types (verbatim from /repo)
// ===========================================================================
//@item src/domain.rs TargetId
//@item src/domain.rs TargetMetadata
//@item src/domain.rs FilesResource dropderive=PartialEq
//@item src/domain.rs CmdResource dropderive=PartialEq
//@item src/domain.rs Resources dropderive=PartialEq
//@item src/engine/builder.rs BuildTerminationReport
//@item src/engine/incremental/mod.rs IncrementalRunResult dropderive=PartialEq
//@item src/engine/incremental/mod.rs TargetEnvState pubfields dropderive=PartialEq
//@item src/engine/incremental/resources_state/mod.rs ResourcesState pubfields dropderive=PartialEq
//@item src/engine/incremental/resources_state/fs.rs ResourcesState as=FsResourcesState pubfields dropderive=PartialEq
//@item src/engine/incremental/resources_state/cmd_stdout.rs ResourcesState as=CmdResourcesState pubfields dropderive=PartialEq

/// domain::FileExtensions = Option<BTreeSet<String>>: opaque here (only passed through to the listing)
#[verifier::external_body]
pub struct FileExtensions { _p: () }

/// async_std::path::Path / std::path::Path (the former is a transparent wrapper of the latter; both
/// PathBuf types are mapped onto the prelude's `PathBuf`, so `.into()` between them is the identity)
#[verifier::external_body]
pub struct Path { _p: () }
impl Path {
    pub uninterp spec fn buf(&self) -> PathBuf;
    #[verifier::external_body]
    pub fn into(&self) -> (r: &Path) ensures r.buf() == self.buf() { unimplemented!() }
    #[verifier::external_body]
    pub fn join(&self, name: String) -> (r: PathBuf) { unimplemented!() }
}
impl std::ops::Deref for PathBuf {
    type Target = Path;
    #[verifier::external_body]
    fn deref(&self) -> (r: &Path) ensures r.buf() == *self { unimplemented!() }
}
impl PathBuf {
    #[verifier::external_body]
    pub fn into(self) -> (r: PathBuf) ensures r == self { unimplemented!() }
    #[verifier::external_body]
    pub fn as_path(&self) -> (r: &Path) ensures r.buf() == *self { unimplemented!() }
}
impl std::borrow::Borrow<Path> for PathBuf {
    #[verifier::external_body]
    fn borrow(&self) -> &Path { unimplemented!() }
}
impl PartialEq for Path {
    #[verifier::external_body]
    fn eq(&self, o: &Path) -> (r: bool) ensures r == (self.buf() == o.buf()) { unimplemented!() }
}
impl Eq for Path {}
impl std::hash::Hash for Path {
    #[verifier::external_body]
    fn hash<H: std::hash::Hasher>(&self, state: &mut H) { unimplemented!() }
}
/// looking a `&Path` up in a map keyed by `PathBuf` finds the entry of the same path (A-std: `Borrow<Path> for PathBuf`)
pub broadcast axiom fn axiom_path_borrow_contains<V>(m: Map<PathBuf, V>, p: &Path)
    ensures #[trigger] contains_borrowed_key::<PathBuf, V, Path>(m, p) == m.contains_key(p.buf());
pub broadcast axiom fn axiom_path_borrow_maps<V>(m: Map<PathBuf, V>, p: &Path, v: V)
    ensures #[trigger] maps_borrowed_key_to_value::<PathBuf, V, Path>(m, p, v) == (m.contains_key(p.buf()) && m[p.buf()] == v);
pub broadcast axiom fn axiom_path_key_model()
    ensures #[trigger] obeys_key_model::<PathBuf>();
pub broadcast axiom fn axiom_cmdkey_key_model()
    ensures #[trigger] obeys_key_model::<(PathBuf, String)>();
pub broadcast group group_keys {
    axiom_path_key_model, axiom_cmdkey_key_model, axiom_key_borrows_self, axiom_path_borrow_contains, axiom_path_borrow_maps,
}

impl Clone for TargetId {
    #[verifier::external_body]
    fn clone(&self) -> (r: Self) ensures r == *self { unimplemented!() }
}
impl Clone for CmdResource {
    #[verifier::external_body]
    fn clone(&self) -> (r: Self) ensures r == *self { unimplemented!() }
}

/// std::time::Duration: opaque, compared with `==` (derived PartialEq = equality of the value)
#[verifier::external_body]
pub struct Duration { _p: () }
impl Clone for Duration {
    #[verifier::external_body]
    fn clone(&self) -> (r: Self) ensures r == *self { unimplemented!() }
}
impl Copy for Duration {}
impl PartialEq for Duration {
    #[verifier::external_body]
    fn eq(&self, o: &Duration) -> (r: bool) ensures r == (*self == *o) { unimplemented!() }
}
/// ordering of durations: some total order (only equality is ever relied upon)
pub uninterp spec fn dur_lt(a: Duration, b: Duration) -> bool;
impl PartialOrd for Duration {
    #[verifier::external_body]
    fn partial_cmp(&self, o: &Duration) -> (r: Option<std::cmp::Ordering>) { unimplemented!() }
    #[verifier::external_body]
    fn lt(&self, o: &Duration) -> (r: bool) ensures r == dur_lt(*self, *o) { unimplemented!() }
    #[verifier::external_body]
    fn le(&self, o: &Duration) -> (r: bool) ensures r == (dur_lt(*self, *o) || *self == *o) { unimplemented!() }
    #[verifier::external_body]
    fn gt(&self, o: &Duration) -> (r: bool) ensures r == dur_lt(*o, *self) { unimplemented!() }
    #[verifier::external_body]
    fn ge(&self, o: &Duration) -> (r: bool) ensures r == (dur_lt(*o, *self) || *self == *o) { unimplemented!() }
}

// ===========================================================================
// ghost world (DESIGN §5.3)
// ===========================================================================
/// an instant of the file system and of what the declared commands would print
#[verifier::external_body]
pub ghost struct Snap { _p: () }
impl Snap {
    /// the files denoted by a list of files resources (walkdir, is_file, `.zinoma` pruning, extension filter: A-fs)
    pub uninterp spec fn listing(self, r: Seq<FilesResource>) -> Set<PathBuf>;
    /// modification time, None when it cannot be obtained
    pub uninterp spec fn mtime(self, f: PathBuf) -> Option<Duration>;
    /// content, None when the file cannot be opened or read
    pub uninterp spec fn content(self, f: PathBuf) -> Option<Seq<u8>>;
    /// what `/bin/sh -ce cmd` prints in `dir`: (exit status ok, stdout bytes), None when it cannot be run
    pub uninterp spec fn run(self, dir: PathBuf, cmd: String) -> Option<(bool, Seq<u8>)>;
}
/// SeaHasher as a function of the byte sequence written (A-codec)
pub uninterp spec fn sea_hash(bytes: Seq<u8>) -> u64;
/// `String::from_utf8_lossy(bytes).to_string()`
pub uninterp spec fn lossy(bytes: Seq<u8>) -> String;

/// what a state file holds: a fully written record decodes to exactly the value that was serialised;
/// anything else (empty, truncated, foreign) does not decode (A-codec)
pub ghost enum Stored {
    Garbage,
    State(EnvView),
}
pub ghost struct RsView {
    pub fs: Map<PathBuf, (Duration, u64)>,
    pub cmd: Map<(PathBuf, String), String>,
}
pub ghost struct EnvView {
    pub input: RsView,
    pub output: Option<RsView>,
}

pub tracked struct World {
    /// current instant; replaced by an arbitrary one whenever a build script runs
    pub ghost snap: Snap,
    /// the `.zinoma/*.checksums` files
    pub ghost store: Map<PathBuf, Stored>,
    /// number of times a build future was awaited
    pub ghost builds: nat,
    /// the last awaited build future reported Completed (script ran and exited with status 0)
    pub ghost last_completed: bool,
}

impl FsResourcesState {
    pub open spec fn view(&self) -> Map<PathBuf, (Duration, u64)> { self.0@ }
}
impl CmdResourcesState {
    pub open spec fn view(&self) -> Map<(PathBuf, String), String> { self.0@ }
}
impl ResourcesState {
    pub open spec fn view(&self) -> RsView { RsView { fs: self.fs.view(), cmd: self.cmd_stdout.view() } }
}
impl TargetEnvState {
    pub open spec fn view(&self) -> EnvView {
        EnvView { input: self.input.view(), output: match self.output { Some(o) => Some(o.view()), None => None } }
    }
}

/// path of a target's state file: a function of the project directory and the target id only [C18.path]
pub uninterp spec fn state_path(project_dir: PathBuf, id: TargetId) -> PathBuf;

/// every state file except `p` is untouched [C18.frame-*]
pub open spec fn frame(a: Map<PathBuf, Stored>, b: Map<PathBuf, Stored>, p: PathBuf) -> bool {
    forall|k: PathBuf| #![trigger a.contains_key(k)] #![trigger b.contains_key(k)] k != p ==> (a.contains_key(k) <==> b.contains_key(k)) && (a.contains_key(k) ==> b[k] == a[k])
}
/// the record at `p` is the old one or has been dropped — never a new one
pub open spec fn same_or_dropped(a: Map<PathBuf, Stored>, b: Map<PathBuf, Stored>, p: PathBuf) -> bool {
    b.contains_key(p) ==> a.contains_key(p) && a[p] == b[p]
}

// ===========================================================================
// storage.rs
// ===========================================================================
#[verifier::external_body]
pub struct StdFile { _p: () }
impl StdFile {
    /// the bytes behind an opened file, as decoded by bincode
    pub uninterp spec fn stored(&self) -> Stored;
    pub uninterp spec fn path(&self) -> PathBuf;
    /// length in bytes of the file
    pub uninterp spec fn len(&self) -> u64;
    /// `File::metadata`: a failure counts as "the state file cannot be read" (A-fs)
    #[verifier::external_body]
    pub fn metadata(&self, Tracked(w): Tracked<&mut World>) -> (r: std::result::Result<StdFileMeta, IoError>)
        ensures *final(w) == *old(w), r matches Ok(m) ==> m.spec_len() == self.len(),
            r is Err ==> read_fails(self.path()),
    { unimplemented!() }
}
#[verifier::external_body]
pub struct StdFileMeta { _p: () }
impl StdFileMeta {
    pub uninterp spec fn spec_len(&self) -> u64;
    #[verifier::external_body]
    pub fn len(&self) -> (r: u64) ensures r == self.spec_len(), { unimplemented!() }
}
#[verifier::external_body]
pub struct BincodeError { _p: () }
/// `bincode::DefaultOptions` with the `Options` builder methods used by storage.rs (A-codec): decoding under a byte
/// limit fails on a decodable record only when the limit is smaller than the file
#[verifier::external_body]
pub struct BincodeOptions { _p: () }
impl BincodeOptions {
    pub uninterp spec fn lim(&self) -> Option<u64>;
    #[verifier::external_body]
    pub fn new() -> (r: Self) ensures r.lim() is None, { unimplemented!() }
    #[verifier::external_body]
    pub fn with_fixint_encoding(self) -> (r: Self) ensures r.lim() == self.lim(), { unimplemented!() }
    #[verifier::external_body]
    pub fn allow_trailing_bytes(self) -> (r: Self) ensures r.lim() == self.lim(), { unimplemented!() }
    #[verifier::external_body]
    pub fn with_limit(self, n: u64) -> (r: Self) ensures r.lim() == Some(n), { unimplemented!() }
    #[verifier::external_body]
    pub fn deserialize_from(self, f: StdFile) -> (r: std::result::Result<TargetEnvState, BincodeError>)
        requires
            /*[C05.corrupt-bounded]*/ decoding_is_total(self.lim(), f),
        ensures
            r matches Ok(s) ==> f.stored() == Stored::State(s.view()),
            r is Err ==> f.stored() is Garbage || (self.lim() matches Some(n) && n < f.len()),
    { unimplemented!() }
}

/// `get_checksums_file_path` (storage.rs): `<project_dir>/.zinoma/<target>.checksums` — string formatting, assumed
//@fn src/engine/incremental/storage.rs get_checksums_file_path assumed ret=r
//@contract
    ensures /*[C18.path,C02.record-kept,C02.own-record,C03.own-record]*/ r == state_path(target.project_dir, target.id),
//@end

/// `work_dir::get_work_dir_path`
#[verifier::external_body]
pub fn get_work_dir_path(project_dir: &PathBuf) -> (r: PathBuf) { unimplemented!() }

impl PathBuf {
    /// `path.exists().await` on a state-file path
    #[verifier::external_body]
    pub fn exists(&self, Tracked(w): Tracked<&mut World>) -> (r: bool)
        ensures r == old(w).store.contains_key(*self), *final(w) == *old(w),
    { unimplemented!() }
    #[verifier::external_body]
    pub fn display(&self) -> u8 { unimplemented!() }
}
/// `async_std::fs::remove_file`
#[verifier::external_body]
pub fn remove_file(p: &PathBuf, Tracked(w): Tracked<&mut World>) -> (r: std::result::Result<(), IoError>)
    ensures
        r is Ok ==> *final(w) == (World { store: old(w).store.remove(*p), ..*old(w) }),
        r is Err ==> *final(w) == *old(w),
{ unimplemented!() }
/// `async_std::fs::create_dir` (of the `.zinoma` directory; no state file is touched)
#[verifier::external_body]
pub fn create_dir(p: PathBuf, Tracked(w): Tracked<&mut World>) -> (r: std::result::Result<(), IoError>)
    ensures *final(w) == *old(w),
{ unimplemented!() }
/// `std::fs::File::open`
#[verifier::external_body]
pub fn file_open(p: &PathBuf, Tracked(w): Tracked<&mut World>) -> (r: std::result::Result<StdFile, IoError>)
    ensures *final(w) == *old(w),
        r matches Ok(f) ==> old(w).store.contains_key(*p) && f.stored() == old(w).store[*p] && f.path() == *p,
        r is Err ==> !old(w).store.contains_key(*p) || read_fails(*p),
{ unimplemented!() }
/// A-fs: an existing state file cannot be opened for reading (permissions, I/O error)
pub uninterp spec fn read_fails(p: PathBuf) -> bool;
/// `std::fs::File::create`: creates or truncates — from this instant the file holds no decodable record
#[verifier::external_body]
pub fn file_create(p: &PathBuf, Tracked(w): Tracked<&mut World>) -> (r: std::result::Result<StdFile, IoError>)
    ensures
        r matches Ok(f) ==> f.path() == *p && *final(w) == (World { store: old(w).store.insert(*p, Stored::Garbage), ..*old(w) }),
        r is Err ==> *final(w) == *old(w),
{ unimplemented!() }
/// bincode decodes a length prefix and allocates what it announces before reading: on arbitrary bytes this is a
/// panic ("capacity overflow", reproduced with 64 bytes of 0xff; the blocking task dies and zinoma hangs) unless the
/// decoder runs under a byte limit no larger than the file. C05: a corrupted file leads to a rebuild, "never to an
/// error, a panic or a skip" - so decoding a state file requires such a bound.
/// The bound is stated with a fixed slack of 1 MiB so that harmless variants (the file's length plus a margin, a small
/// constant) are not rejected: what matters for totality is that the decoder can never be made to allocate more than
/// the file's size plus a constant.
pub open spec fn decoding_is_total(lim: Option<u64>, f: StdFile) -> bool {
    lim matches Some(n) && n <= f.len() + 1048576
}
/// `bincode::deserialize_from(file)` (A-codec): the unbounded decoder
#[verifier::external_body]
pub fn deserialize_from(f: StdFile) -> (r: std::result::Result<TargetEnvState, BincodeError>)
    requires
        /*[C05.corrupt-bounded]*/ decoding_is_total(None, f),
    ensures
        r matches Ok(s) ==> f.stored() == Stored::State(s.view()),
        r is Err ==> f.stored() is Garbage,
{ unimplemented!() }
/// `bincode::serialize_into(file, &state)`: a complete write decodes to the value, an incomplete one to nothing (A-codec)
#[verifier::external_body]
pub fn serialize_into(f: StdFile, s: &TargetEnvState, Tracked(w): Tracked<&mut World>) -> (r: std::result::Result<(), BincodeError>)
    ensures
        r is Ok ==> *final(w) == (World { store: old(w).store.insert(f.path(), Stored::State(s.view())), ..*old(w) }),
        r is Err ==> *final(w) == (World { store: old(w).store.insert(f.path(), Stored::Garbage), ..*old(w) }),
{ unimplemented!() }

//@fn src/engine/incremental/storage.rs read_saved_target_env_state#closure0 as=read_saved_closure params=`file_path: PathBuf, target_id: TargetId` rty=`Result<TargetEnvState>` ret=r
//@contract
    ensures
        *final(w) == *old(w),
        r matches Ok(s) ==> old(w).store.contains_key(file_path) && old(w).store[file_path] == Stored::State(s.view()),
        /*[C03.read-back]*/ old(w).store.contains_key(file_path) && old(w).store[file_path] is State && !read_fails(file_path) ==> r is Ok,
//@end

//@fn src/engine/incremental/storage.rs read_saved_target_env_state ret=r
//@closure 0 skeleton=`task::spawn_blocking(<CLOSURE>).await` becomes=`read_saved_closure(file_path, target_id, Tracked(w))`
//@contract
    ensures
        /*[C02.needs-record,C12.no-skip]*/ r matches Some(s) ==> old(w).store.contains_key(state_path(target.project_dir, target.id)) && old(w).store[state_path(target.project_dir, target.id)] == Stored::State(s.view()),
        r is Some ==> *final(w) == *old(w),
        /*[C03.read-back]*/ old(w).store.contains_key(state_path(target.project_dir, target.id)) && old(w).store[state_path(target.project_dir, target.id)] is State
            && !read_fails(state_path(target.project_dir, target.id)) ==> r is Some,
        /*[C05.corrupt,C18.frame-read,C08.state-untouched]*/ r is None ==> final(w).store == old(w).store || final(w).store == old(w).store.remove(state_path(target.project_dir, target.id)),
        /*[C05.corrupt]*/ r is None && old(w).store.contains_key(state_path(target.project_dir, target.id)) && final(w).store.contains_key(state_path(target.project_dir, target.id)) ==> final(w).store == old(w).store,
        *final(w) == (World { store: final(w).store, ..*old(w) }),
//@end

//@fn src/engine/incremental/storage.rs delete_saved_env_state ret=r
//@contract
    ensures
        /*[C05.delete-first,C12.state,C18.frame-delete,C08.state-untouched]*/ r is Ok ==> final(w).store == old(w).store.remove(state_path(target.project_dir, target.id)),
        /*[C18.frame-delete,C08.state-untouched]*/ r is Err ==> final(w).store == old(w).store,
        *final(w) == (World { store: final(w).store, ..*old(w) }),
//@end

//@fn src/engine/incremental/storage.rs save_env_state#closure0 as=save_closure params=`file_path: PathBuf, target_id: TargetId, env_state: TargetEnvState` rty=`Result<()>` ret=r
//@contract
    ensures
        /*[C03.record,C02.record-kept]*/ r is Ok ==> final(w).store == old(w).store.insert(file_path, Stored::State(env_state.view())),
        /*[C05.write-on-success-only]*/ r is Err ==> final(w).store == old(w).store || final(w).store == old(w).store.insert(file_path, Stored::Garbage),
        *final(w) == (World { store: final(w).store, ..*old(w) }),
//@end

//@fn src/engine/incremental/storage.rs save_env_state ret=r
//@closure 0 skeleton=`task::spawn_blocking(<CLOSURE>).await` becomes=`save_closure(file_path, target_id, env_state, Tracked(w))`
//@contract
    ensures
        /*[C03.record,C02.record-kept,C18.frame-save,C08.state-untouched,C03.own-record]*/ r is Ok ==> final(w).store == old(w).store.insert(state_path(target.project_dir, target.id), Stored::State(env_state.view())),
        /*[C05.write-on-success-only,C18.frame-save,C08.state-untouched,C03.own-record]*/ r is Err ==> final(w).store == old(w).store || final(w).store == old(w).store.insert(state_path(target.project_dir, target.id), Stored::Garbage),
        *final(w) == (World { store: final(w).store, ..*old(w) }),
//@end

// ===========================================================================
// resources_state/fs.rs
// ===========================================================================
/// `crate::fs::list_files_in_resources` (A-fs: the whole of walkdir, is_file, `.zinoma` pruning and the
/// extension filter); the signature is the repository's, the body is not verified
//@fn src/fs.rs list_files_in_resources assumed ret=r
//@contract
    ensures *final(w) == *old(w), r@ == old(w).snap.listing(resources@),
//@end
//@fn src/fs.rs list_files_in_paths assumed ret=r
//@contract
    ensures true,
//@end
//@fn src/fs.rs list_files_in_path assumed ret=r
//@contract
    ensures true,
//@end

#[verifier::external_body]
pub struct Metadata { _p: () }
#[verifier::external_body]
pub struct SystemTime { _p: () }
#[verifier::external_body]
pub struct SystemTimeError { _p: () }
impl Metadata {
    pub uninterp spec fn mtime(&self) -> Option<Duration>;
    /// `metadata.modified()`
    #[verifier::external_body]
    pub fn modified(&self) -> (r: std::result::Result<SystemTime, IoError>)
        ensures r matches Ok(t) ==> t.since_epoch() == self.mtime(), r is Err ==> self.mtime() is None,
    { unimplemented!() }
}
impl SystemTime {
    pub uninterp spec fn since_epoch(&self) -> Option<Duration>;
    pub const UNIX_EPOCH: UnixEpoch = UnixEpoch { };
    /// `modified.duration_since(SystemTime::UNIX_EPOCH)`
    #[verifier::external_body]
    pub fn duration_since(&self, e: UnixEpoch) -> (r: std::result::Result<Duration, SystemTimeError>)
        ensures r matches Ok(d) ==> self.since_epoch() == Some(d), r is Err ==> self.since_epoch() is None,
    { unimplemented!() }
}
pub struct UnixEpoch { }
impl Path {
    /// `file.metadata().await`
    #[verifier::external_body]
    pub fn metadata(&self, Tracked(w): Tracked<&mut World>) -> (r: std::result::Result<Metadata, IoError>)
        ensures *final(w) == *old(w),
            r matches Ok(md) ==> md.mtime() == old(w).snap.mtime(self.buf()),
            r is Err ==> old(w).snap.mtime(self.buf()) is None,
    { unimplemented!() }
    #[verifier::external_body]
    pub fn display(&self) -> u8 { unimplemented!() }
}

/// async_std::fs::File + BufReader: a reader over the content of a file at the instant it was opened
#[verifier::external_body]
pub struct AsyncFile { _p: () }
impl AsyncFile {
    pub uninterp spec fn data(&self) -> Seq<u8>;
    pub uninterp spec fn path(&self) -> PathBuf;
}
#[verifier::external_body]
pub struct BufReader { _p: () }
impl BufReader {
    pub uninterp spec fn data(&self) -> Seq<u8>;
    pub uninterp spec fn pos(&self) -> nat;
    pub uninterp spec fn path(&self) -> PathBuf;
    #[verifier::external_body]
    pub fn new(f: AsyncFile) -> (r: BufReader) ensures r.data() == f.data(), r.pos() == 0, r.path() == f.path() { unimplemented!() }
    /// `reader.read(&mut buffer).await`: copies the next bytes; 0 exactly at end of file
    #[verifier::external_body]
    pub fn read(&mut self, buf: &mut [u8; 1024], Tracked(w): Tracked<&mut World>) -> (r: std::result::Result<usize, IoError>)
        requires old(self).pos() <= old(self).data().len(),
        ensures *final(w) == *old(w), final(self).data() == old(self).data(), final(self).path() == old(self).path(),
            r is Err ==> old(w).snap.content(old(self).path()) is None,
            r matches Ok(n) && n == 0 ==> old(w).snap.content(old(self).path()) == Some(old(self).data()),
            r matches Ok(n) ==> n <= 1024 && old(self).pos() + n <= old(self).data().len() && final(self).pos() == old(self).pos() + n
                && (n == 0 <==> old(self).pos() == old(self).data().len())
                && final(buf)@.subrange(0, n as int) == old(self).data().subrange(old(self).pos() as int, old(self).pos() + n),
            r is Err ==> final(self).pos() == old(self).pos(),
    { unimplemented!() }
}
/// `File::open(path).await` (async): Ok gives the content of the file at this instant
#[verifier::external_body]
pub fn async_file_open(p: &Path, Tracked(w): Tracked<&mut World>) -> (r: std::result::Result<AsyncFile, IoError>)
    ensures *final(w) == *old(w),
        r matches Ok(f) ==> f.path() == p.buf() && (old(w).snap.content(p.buf()) is Some ==> old(w).snap.content(p.buf()) == Some(f.data())),
        r is Err ==> old(w).snap.content(p.buf()) is None,
{ unimplemented!() }

#[verifier::external_body]
pub struct SeaHasher { _p: () }
impl SeaHasher {
    pub uninterp spec fn written(&self) -> Seq<u8>;
    #[verifier::external_body]
    pub fn default() -> (r: SeaHasher) ensures r.written() == Seq::<u8>::empty() { unimplemented!() }
    #[verifier::external_body]
    pub fn finish(&self) -> (r: u64) ensures r == sea_hash(self.written()) { unimplemented!() }
}
/// `Hasher::write(&mut hasher, bytes)`
#[verifier::external_body]
pub fn hasher_write(h: &mut SeaHasher, bytes: &[u8])
    ensures final(h).written() == old(h).written() + bytes@,
{ unimplemented!() }

//@fn src/engine/incremental/resources_state/fs.rs get_file_modified ret=r
//@contract
    ensures *final(w) == *old(w),
        /*[C02.fs-file]*/ r matches Ok(d) ==> old(w).snap.mtime(file.buf()) == Some(d),
        r is Err ==> old(w).snap.mtime(file.buf()) is None,
//@end

//@fn src/engine/incremental/resources_state/fs.rs compute_file_hash ret=r
//@attr #[verifier::exec_allows_no_decreases_clause]
//@contract
    ensures *final(w) == *old(w),
        /*[C02.hash-whole]*/ r matches Ok(h) ==> old(w).snap.content(file_path.buf()) is Some && h == sea_hash(old(w).snap.content(file_path.buf())->Some_0),
        r is Err ==> old(w).snap.content(file_path.buf()) is None,
//@loop 0
        invariant
            *w == *old(w),
            reader.pos() <= reader.data().len(),
            reader.path() == file_path.buf(),
            old(w).snap.content(file_path.buf()) is Some ==> old(w).snap.content(file_path.buf()) == Some(reader.data()),
            /*[C02.hash-whole]*/ hasher.written() == reader.data().subrange(0, reader.pos() as int),
        ensures
            /*[C02.hash-whole]*/ hasher.written() == reader.data(),
            old(w).snap.content(file_path.buf()) == Some(reader.data()),
//@before 0 `Hasher::write(`
        proof {
            let p0 = (reader.pos() - count) as int;
            assert(reader.data().subrange(0, p0) + reader.data().subrange(p0, p0 + count) =~= reader.data().subrange(0, reader.pos() as int));
        }
//@before 0 `break;`
        proof { assert(reader.data().subrange(0, reader.data().len() as int) =~= reader.data()); }
//@end

/// the recorded per-file state `m` is the state of the files resources `rs` at instant `snap`
pub open spec fn is_fs_state(m: Map<PathBuf, (Duration, u64)>, snap: Snap, rs: Seq<FilesResource>) -> bool {
    &&& m.dom() == snap.listing(rs)
    &&& forall|f: PathBuf| #![trigger m[f]] snap.listing(rs).contains(f) ==> file_recorded(m[f], snap, f)
}
pub open spec fn file_recorded(e: (Duration, u64), snap: Snap, f: PathBuf) -> bool {
    snap.mtime(f) == Some(e.0) && snap.content(f) is Some && e.1 == sea_hash(snap.content(f)->Some_0)
}
/// [C02.fs-file] the per-file comparison: recorded, and still the recorded mtime or the recorded content
pub open spec fn file_unchanged(m: Map<PathBuf, (Duration, u64)>, snap: Snap, f: PathBuf) -> bool {
    &&& m.contains_key(f)
    &&& snap.mtime(f) is Some
    &&& snap.mtime(f) == Some(m[f].0) || (snap.content(f) is Some && sea_hash(snap.content(f)->Some_0) == m[f].1)
}
/// [C02.fs-set] same number of files, and every current file is recorded and unchanged
pub open spec fn fs_unchanged(m: Map<PathBuf, (Duration, u64)>, snap: Snap, rs: Seq<FilesResource>) -> bool {
    &&& snap.listing(rs).len() == m.len()
    &&& forall|f: PathBuf| #![trigger snap.listing(rs).contains(f)] snap.listing(rs).contains(f) ==> file_unchanged(m, snap, f)
}
/// ... which makes the two file sets equal: added, removed and renamed files are all noticed
pub proof fn lemma_fs_unchanged_same_set(m: Map<PathBuf, (Duration, u64)>, snap: Snap, rs: Seq<FilesResource>)
    requires fs_unchanged(m, snap, rs),
    ensures /*[C02.fs-set]*/ m.dom() == snap.listing(rs),
{
    let l = snap.listing(rs);
    assert(l.subset_of(m.dom())) by {
        assert forall|f: PathBuf| l.contains(f) implies m.dom().contains(f) by { assert(file_unchanged(m, snap, f)); }
    }
    assert(m.dom().len() == m.len());
    vstd::set_lib::lemma_subset_equality(l, m.dom());
}

impl FsResourcesState {
//@fn src/engine/incremental/resources_state/fs.rs ResourcesState::current ret=r
//@lsubst Self => FsResourcesState
//@contract
    ensures *final(w) == *old(w),
        /*[C03.record,C15.same-listing]*/ r matches Ok(s) ==> is_fs_state(s.view(), old(w).snap, resources@),
//@pre
        broadcast use group_keys;
        broadcast use vstd::std_specs::hash::group_hash_axioms;
        broadcast use lemma_take_all;
//@loop 0 binder=it set-owned
        invariant
            *w == *old(w),
            it.seq().unref().to_set() == old(w).snap.listing(resources@),
            state@.dom() =~= it.seq().take(it.index@ as int).unref().to_set(),
            forall|f: PathBuf| #![trigger state@[f]] state@.contains_key(f) ==> file_recorded(state@[f], old(w).snap, f),
//@loopbody
        broadcast use group_keys;
        broadcast use vstd::std_specs::hash::group_hash_axioms;
        proof {
            let h = it.seq().take(it.index@ as int);
            let h2 = it.seq().take(it.index@ as int + 1);
            assert(h2 =~= h.push(file__ref));
            assert(h2.unref() =~= h.unref().push(*file__ref));
            h.unref().lemma_push_to_set_commute(*file__ref);
        }
//@end

//@fn src/engine/incremental/resources_state/fs.rs ResourcesState::eq_current_state#closure0 as=fs_eq_file params=`this: &FsResourcesState, file_path: PathBuf` rty=`bool` ret=r selfas=this
//@contract
    ensures *final(w) == *old(w),
        /*[C02.fs-file]*/ r == file_unchanged(this.view(), old(w).snap, file_path),
//@pre
        broadcast use group_keys;
        broadcast use vstd::std_specs::hash::group_hash_axioms;
//@end

//@fn src/engine/incremental/resources_state/fs.rs ResourcesState::eq_current_state ret=r
//@lsubst all => all_files
//@closure 0 skeleton=`let futures = files.into_iter().map(<CLOSURE>);` becomes=`let futures = (files, self);`
//@contract
    ensures *final(w) == *old(w),
        /*[C02.fs-set,C02.fs-file,C15.same-listing]*/ r ==> fs_unchanged(self.view(), old(w).snap, resources@),
        /*[C03.reflexive]*/ fs_unchanged(self.view(), old(w).snap, resources@) ==> r,
//@pre
        broadcast use group_keys;
        broadcast use vstd::std_specs::hash::group_hash_axioms;
//@after 0 `let futures = files.into_iter().map(`
        assert(futures.0@ == old(w).snap.listing(resources@));
        assert(/*[C02.fs-set]*/ futures.0@.len() == self.view().len());
//@end
}

/// `all(files.into_iter().map(closure)).await` (A-all: `async_utils::all` is true iff every future is;
/// it has its own unit tests).  The per-file closure is `fs_eq_file`, verified above against `file_unchanged`.
#[verifier::external_body]
pub fn all_files(futures: (HashSet<PathBuf>, &FsResourcesState), Tracked(w): Tracked<&mut World>) -> (r: bool)
    ensures *final(w) == *old(w),
        r <==> (forall|f: PathBuf| #![trigger futures.0@.contains(f)] futures.0@.contains(f) ==> file_unchanged(futures.1.view(), old(w).snap, f)),
{ unimplemented!() }

// ===========================================================================
// resources_state/cmd_stdout.rs
// ===========================================================================
/// `run_script::build_command(script, dir)` (A-proc)
#[verifier::external_body]
pub fn build_command(script: &String, dir: &PathBuf) -> (r: Command)
    ensures r.script() == *script, r.dir() == *dir,
{ unimplemented!() }
pub struct Output { pub status: ExitStatus, pub stdout: Vec<u8> }
impl Command {
    pub uninterp spec fn script(&self) -> String;
    pub uninterp spec fn dir(&self) -> PathBuf;
    /// `command.output().await` (A-cmd): runs the command at the current instant; commands used as
    /// resources are assumed not to modify the declared files (the instant is unchanged)
    #[verifier::external_body]
    pub fn output(&mut self, Tracked(w): Tracked<&mut World>) -> (r: std::result::Result<Output, IoError>)
        ensures *final(w) == *old(w),
            r matches Ok(o) ==> old(w).snap.run(old(self).dir(), old(self).script()) == Some((o.status.ok(), o.stdout@)),
            r is Err ==> old(w).snap.run(old(self).dir(), old(self).script()) is None,
    { unimplemented!() }
}
#[verifier::external_body]
pub struct LossyStr { _p: () }
impl LossyStr {
    pub uninterp spec fn bytes(&self) -> Seq<u8>;
    #[verifier::external_body]
    pub fn to_string(&self) -> (r: String) ensures r == lossy(self.bytes()) { unimplemented!() }
}
#[verifier::external_body]
pub fn from_utf8_lossy(b: &[u8]) -> (r: LossyStr) ensures r.bytes() == b@ { unimplemented!() }

impl Snap {
    /// the text a command resource prints, None when it fails or cannot be run
    pub open spec fn cmd_out(self, dir: PathBuf, cmd: String) -> Option<String> {
        match self.run(dir, cmd) {
            Some((true, bytes)) => Some(lossy(bytes)),
            _ => None,
        }
    }
}


//@fn src/engine/incremental/resources_state/cmd_stdout.rs state_key ret=r
//@contract
    ensures /*[C13.cmd-key,C03.reflexive]*/ r == (resource.dir, resource.cmd),
//@end

//@fn src/engine/incremental/resources_state/cmd_stdout.rs get_cmd_stdout ret=r
//@contract
    ensures *final(w) == *old(w),
        /*[C13.cmd-dir,C02.cmd]*/ r matches Ok(s) ==> old(w).snap.cmd_out(resource.dir, resource.cmd) == Some(s),
        /*[C02.cmd]*/ r is Err ==> old(w).snap.cmd_out(resource.dir, resource.cmd) is None,
//@end

/// the recorded command outputs `m` are those of the command resources `cs` at instant `snap`
pub open spec fn is_cmd_state(m: Map<(PathBuf, String), String>, snap: Snap, cs: Seq<CmdResource>) -> bool {
    forall|i: int| #![trigger cs[i]] 0 <= i < cs.len() ==> cmd_unchanged(m, snap, cs[i])
}
/// [C02.cmd] the command still prints the recorded text
pub open spec fn cmd_unchanged(m: Map<(PathBuf, String), String>, snap: Snap, c: CmdResource) -> bool {
    m.contains_key((c.dir, c.cmd)) && snap.cmd_out(c.dir, c.cmd) == Some(m[(c.dir, c.cmd)])
}

/// what the inner closure of `current` builds for one command: (state key, output)
pub open spec fn cmd_pair_spec(c: CmdResource, out: String) -> ((PathBuf, String), String) {
    ((c.dir, c.cmd), out)
}
/// `result.map(closure)` for the closure `cmd_pair` (A-std: Result::map applies the closure to the Ok value)
#[verifier::external_body]
pub fn result_map_pair(x: Result<String>, resource: &CmdResource) -> (r: Result<((PathBuf, String), String)>)
    ensures x matches Ok(s) ==> r == Ok::<((PathBuf, String), String), Error>(cmd_pair_spec(*resource, s)),
            x is Err ==> r is Err,
{ unimplemented!() }
/// `future::try_join_all(cmds.iter().map(closure)).await` for the closure `cmd_current_one` (A-all:
/// Ok with one result per element, in order, iff every future is Ok)
#[verifier::external_body]
pub fn try_join_all_cmds(cmds: &[CmdResource], Tracked(w): Tracked<&mut World>) -> (r: Result<Vec<((PathBuf, String), String)>>)
    ensures *final(w) == *old(w),
        r matches Ok(v) ==> v@.len() == cmds@.len() && forall|i: int| #![trigger v@[i]] #![trigger cmds@[i]] 0 <= i < v@.len() ==>
            old(w).snap.cmd_out(cmds@[i].dir, cmds@[i].cmd) is Some && v@[i] == cmd_pair_spec(cmds@[i], old(w).snap.cmd_out(cmds@[i].dir, cmds@[i].cmd)->Some_0),
{ unimplemented!() }
/// `vec.into_iter().collect()` into a HashMap (A-std: fold of insert; a later pair with the same key wins)
#[verifier::external_body]
pub fn collect_map(v: Vec<((PathBuf, String), String)>) -> (r: HashMap<(PathBuf, String), String>)
    ensures
        forall|i: int| #![trigger v@[i]] 0 <= i < v@.len() ==> r@.contains_key(v@[i].0),
        forall|k: (PathBuf, String)| #![trigger r@[k]] r@.contains_key(k) ==> exists|j: int| 0 <= j < v@.len() && v@[j].0 == k && v@[j].1 == r@[k],
{ unimplemented!() }
/// `async_utils::all(cmds.iter().cloned().map(closure)).await` for the closure `cmd_eq_one` (A-all)
#[verifier::external_body]
pub fn all_cmds(futures: (&[CmdResource], &CmdResourcesState), Tracked(w): Tracked<&mut World>) -> (r: bool)
    ensures *final(w) == *old(w),
        r <==> (forall|i: int| #![trigger futures.0@[i]] 0 <= i < futures.0@.len() ==> cmd_unchanged(futures.1.view(), old(w).snap, futures.0@[i])),
{ unimplemented!() }

//@fn src/engine/incremental/resources_state/cmd_stdout.rs ResourcesState::current#closure1 as=cmd_pair params=`resource: &CmdResource, stdout: String` rty=`((PathBuf, String), String)` ret=r
//@contract
    ensures /*[C13.cmd-key,C03.reflexive]*/ r == cmd_pair_spec(*resource, stdout),
//@end

//@fn src/engine/incremental/resources_state/cmd_stdout.rs ResourcesState::current#closure0 as=cmd_current_one params=`resource: &CmdResource` rty=`Result<((PathBuf, String), String)>` ret=r
//@closure 1 skeleton=`get_cmd_stdout(resource).await.map(<CLOSURE>)` becomes=`result_map_pair(get_cmd_stdout(resource, Tracked(w)), resource)`
//@contract
    ensures *final(w) == *old(w),
        /*[C03.record,C13.cmd-dir]*/ r matches Ok(p) ==> old(w).snap.cmd_out(resource.dir, resource.cmd) is Some && p == cmd_pair_spec(*resource, old(w).snap.cmd_out(resource.dir, resource.cmd)->Some_0),
//@end

impl CmdResourcesState {
//@fn src/engine/incremental/resources_state/cmd_stdout.rs ResourcesState::current ret=r
//@lsubst Self => CmdResourcesState
//@lsubst future::try_join_all => try_join_all_cmds
//@closure 0 skeleton=`let futures = cmds.iter().map(<CLOSURE>);` becomes=`let futures = cmds;`
//@replace `vec.into_iter().collect()` => `collect_map(vec)` rule=R13 why=`iterator chain into_iter().collect() into a HashMap -> prelude stub collect_map (fold of insert)`
//@contract
    ensures *final(w) == *old(w),
        /*[C03.record]*/ r matches Ok(s) ==> is_cmd_state(s.view(), old(w).snap, cmds@),
//@after 0 `let vec = future::try_join_all(futures)`
        let ghost vv = vec@;
//@end

//@fn src/engine/incremental/resources_state/cmd_stdout.rs ResourcesState::eq_current_state#closure0 as=cmd_eq_one params=`this: &CmdResourcesState, resource: CmdResource` rty=`bool` ret=r selfas=this
//@replace `self.0.get(&state_key(&resource)) == Some(&stdout)` => `opt_str_eq(self.0.get(&state_key(&resource)), &stdout)` rule=R15 pre why=`Option<&String> == Some(&String) written as a helper call (vstd has no equality spec for String); opt_str_eq(o, s) == (o == Some(s))`
//@contract
    ensures *final(w) == *old(w),
        /*[C02.cmd]*/ r == cmd_unchanged(this.view(), old(w).snap, resource),
//@pre
        broadcast use group_keys;
        broadcast use vstd::std_specs::hash::group_hash_axioms;
//@end

//@fn src/engine/incremental/resources_state/cmd_stdout.rs ResourcesState::eq_current_state ret=r
//@lsubst async_utils::all => all_cmds
//@closure 0 skeleton=`let futures = cmds.iter().cloned().map(<CLOSURE>);` becomes=`let futures = (cmds, self);`
//@contract
    ensures *final(w) == *old(w),
        /*[C02.cmd]*/ r ==> is_cmd_state(self.view(), old(w).snap, cmds@),
        /*[C03.reflexive]*/ is_cmd_state(self.view(), old(w).snap, cmds@) ==> r,
//@end
}

#[verifier::external_body]
pub fn opt_str_eq(o: Option<&String>, s: &String) -> (r: bool)
    ensures r == (o matches Some(x) && *x == *s),
{ unimplemented!() }

// ===========================================================================
// resources_state/mod.rs and incremental/mod.rs
// ===========================================================================
/// `async_utils::both(a, b).await` (it has its own unit tests): true iff both are
pub fn both(a: bool, b: bool) -> (r: bool)
    ensures r == (a && b),
{ a && b }
/// `future::join(a, b).await`
pub fn join<A, B>(a: A, b: B) -> (r: (A, B))
    ensures r == (a, b),
{ (a, b) }

pub open spec fn is_rs_state(v: RsView, snap: Snap, res: Resources) -> bool {
    is_fs_state(v.fs, snap, res.files@) && is_cmd_state(v.cmd, snap, res.cmds@)
}
/// [C02] nothing a resource set declares has changed with respect to the record `v`
pub open spec fn rs_unchanged(v: RsView, snap: Snap, res: Resources) -> bool {
    fs_unchanged(v.fs, snap, res.files@) && is_cmd_state(v.cmd, snap, res.cmds@)
}
/// [C02.in-and-out] ... for the inputs and for the outputs; a declared output without a recorded output state is a change
pub open spec fn env_unchanged(ev: EnvView, snap: Snap, input: Resources, output: Option<&Resources>) -> bool {
    &&& rs_unchanged(ev.input, snap, input)
    &&& output matches Some(o) ==> (ev.output matches Some(ov) && rs_unchanged(ov, snap, *o))
}
pub open spec fn env_is_state(ev: EnvView, snap: Snap, input: Resources, output: Option<&Resources>) -> bool {
    &&& is_rs_state(ev.input, snap, input)
    &&& output matches Some(o) ==> (ev.output matches Some(ov) && is_rs_state(ov, snap, *o))
}
/// a record that is the state of the current instant compares as unchanged
pub proof fn lemma_state_is_unchanged(m: Map<PathBuf, (Duration, u64)>, snap: Snap, rs: Seq<FilesResource>)
    requires is_fs_state(m, snap, rs),
    ensures fs_unchanged(m, snap, rs),
{
    assert(m.dom().len() == m.len());
    assert forall|f: PathBuf| snap.listing(rs).contains(f) implies file_unchanged(m, snap, f) by {
        assert(file_recorded(m[f], snap, f));
    }
}

impl Resources {
    pub open spec fn is_empty_spec(&self) -> bool { self.files@.len() == 0 && self.cmds@.len() == 0 }
//@fn src/domain.rs Resources::is_empty ret=r
//@contract
    ensures /*[C03.no-input]*/ r == self.is_empty_spec(),
//@end
}

impl ResourcesState {
//@fn src/engine/incremental/resources_state/mod.rs ResourcesState::current ret=r
//@lsubst Self => ResourcesState
//@contract
    ensures *final(w) == *old(w),
        /*[C03.record]*/ r matches Ok(s) ==> is_rs_state(s.view(), old(w).snap, *resources),
//@end

//@fn src/engine/incremental/resources_state/mod.rs ResourcesState::eq_current_state ret=r
//@contract
    ensures *final(w) == *old(w),
        /*[C02.in-and-out]*/ r ==> rs_unchanged(self.view(), old(w).snap, *resources),
        /*[C03.reflexive]*/ rs_unchanged(self.view(), old(w).snap, *resources) ==> r,
//@end
}

//@fn src/engine/incremental/mod.rs TargetEnvState::eq_current_state::eq as=eq_opt ret=r
//@contract
    ensures *final(w) == *old(w),
        /*[C02.in-and-out,C03.reflexive,C13.decision]*/ r == (resources matches Some(res) ==> (env_state matches Some(st) && rs_unchanged(st.view(), old(w).snap, *res))),
//@end

impl TargetEnvState {
//@fn src/engine/incremental/mod.rs TargetEnvState::current_input ret=r
//@contract
    ensures *final(w) == *old(w),
        /*[C03.no-input]*/ target_input.is_empty_spec() ==> r matches Ok(None),
        /*[C03.record,C06.record-precedes]*/ r matches Ok(Some(s)) ==> is_rs_state(s.view(), old(w).snap, *target_input) && !target_input.is_empty_spec(),
//@end

//@fn src/engine/incremental/mod.rs TargetEnvState::with_current_output ret=r
//@lsubst Self => TargetEnvState
//@contract
    ensures *final(w) == *old(w),
        /*[C03.record]*/ r matches Ok(Some(s)) ==> input_state matches Ok(Some(i)) && s.input == i
            && (target_output matches Some(o) ==> s.output matches Some(os) && is_rs_state(os.view(), old(w).snap, *o)),
        r matches Ok(None) ==> input_state matches Ok(None),
//@end

//@fn src/engine/incremental/mod.rs TargetEnvState::eq_current_state ret=r
//@lsubst eq => eq_opt
//@contract
    ensures *final(w) == *old(w),
        /*[C02.in-and-out,C13.decision]*/ r ==> env_unchanged(self.view(), old(w).snap, *target_input, target_output),
        /*[C03.reflexive,C13.decision]*/ env_unchanged(self.view(), old(w).snap, *target_input, target_output) ==> r,
//@end
}

//@fn src/engine/incremental/mod.rs env_state_has_not_changed_since_last_successful_execution ret=r
//@contract
    ensures
        /*[C02.theorem,C02.needs-record,C18.decision-local,C12.no-skip]*/ r ==> *final(w) == *old(w) && old(w).store.contains_key(state_path(target.project_dir, target.id))
            && (old(w).store[state_path(target.project_dir, target.id)] matches Stored::State(ev) && env_unchanged(ev, old(w).snap, *target_input, target_output)),
        /*[C05.corrupt]*/ !r ==> final(w).store == old(w).store || final(w).store == old(w).store.remove(state_path(target.project_dir, target.id)),
        /*[C03.skip]*/ old(w).store.contains_key(state_path(target.project_dir, target.id)) && !read_fails(state_path(target.project_dir, target.id))
            && (old(w).store[state_path(target.project_dir, target.id)] matches Stored::State(ev) && env_unchanged(ev, old(w).snap, *target_input, target_output)) ==> r,
        *final(w) == (World { store: final(w).store, ..*old(w) }),
//@end

/// the build future handed to `incremental::run` (built by `builder::build_target`, verified in BLD)
#[verifier::external_body]
pub struct BuildFuture { _p: () }
/// `future.await`: the script runs — the file system and command outputs are arbitrary afterwards,
/// the state files are not touched (scripts do not write `.zinoma`; assumption).  A crash can only
/// happen inside such an external call, so "no decodable record exists while the script runs" is
/// the precondition [C05.delete-first] (crash-as-precondition, DESIGN §7 C05).
#[verifier::external_body]
pub fn await_build(future: BuildFuture, target: &TargetMetadata, Tracked(w): Tracked<&mut World>) -> (r: Result<BuildTerminationReport>)
    requires
        /*[C05.delete-first]*/ !old(w).store.contains_key(state_path(target.project_dir, target.id)),
    ensures final(w).store == old(w).store, final(w).builds == old(w).builds + 1,
        final(w).last_completed == (r matches Ok(BuildTerminationReport::Completed)),
{ unimplemented!() }

//@fn src/engine/incremental/mod.rs run ret=r
//@replace `pub async fn run<F>(` => `pub async fn run(` rule=R5 pre why=`the generic build future F becomes the prelude type BuildFuture`
//@replace `future: F,` => `future: BuildFuture,` rule=R5 pre why=`see above`
//@replace `where\n    F: Future<Output = Result<BuildTerminationReport>>,` => `\n` rule=R5 pre why=`see above`
//@replace `future.await?` => `await_build(future, target).await?` rule=R5 pre why=`awaiting the build future is the external call await_build (contract above)`
//@contract
    ensures
        /*[C02.theorem,C02.needs-record,C12.no-skip]*/ r matches Ok(IncrementalRunResult::Skipped) ==> *final(w) == *old(w) && old(w).store.contains_key(state_path(target.project_dir, target.id))
            && (old(w).store[state_path(target.project_dir, target.id)] matches Stored::State(ev) && env_unchanged(ev, old(w).snap, *target_input, target_output)),
        /*[C03.no-input]*/ target_input.is_empty_spec() ==> !(r matches Ok(IncrementalRunResult::Skipped)),
        // the converse of C02.theorem, which is C03 itself: a readable record that is the state of the current world means "skipped"
        /*[C03.skip]*/ !target_input.is_empty_spec() && old(w).store.contains_key(state_path(target.project_dir, target.id)) && !read_fails(state_path(target.project_dir, target.id))
            && (old(w).store[state_path(target.project_dir, target.id)] matches Stored::State(ev) && env_unchanged(ev, old(w).snap, *target_input, target_output))
            ==> r matches Ok(IncrementalRunResult::Skipped),
        /*[C05.write-on-success-only]*/ (r is Err || r matches Ok(IncrementalRunResult::Cancelled)) ==>
            !final(w).store.contains_key(state_path(target.project_dir, target.id))
            || (final(w).builds == old(w).builds && same_or_dropped(old(w).store, final(w).store, state_path(target.project_dir, target.id))),
        /*[C18.frame-run,C08.state-untouched,C03.own-record]*/ frame(old(w).store, final(w).store, state_path(target.project_dir, target.id)),
        /*[C03.record,C06.record-precedes]*/ r matches Ok(IncrementalRunResult::Completed) && final(w).store.contains_key(state_path(target.project_dir, target.id)) ==>
            (final(w).store[state_path(target.project_dir, target.id)] matches Stored::State(ev) ==>
                is_rs_state(ev.input, old(w).snap, *target_input)
                && (target_output matches Some(o) ==> ev.output matches Some(ov) && is_rs_state(ov, final(w).snap, *o))),
        /*[C03.record]*/ r matches Ok(IncrementalRunResult::Completed) ==> final(w).builds == old(w).builds + 1,
        /*[C05.write-on-success-only]*/ r matches Ok(IncrementalRunResult::Completed) ==> final(w).last_completed,
        /*[C05.write-on-success-only]*/ final(w).builds > old(w).builds && final(w).store.contains_key(state_path(target.project_dir, target.id)) ==> final(w).last_completed,
        /*[C05.write-on-success-only]*/ r matches Ok(IncrementalRunResult::Cancelled) ==> final(w).builds > old(w).builds && !final(w).last_completed,
//@end

pub broadcast proof fn lemma_take_all<A>(s: Seq<A>)
    ensures #[trigger] s.take(s.len() as int) == s
{
    assert(s.take(s.len() as int) =~= s);
}

//@include footer.rs
